"""Grammar specs shared by the core checks (C01 C02 C03 C04 C05 C06 C07 C09 C10 C11).

A *spec* is plain data (lists / tuples / strings) describing a class hierarchy.  From one spec
the harness builds (a) real Python classes for the library (`build`) and (b) the s-expression the
Lean model parses (`spec_sx`).  Types are tuples:

  "int" | "float" | "str" | "bool" | ("cls", i) | ("list", t) | ("tuple", t...) | ("union", t...)
  | ("ann", t, mh)
  mh: ("intRange", lo, hi) | ("intList", [..]) | ("varRange", [names]) | ("listSize", lo, hi)
    | ("strSize", lo, hi, [chars]) | ("interval", a, b, c) | "floatRange" | ("floatList", n)
    | ("depIntRangeLo", field, hi) | ("depIntRangeHi", lo, field) | ("depListSize", field) | ("depIntRangeSpan", widthField, loField)
"""
from __future__ import annotations

import dataclasses
import itertools
import sys
from abc import ABC
from dataclasses import dataclass, field
from typing import Annotated, Any, Union

from geneticengine.grammar.decorators import abstract
from geneticengine.grammar.grammar import extract_grammar, Grammar
from geneticengine.grammar.metahandlers.dependent import Dependent
from geneticengine.grammar.metahandlers.floats import FloatList, FloatRange
from geneticengine.grammar.metahandlers.ints import IntervalRange, IntList, IntRange
from geneticengine.grammar.metahandlers.lists import ListSizeBetween
from geneticengine.grammar.metahandlers.strings import StringSizeBetween
from geneticengine.grammar.metahandlers.vars import VarRange
from geneticengine.solutions.tree import GengyList

_counter = itertools.count()


@dataclass
class ClassSpec:
    name: str
    abstract: bool
    parent: int | None
    fields: list[tuple[str, Any]] = field(default_factory=list)
    weight: float | None = None   # @weight(w) decorator (does not influence the analysis)


@dataclass
class Spec:
    classes: list[ClassSpec]
    start: int
    considered: list[int]
    expansion: bool = False

    def key(self) -> str:
        return spec_sx_str(self)


# ---------------------------------------------------------------------------------------
# serialisation
# ---------------------------------------------------------------------------------------

def mh_sx(mh):
    if isinstance(mh, str):
        return mh
    k = mh[0]
    if k in ("intRange", "listSize", "listSizeNoOps", "interval", "floatList", "depIntRangeLo", "depIntRangeHi", "depIntRangeSpan", "depListSize", "depVarFrom"):
        return list(mh)
    if k == "intList":
        return [k, list(mh[1])]
    if k == "varRange":
        return [k, [hexs(x) if isinstance(x, str) else x for x in mh[1]]]
    if k == "strSize":
        return [k, mh[1], mh[2], [hexs(x) for x in mh[3]]]
    raise ValueError(mh)


def ty_sx(t):
    if isinstance(t, str):
        return t
    k = t[0]
    if k == "cls":
        return ["cls", t[1]]
    if k == "list":
        return ["list", ty_sx(t[1])]
    if k in ("tuple", "union"):
        return [k] + [ty_sx(x) for x in t[1:]]
    if k == "ann":
        return ["ann", ty_sx(t[1]), mh_sx(t[2])]
    raise ValueError(t)


def spec_sx(s: Spec):
    return ["spec",
            [["cls", c.name, c.abstract, ("none" if c.parent is None else c.parent),
              [[fn, ty_sx(ft)] for fn, ft in c.fields]] for c in s.classes],
            s.start, list(s.considered), s.expansion]


def spec_sx_str(s: Spec) -> str:
    from core import sx
    return sx(spec_sx(s))


# ---------------------------------------------------------------------------------------
# building real classes
# ---------------------------------------------------------------------------------------

def _dep_int_lo(hi):
    return lambda a: IntRange(a, hi)


def _dep_int_hi(lo):
    return lambda a: IntRange(lo, a)


def py_mh(mh):
    if mh == "floatRange":
        return FloatRange(-1.5, 2.5)
    k = mh[0]
    if k == "intRange":
        return IntRange(mh[1], mh[2])
    if k == "intList":
        return IntList(list(mh[1]))
    if k == "varRange":
        return VarRange(list(mh[1]))
    if k == "listSize":
        return ListSizeBetween(mh[1], mh[2])
    if k == "listSizeNoOps":
        # same generator, no list-specific mutation / crossover operators (the model reads both as `listSize`)
        from geneticengine.grammar.metahandlers.lists import ListSizeBetweenWithoutListOperations
        return ListSizeBetweenWithoutListOperations(mh[1], mh[2])
    if k == "strSize":
        return StringSizeBetween(mh[1], mh[2], list(mh[3]))
    if k == "interval":
        return IntervalRange(mh[1], mh[2], mh[3])
    if k == "floatList":
        return FloatList([0.5 * i for i in range(mh[1])])
    if k == "depIntRangeLo":
        return Dependent(mh[1], _dep_int_lo(mh[2]))
    if k == "depIntRangeHi":
        return Dependent(mh[2], _dep_int_hi(mh[1]))
    if k == "depIntRangeSpan":
        # two dependencies, NAMED in this order (width, lower bound) whatever the order of the fields
        return Dependent(f"{mh[1]},{mh[2]}", lambda w, lo: IntRange(lo, lo + w))
    if k == "depListSize":
        return Dependent(mh[1], lambda n: ListSizeBetween(n, n))
    if k == "depVarFrom":
        return Dependent(mh[1], lambda xs: VarRange(xs))
    raise ValueError(mh)


def py_type(t, classes):
    if t == "int":
        return int
    if t == "float":
        return float
    if t == "str":
        return str
    if t == "bool":
        return bool
    k = t[0]
    if k == "cls":
        return classes[t[1]]
    if k == "list":
        return list[py_type(t[1], classes)]
    if k == "tuple":
        return tuple[tuple(py_type(x, classes) for x in t[1:])]
    if k == "union":
        return Union[tuple(py_type(x, classes) for x in t[1:])]
    if k == "ann":
        return Annotated[py_type(t[1], classes), py_mh(t[2])]
    raise ValueError(t)


@dataclass
class Built:
    spec: Spec
    classes: list[type]
    index: dict[type, int]
    grammar: Grammar | None = None
    tymap: list = field(default_factory=list)   # (typing object, spec type) for every field type component

    def spec_ty(self, obj):
        """spec type of a real type object met in this grammar (classes, base types, and the
        generic / Annotated aliases that occur in field declarations)"""
        if obj is int:
            return "int"
        if obj is float:
            return "float"
        if obj is str:
            return "str"
        if obj is bool:
            return "bool"
        if obj in self.index:
            return ("cls", self.index[obj])
        for o, t in self.tymap:
            if o is obj:
                return t
        for o, t in self.tymap:
            try:
                if o == obj:
                    return t
            except Exception:  # noqa: BLE001
                pass
        raise ValueError(f"unknown type object {obj!r}")

    @property
    def start(self):
        return self.classes[self.spec.start]

    def considered(self):
        return [self.classes[i] for i in self.spec.considered]

    def extract(self) -> Grammar:
        self.grammar = extract_grammar(self.considered(), self.start, self.spec.expansion)
        return self.grammar


class HashMeta(type(ABC)):
    """Metaclass whose classes hash to a value chosen by the harness: the iteration order of a `set` of classes then follows
    those values instead of memory addresses -- different "memory layouts" can be emulated within one process."""

    def __hash__(cls):
        return cls.__dict__.get("_verif_hash", 0) or type.__hash__(cls)


def build(spec: Spec, hashes: list[int] | None = None) -> Built:
    """Creates fresh Python classes for a spec (two passes: classes first, then constructors,
    so that fields may mention any class, including the class itself).  `hashes`: per-class hash values (HashMeta)."""
    uid = next(_counter)
    classes: list[type] = []
    tymap: list = []
    mod = sys.modules[__name__]
    for i, c in enumerate(spec.classes):
        base = (ABC if c.abstract else object) if c.parent is None else classes[c.parent]
        if c.parent is not None and c.parent >= i:
            raise ValueError("parents must precede children")
        name = f"{c.name}"
        ns = {"__module__": __name__, "__qualname__": f"{name}_{uid}"}
        if hashes is not None:
            ns["_verif_hash"] = hashes[i]
            cls = HashMeta(name, (base,), ns)
        else:
            cls = type(name, (base,), ns)
        if c.abstract and c.parent is not None:
            cls = abstract(cls)
        if c.weight is not None:
            from geneticengine.grammar.decorators import weight as weight_decorator
            cls = weight_decorator(c.weight)(cls)
        classes.append(cls)
    for i, c in enumerate(spec.classes):
        if c.abstract and not c.fields:
            continue
        # (an abstract class MAY declare a constructor: the fields its subclasses share)
        cls = classes[i]
        names = [fn for fn, _ in c.fields]
        types = [py_type(ft, classes) for _, ft in c.fields]
        for (_, ft), pt in zip(c.fields, types):
            _collect_tymap(ft, pt, tymap)
        _install_init(cls, names, types)
    return Built(spec, classes, {cls: i for i, cls in enumerate(classes)}, tymap=tymap)


def rebuild_plain(v: Any, b: "Built"):
    """The same program built again by CALLING the classes (as a user writes a program by hand): no gengy_* metadata, no synthesis
    context, plain lists."""
    if type(v) in b.index:
        names = getattr(type(v), "__gengy_field_names__", ())
        return type(v)(*[rebuild_plain(getattr(v, n), b) for n in names])
    if isinstance(v, (list, GengyList)):
        return [rebuild_plain(x, b) for x in v]
    if isinstance(v, tuple):
        return tuple(rebuild_plain(x, b) for x in v)
    return v


def retarget(b: "Built", ci: int, fn: str, new):
    """Re-declare field `fn` of class `ci` the documented way (`Cls.__init__.__annotations__[fn] = T`) on ALREADY BUILT
    classes, and keep the spec in step."""
    fields = b.spec.classes[ci].fields
    j = next(i for i, (n_, _) in enumerate(fields) if n_ == fn)
    fields[j] = (fn, new)
    pt = py_type(new, b.classes)
    b.classes[ci].__init__.__annotations__[fn] = pt
    b.classes[ci].__annotations__[fn] = pt
    _collect_tymap(new, pt, b.tymap)


def _collect_tymap(ft, pt, out):
    """pair every component of a declared field type with the typing object built for it"""
    if isinstance(ft, str) or ft[0] == "cls":
        return
    out.append((pt, ft))
    k = ft[0]
    if k == "list":
        _collect_tymap(ft[1], pt.__args__[0], out)
    elif k in ("tuple", "union"):
        for sub, psub in zip(ft[1:], pt.__args__):
            _collect_tymap(sub, psub, out)
    elif k == "ann":
        _collect_tymap(ft[1], pt.__args__[0], out)


def _install_init(cls, names, types):
    """Make `cls` a real dataclass (in place) with the given typed fields."""
    cls.__annotations__ = {n: t for n, t in zip(names, types)}
    dataclasses.dataclass(cls)
    cls.__gengy_field_names__ = tuple(names)


# ---------------------------------------------------------------------------------------
# canonical form of programs
# ---------------------------------------------------------------------------------------

def hexs(s: str) -> str:
    """Strings on the wire: '-' for the empty string, the string itself when it is a plain
    identifier-like atom, otherwise 0x<hex>."""
    if s == "":
        return "-"
    if s.isalnum() and s.isascii() and not s.startswith("0x"):
        return s
    return "0x" + s.encode().hex()


def canon(v: Any, b: Built, meta: bool = True):
    """Canonical s-expression of a program as the library returned it.  Anything that is not a
    well-formed value of the model's `Val` becomes an explicit foreign marker."""
    if type(v) is bool:
        return ["b", v]
    if type(v) is int:
        return ["i", v]
    if type(v) is float:
        return ["f"]
    if type(v) is str:
        return ["s", hexs(v)]
    if type(v) is tuple:
        return ["t"] + [canon(x, b, meta) for x in v]
    if isinstance(v, GengyList):
        return ["l"] + _meta(v, meta) + [canon(x, b, meta) for x in v]
    if type(v) is list:  # a plain Python list (the stack representation builds these)
        return ["l", "noctx", "noctx"] + [canon(x, b, meta) for x in v]
    if type(v) in b.index:
        names = getattr(type(v), "__gengy_field_names__", ())
        try:
            args = [getattr(v, n) for n in names]
        except AttributeError:
            return ["x", "partial"]
        return ["n", b.index[type(v)]] + _meta(v, meta) + [canon(a, b, meta) for a in args]
    return ["x", type(v).__name__]


def _meta(v, meta):
    if not meta:
        return []
    ctx = getattr(v, "gengy_synthesis_context", None)
    if ctx is None:
        return ["noctx", "noctx"]
    return [ctx.depth, ctx.expansions]


def err_kind(e: BaseException) -> str:
    from geneticengine.exceptions import GeneticEngineError
    from geneticengine.grammar.metahandlers.base import SynthesisException
    if isinstance(e, GeneticEngineError):
        return "library"
    if isinstance(e, SynthesisException):
        return "synthesis"
    return "foreign:" + type(e).__name__


# ---------------------------------------------------------------------------------------
# spec generation
# ---------------------------------------------------------------------------------------

def random_type(rng, ncls: int, abstract_ids: list[int], all_ids: list[int], depth: int = 0, opts=None) -> Any:
    """A field type.  `opts` switches type forms on/off."""
    o = {"tuple": True, "union": True, "ann": True, "float": True, "str": True, "dep": False, "bool": True}
    o.update(opts or {})
    r = rng.random()
    target = abstract_ids if (abstract_ids and rng.random() < 0.8) else all_ids
    if depth >= 2 or r < 0.30:
        return ("cls", rng.choice(target))
    if r < 0.45:
        base = ["int"] + (["bool"] if o["bool"] else []) + (["float"] if o["float"] else []) + (["str"] if o["str"] else [])
        return rng.choice(base)
    if r < 0.60:
        return ("list", random_type(rng, ncls, abstract_ids, all_ids, depth + 1, o))
    if r < 0.70 and o["tuple"]:
        k = rng.randint(1, 3)
        return ("tuple",) + tuple(random_type(rng, ncls, abstract_ids, all_ids, depth + 1, o) for _ in range(k))
    if r < 0.80 and o["union"]:
        k = rng.randint(2, 3)
        alts = []
        for _ in range(k):
            t = random_type(rng, ncls, abstract_ids, all_ids, 2, o)
            if t not in alts:
                alts.append(t)
        if len(alts) < 2:
            return alts[0]
        return ("union",) + tuple(alts)
    if o["ann"]:
        return random_ann(rng, ncls, abstract_ids, all_ids, depth, o)
    return ("cls", rng.choice(target))


def random_ann(rng, ncls, abstract_ids, all_ids, depth, o):
    k = rng.randrange(6)
    if k == 0:
        lo = rng.randint(-3, 3)
        return ("ann", "int", ("intRange", lo, lo + rng.choice([0, 0, 1, 2, 5])))
    if k == 1:
        return ("ann", "int", ("intList", [rng.randint(-5, 5) for _ in range(rng.randint(1, 3))]))
    if k == 2:
        return ("ann", "str", ("varRange", [rng.choice(["x", "y", "z", "w"]) for _ in range(rng.randint(1, 3))]))
    if k == 3:
        lo = rng.randint(0, 2)
        # the element type is mostly a class, sometimes itself a base, list, tuple or refined type
        inner = random_type(rng, ncls, abstract_ids, all_ids, 2 if rng.random() < 0.6 else 1, o)
        hi = lo + rng.randint(0, 2)
        return ("ann", ("list", inner), ("listSizeNoOps" if (lo + 2 * hi) % 4 == 1 else "listSize", lo, hi))
    if k == 4:
        lo = rng.randint(0, 2)
        return ("ann", "str", ("strSize", lo, lo + rng.randint(0, 2), rng.choice([["a"], ["a", "b"], ["a", "b", "c"]])))
    a = rng.randint(0, 2)
    bb = a + rng.randint(1, 3)
    return ("ann", ("tuple", "int", "int"), ("interval", a, bb, bb + rng.randint(1, 4)))


def random_spec(rng, max_classes: int = 6, opts=None, expansion: bool = False) -> Spec:
    """Hierarchy: a root abstract class, optional nested abstract classes, concrete productions,
    possibly classes outside the root's hierarchy (reachable only through fields, or not at all)."""
    n = rng.randint(2, max_classes)
    classes: list[ClassSpec] = [ClassSpec("A0", True, None)]
    abstract_ids = [0]
    for i in range(1, n):
        r = rng.random()
        if r < 0.18 and i < n - 1:
            parent = rng.choice(abstract_ids)
            classes.append(ClassSpec(f"A{i}", True, parent if rng.random() < 0.7 else None))
            abstract_ids.append(i)
        else:
            classes.append(ClassSpec(f"C{i}", False, rng.choice(abstract_ids)))
    all_ids = list(range(n))
    concrete = [i for i, c in enumerate(classes) if not c.abstract]
    # every abstract class gets at least a chance of a production; fields:
    for i in concrete:
        k = rng.choice([0, 0, 1, 1, 2, 2, 3])
        classes[i].fields = [(f"f{j}", random_type(rng, n, abstract_ids, all_ids, 0, opts)) for j in range(k)]
    considered = [i for i in all_ids if rng.random() < 0.9]
    rng.shuffle(considered)
    if rng.random() < 0.5 and 0 not in considered:
        considered.append(0)
    return normalise_unions(Spec(classes, 0, considered, expansion))


def normalise_unions(spec: Spec) -> Spec:
    """Python compares `Union` types as SETS of members (`Union[A, B] == Union[B, A]`, one dictionary key, one gene list in the
    structured genotypes), the model compares them as lists.  A generated grammar therefore never holds the same member set in two
    different orders: the second occurrence is rewritten to the order of the first."""
    seen: dict = {}

    def fix(t):
        if not isinstance(t, tuple):
            return t
        if t[0] == "union":
            members = tuple(fix(x) for x in t[1:])
            key = frozenset(repr(m) for m in members)
            if key in seen:
                return seen[key]
            seen[key] = ("union",) + members
            return seen[key]
        if t[0] in ("list",):
            return (t[0], fix(t[1]))
        if t[0] == "tuple":
            return ("tuple",) + tuple(fix(x) for x in t[1:])
        if t[0] == "ann":
            return ("ann", fix(t[1]), t[2])
        return t
    for c in spec.classes:
        c.fields = [(n, fix(t)) for n, t in c.fields]
    return spec


def add_dependent_fields(rng, spec: Spec):
    """Turn some int / list fields into Dependent refinements on an earlier int sibling."""
    for c in spec.classes:
        if c.abstract:
            continue
        earlier_int = None
        for j, (fn, ft) in enumerate(c.fields):
            is_intlike = ft == "int" or (isinstance(ft, tuple) and ft[0] == "ann" and ft[1] == "int" and ft[2][0] == "intRange")
            if earlier_int is not None and rng.random() < 0.6:
                dep, (dlo, dhi) = earlier_int
                k = rng.randrange(3)
                if k == 0:
                    c.fields[j] = (fn, ("ann", "int", ("depIntRangeLo", dep, dhi + rng.randint(0, 3))))
                    continue
                if k == 1:
                    c.fields[j] = (fn, ("ann", "int", ("depIntRangeHi", dlo - rng.randint(0, 3), dep)))
                    continue
                if dlo >= 0 and dhi <= 3:
                    c.fields[j] = (fn, ("ann", ("list", "int"), ("depListSize", dep)))
                    continue
            if is_intlike and ft != "int":
                earlier_int = (fn, (ft[2][1], ft[2][2]))
    return spec


def productive_spec(rng, max_classes: int = 6, opts=None, expansion: bool = False) -> Spec:
    """Like random_spec but biased towards grammars whose start symbol can reach a terminal:
    the first production of every abstract class is a leaf (base / refined-base fields only)."""
    s = random_spec(rng, max_classes, opts, expansion)
    first_prod: dict[int, int] = {}
    for i, c in enumerate(s.classes):
        if not c.abstract and c.parent is not None and c.parent not in first_prod:
            first_prod[c.parent] = i
    n = len(s.classes)
    for a, c in enumerate(s.classes):
        if c.abstract and a not in first_prod:
            s.classes.append(ClassSpec(f"C{len(s.classes)}", False, a))
            first_prod[a] = len(s.classes) - 1
            s.considered.append(len(s.classes) - 1)
    # make most grammars properly recursive (binary node / list-of-abstract / unary wrapper)
    if rng.random() < 0.75:
        shape = rng.randrange(3)
        tgt = ("cls", rng.choice([a for a, c in enumerate(s.classes) if c.abstract]))
        if shape == 0:
            fs = [("l", tgt), ("r", ("cls", 0))]
        elif shape == 1:
            fs = [("xs", ("ann", ("list", tgt), ("listSize", 1, 2))) if (opts or {}).get("ann", True) else ("xs", ("list", tgt))]
        else:
            fs = [("e", tgt), ("k", "int")]
        s.classes.append(ClassSpec(f"R{len(s.classes)}", False, 0, fs))
        s.considered.append(len(s.classes) - 1)
    for a, i in first_prod.items():
        k = rng.choice([0, 1, 1, 2])
        fs = []
        for j in range(k):
            r = rng.random()
            if r < 0.4:
                fs.append((f"f{j}", rng.choice(["int", "bool"] if (opts or {}).get("bool", True) else ["int"])))
            elif r < 0.7:
                lo = rng.randint(-2, 2)
                fs.append((f"f{j}", ("ann", "int", ("intRange", lo, lo + rng.randint(0, 3)))))
            else:
                fs.append((f"f{j}", ("ann", "str", ("varRange", rng.sample(["x", "y", "z"], rng.randint(1, 3))))))
        s.classes[i].fields = fs
    return s


# ---------------------------------------------------------------------------------------
# reflection: real classes -> spec (used for the grammars shipped with the library)
# ---------------------------------------------------------------------------------------

def reflect(considered: list[type], start: type, expansion: bool = False):
    """Convert real classes into a Spec by the harness's own reflection (independent of
    Grammar.register_type): returns (Spec, Built)."""
    import inspect
    import typing
    from geneticengine.grammar.utils import is_abstract
    seen: list[type] = []

    def get_arguments(c: type):
        """the CONSTRUCTOR's parameters with their declared types, read by the harness itself (signature + type hints of
        `__init__`): attributes that are not constructor parameters are not children of a program"""
        init = getattr(c, "__init__", None)
        if init is None or init is object.__init__:
            return []
        hints = typing.get_type_hints(init, globalns=sys.modules[c.__module__].__dict__, include_extras=True)
        return [(p, hints[p]) for p in inspect.signature(init).parameters if p not in ("self", "args", "kwargs") and p in hints]

    def visit_cls(c: type):
        if c in seen or c in (int, float, str, bool, object, ABC):
            return
        par = c.mro()[1]
        if par not in (object, ABC, typing.Generic, typing.Protocol):
            visit_cls(par)
        seen.append(c)
        if not is_abstract(c):
            for _, t in get_arguments(c):
                visit_ty(t)

    def visit_ty(t):
        if hasattr(t, "__metadata__"):
            visit_ty(t.__args__[0])
        elif hasattr(t, "__origin__") or typing.get_origin(t) is Union:
            for a in t.__args__:
                visit_ty(a)
        elif isinstance(t, type):
            visit_cls(t)

    visit_cls(start)
    for c in considered:
        visit_cls(c)
    # subclasses among considered are found through the parent walk above
    idx = {c: i for i, c in enumerate(seen)}

    def conv_mh(m):
        n = type(m).__name__
        if n == "IntRange":
            return ("intRange", int(m.min), int(m.max))
        if n == "IntList":
            return ("intList", [int(x) for x in m.elements])
        if n in ("ListSizeBetween", "ListSizeBetweenWithoutListOperations"):
            return ("listSize", int(m.min), int(m.max))
        if n == "FloatRange":
            return "floatRange"
        return ("varRange", ["opaque"])

    def conv(t):
        if t is int:
            return "int"
        if t is float:
            return "float"
        if t is str:
            return "str"
        if t is bool:
            return "bool"
        if hasattr(t, "__metadata__"):
            return ("ann", conv(t.__args__[0]), conv_mh(t.__metadata__[0]))
        if typing.get_origin(t) is list:
            return ("list", conv(t.__args__[0]))
        if typing.get_origin(t) is tuple:
            return ("tuple",) + tuple(conv(a) for a in t.__args__)
        if typing.get_origin(t) is Union:
            return ("union",) + tuple(conv(a) for a in t.__args__)
        if t in idx:
            return ("cls", idx[t])
        raise ValueError(f"cannot reflect type {t!r}")

    for c in seen:
        if not is_abstract(c) and "__gengy_field_names__" not in c.__dict__:
            c.__gengy_field_names__ = tuple(n for n, _ in get_arguments(c))   # (what `canon` reads the children from)
    classes = []
    for c in seen:
        par = c.mro()[1]
        p = idx.get(par)
        ab = is_abstract(c)
        fields = [] if ab else [(n, conv(t)) for n, t in get_arguments(c)]
        classes.append(ClassSpec(c.__name__.replace(" ", "_"), ab, p, fields))
    spec = Spec(classes, idx[start], [idx[c] for c in considered if c in idx], expansion)
    return spec, Built(spec, seen, idx)


def ty_of_py(t, b: Built):
    """Real type object -> spec type tuple (for dynamic-SGE genotype keys)."""
    import typing
    if t is int:
        return "int"
    if t is float:
        return "float"
    if t is str:
        return "str"
    if t is bool:
        return "bool"
    if t in b.index:
        return ("cls", b.index[t])
    if hasattr(t, "__metadata__"):
        # (a refined type inside a Union key: the spec type it was built from, found by the objects' own equality)
        try:
            return b.spec_ty(t)
        except Exception:  # noqa: BLE001
            raise ValueError("annotated type as key")
    o = typing.get_origin(t)
    if o is list:
        return ("list", ty_of_py(t.__args__[0], b))
    if o is tuple:
        return ("tuple",) + tuple(ty_of_py(a, b) for a in t.__args__)
    if o is Union:
        return ("union",) + tuple(ty_of_py(a, b) for a in t.__args__)
    raise ValueError(f"unknown key type {t!r}")


def concrete_recursive_start(spec: Spec, rng) -> bool:
    """Make the start symbol a CONCRETE production that also occurs below the root (e.g. start =
    Add where Expr -> Add(l: Expr, r: Expr) | ...): then tree crossover finds donor subtrees.
    Returns False when the spec has no such production."""
    cands = []
    for i, c in enumerate(spec.classes):
        if c.abstract or c.parent is None:
            continue
        if any(isinstance(ft, tuple) and ft[0] == "cls" and ft[1] == c.parent for _, ft in c.fields):
            cands.append(i)
    if not cands:
        return False
    spec.start = rng.choice(cands)
    return True
