#!/usr/bin/env python3
"""Regenerates MANIFEST.json from the table below (kept as code so it stays consistent)."""
import json
from pathlib import Path

VERIF = Path(__file__).resolve().parent.parent

PY = "/venv/bin/python"

CHECKS = {
    "C18": dict(
        technique="Lean 4 proof over a model of RandomSource / genotype-backed sources / decider draws + differential correspondence (exhaustive small ranges)",
        text="Theorems (lean/GEVerif/Props/C18.lean) prove, for EVERY source satisfying the randint contract and every gene list / bound / weight vector, that choice returns a member, choice_weighted never returns a zero-weight option and selects option i for exactly its scaled weight's worth of draws, shuffle permutes, pop_random removes the returned element, and the deciders' bounded draws stay in bounds; the three genotype-backed sources are proved to satisfy the contract. The model is tied to the code by running both on the same scripted draws (all draws for small ranges) on every run.",
        note="Trusted: Lean kernel + {propext, Classical.choice, Quot.sound}; hand model validated only on the explored inputs; float weights modelled as exact rationals (dyadic denominators in the harness); round(log10(width)) passed in as a parameter; CPython's Mersenne Twister behind NativeRandomSource is sampled, not modelled.",
        design="5/C18",
    ),
}

CHECKS.update({
    "C12": dict(
        technique="Lean 4 proof (induction over evaluation histories) on a model of the trackers and search loops + differential correspondence (all histories over 3 values up to length 6)",
        text="Theorems (Props/C12.lean, 9) prove for ALL histories: the tracked best has the maximum aggregate at every prefix, the is_best flag holds iff first or strictly better than all earlier, the multi-objective list only holds individuals attaining the best aggregate, and every search returns the tracker's best; the full 'at least as good as every individual evaluated' statement is proved under the hypothesis that every evaluated individual reaches the tracker (C12_best_of_evaluated_partial) and refuted for GP steps that evaluate internally (C12_gp_step_evaluation_witness, open finding). Tied to the code by exhaustive small histories and real searches.",
        note="Trusted: Lean kernel + standard axioms; model validated on explored inputs only; fitness values are integers of an arbitrary linear order (NaN outside the model).",
        design="5/C12",
    ),
    "C13": dict(
        technique="Lean 4 proof (invariant `Honest` preserved by any sequence of sequential/parallel evaluate calls; parallel = sequential for every completion permutation) + differential correspondence incl. real ParallelEvaluator runs with a file-backed invocation log",
        text="Theorems (Props/C13.lean, 8): aggregates (maximise / minimise / signed sum / user aggregate); from any honest state, any sequence of evaluate calls of either evaluator over any batches (duplicates, already evaluated, empty) keeps fitness = ff(phenotype), counter = number of invocations, at most one evaluation per (individual, problem); the parallel evaluator equals the sequential one for EVERY completion order of the workers.",
        note="Partial by nature: OS scheduling and pickling inside pathos are abstracted to an arbitrary completion permutation (the harness feeds the observed order to the model). Trusted: Lean kernel + standard axioms; model validated on explored inputs only.",
        design="5/C13",
    ),
    "C14": dict(
        technique="Lean 4 proof about the abstract search loop (check; stop or evaluate k_i more) for all budgets / increments + differential correspondence with spy budgets (n <= 20 x sizes <= 6 x 4 algorithms exhaustively)",
        text="Theorems (Props/C14.lean, 12): the loop stops at the first check at which the budget is met and at no earlier one; with 1 <= k_i <= B it terminates with n <= total < n + B (B = 1 random search / 1+1, neighbourhood size for hill climbing, population size for GP); TargetFitness stops at the first check within tolerance; AnyOf stops at the earlier of its members. GP termination needs the Progress hypothesis (every generation evaluates at least one new individual); without it the loop provably never stops (C14_no_progress_never_stops, C14_gp_nonterminating_witness: open finding).",
        note="Partial: for probabilistic steps Progress holds only almost surely; TimeBudget excluded by the property. Trusted: Lean kernel + standard axioms; model validated on explored inputs only.",
        design="5/C14",
    ),
})

CHECKS.update({
    "C19": dict(
        technique="Lean 4 proof over exact rationals (normalisation, ratios, idempotence, rule-order independence; choosers reduced to the C18 weighted-choice theorem) + differential correspondence on generated weighted hierarchies and all draws of the choosers",
        text="Theorems (Props/C19.lean, 12): after extraction every rule's production weights lie in [0,1], sum to exactly 1 and keep the declared ratios (undeclared = 1); re-extraction is the identity for any number of repetitions and any rule order; the depth heuristic of ProgressivelyTerminalDecider is zero exactly in the characterised cases and neither it nor the stack chooser returns a zero-weight production while a positive one is available, for every sound random source.",
        note="Floats are MODELLED as exact rationals: dyadic weights are compared exactly, arbitrary floats within 2^-50; weights below choice_weighted's resolution (1e-5) are excluded by hypothesis. Distances / recursive sets are inputs taken from the implementation (C05). Trusted: Lean kernel + standard axioms.",
        design="5/C19",
    ),
    "C20": dict(
        technique="Lean 4 proof on a model of the recorder (ordered field dict, closure binding, adversarial-spill file model) for all objective counts / field configurations / histories / kill points + differential correspondence reading the real file through a second handle after every register (incl. SIGKILLed child processes)",
        text="Theorems (Props/C20.lean, 15): the header equals the configured columns; in every row the cell under Fitness k is component k of THAT individual and every extra field is its own callback on that individual's program (also for SimpleGP's wrappers); one row per registration (per strict improvement in only-best mode); after construction and after every register the buffer is empty and the disk is header + complete rows, so the disk content at any kill point between two registrations is a prefix of the full log made of complete rows only; a kill inside a registration leaves old rows plus a byte prefix of the new row.",
        note="CSV quoting is abstract in the model (the csv module's round-trip is re-checked on every real file); OS page cache / buffering is represented by the adversary only; Execution Time column canonicalised. Trusted: Lean kernel + standard axioms.",
        design="5/C20",
    ),
})

NOT_YET = {}


def main():
    props = [json.loads(l) for l in (VERIF / "properties.jsonl").read_text().splitlines() if l.strip()]
    checks = []
    not_applicable = []
    for p in props:
        pid = p["id"]
        if pid in CHECKS:
            c = CHECKS[pid]
            checks.append({
                "property_id": pid,
                "quick_cmd": f"{PY} harness/check.py {pid} --tier quick",
                "thorough_cmd": f"{PY} harness/check.py {pid} --tier thorough",
                "evidence_file": f"/verif/evidence/{pid}.json",
                "replay_cmd_template": f"{PY} harness/check.py {pid} --replay {{path}}",
                "engine": "lean4-model+correspondence",
                "level_claimed": {"category": "proof", "text": c["text"], "design_ref": f"DESIGN.md section {c['design']}"},
                "level_note": c["note"],
                "technique": c["technique"],
            })
        else:
            not_applicable.append({"property_id": pid, "reason": NOT_YET.get(pid, "not yet claimed: model, theorems and correspondence for this property are still being built (see DESIGN.md section 10 for the order of work); it is expressible in the technique and will move to checks")})
    m = {
        "version": 1,
        "setup_cmd": "cd lean && lake build",
        "hooks": {
            "guard": "ALCIDES_GENETICENGINE_VERIF",
            "enable": "no hooks are needed: the checks import /repo's working tree in-process (/venv/bin/python, sys.path[0]=/repo) and observe it through the public API, RandomSource subclasses and user callbacks",
            "baseline_off_cmd": "cd /repo && /venv/bin/python -m pytest -ra -q -p no:cacheprovider --timeout=900 --continue-on-collection-errors",
            "source_commits": [],
            "add_only": True,
        },
        "engines": [{
            "name": "lean4-model+correspondence",
            "path": "lean/ (model, theorems, driver) + harness/ (correspondence)",
            "serves_properties": sorted(CHECKS),
            "kind_free_text": "hand-written Lean 4 model with machine-checked theorems; tied to the code on every run by differential execution of model and implementation through a line protocol",
        }],
        "checks": checks,
        "not_applicable": not_applicable,
        "notes": "All checks: exit 0 held / exit 1 VIOLATION line / exit 2 infrastructure failure. Genuine defects found on the pinned tree and repaired by fix: commits are listed in known_findings.json (status fixed); open findings print KNOWN-FINDING lines.",
    }
    (VERIF / "MANIFEST.json").write_text(json.dumps(m, indent=1) + "\n")


if __name__ == "__main__":
    main()
