#!/usr/bin/env python3
"""Regenerates MANIFEST.json from the table below (kept as code so it stays consistent)."""
import json
from pathlib import Path

VERIF = Path(__file__).resolve().parent.parent

PY = "/venv/bin/python"

CHECKS = {
    "C18": dict(
        technique="Lean 4 proof over a model of RandomSource / genotype-backed sources / decider draws + differential correspondence (exhaustive small ranges)",
        text="Theorems (lean/GEVerif/Props/C18.lean) prove, for EVERY source satisfying the randint contract and every gene list / bound / weight vector, that choice returns a member, choice_weighted never returns a zero-weight option and selects option i for exactly its scaled weight's worth of draws, shuffle permutes, pop_random removes the returned element, and the deciders' bounded draws stay in bounds; the three genotype-backed sources are proved to satisfy the contract. The model is tied to the code by running both on the same scripted draws (all draws for small ranges) on every run.",
        note="Trusted: Lean kernel + {propext, Classical.choice, Quot.sound}; hand model validated only on the explored inputs; float weights modelled as exact rationals (dyadic denominators in the harness); round(log10(width)) passed in as a parameter; CPython's Mersenne Twister behind NativeRandomSource is sampled, not modelled.",
        design="5/C18",
    ),
}

CHECKS.update({
    "C12": dict(
        technique="Lean 4 proof (induction over evaluation histories) on a model of the trackers and search loops + differential correspondence (all histories over 3 values up to length 6)",
        text="Theorems (Props/C12.lean, 14) prove for ALL histories: the tracked best has the maximum aggregate at every prefix, the is_best flag holds iff first or strictly better than all earlier, the multi-objective list only holds individuals attaining the best aggregate, and every search returns the tracker's best -- also on a tracker that earlier searches or evaluations have already used (C12_search_returns_best_warm: best of everything the tracker has seen); the public ranking helper best_individual names the individual a tracker would hold after the same individuals (C12_helper_best_eq_tracker); the full 'at least as good as every individual evaluated' statement is proved under the hypothesis that every evaluated individual reaches the tracker (C12_best_of_evaluated_partial) and refuted for GP steps that evaluate internally (C12_gp_step_evaluation_witness, open finding). Tied to the code by exhaustive small histories and real searches.",
        note="Trusted: Lean kernel + standard axioms; model validated on explored inputs only; fitness values are integers of an arbitrary linear order (NaN outside the model).",
        design="5/C12",
    ),
    "C13": dict(
        technique="Lean 4 proof (invariant `Honest` preserved by any sequence of sequential/parallel evaluate calls; parallel = sequential for every completion permutation) + differential correspondence incl. real ParallelEvaluator runs with a file-backed invocation log",
        text="Theorems (Props/C13.lean, 8): aggregates (maximise / minimise / signed sum / user aggregate); from any honest state, any sequence of evaluate calls of either evaluator over any batches (duplicates, already evaluated, empty) keeps fitness = ff(phenotype), counter = number of invocations, at most one evaluation per (individual, problem); the parallel evaluator equals the sequential one for EVERY completion order of the workers.",
        note="Partial by nature: OS scheduling and pickling inside pathos are abstracted to an arbitrary completion permutation (the harness feeds the observed order to the model). Trusted: Lean kernel + standard axioms; model validated on explored inputs only.",
        design="5/C13",
    ),
    "C14": dict(
        technique="Lean 4 proof about the abstract search loop (check; stop or evaluate k_i more) for all budgets / increments + differential correspondence with spy budgets (n <= 20 x sizes <= 6 x 4 algorithms exhaustively)",
        text="Theorems (Props/C14.lean, 12): the loop stops at the first check at which the budget is met and at no earlier one; with 1 <= k_i <= B it terminates with n <= total < n + B (B = 1 random search / 1+1, neighbourhood size for hill climbing, population size for GP); TargetFitness stops at the first check within tolerance; AnyOf stops at the earlier of its members. GP termination needs the Progress hypothesis (every generation evaluates at least one new individual); without it the loop provably never stops (C14_no_progress_never_stops, C14_gp_nonterminating_witness: open finding).",
        note="Partial: for probabilistic steps Progress holds only almost surely; TimeBudget excluded by the property. Trusted: Lean kernel + standard axioms; model validated on explored inputs only.",
        design="5/C14",
    ),
})

CHECKS.update({
    "C19": dict(
        technique="Lean 4 proof over exact rationals (normalisation, ratios, idempotence, rule-order independence; choosers reduced to the C18 weighted-choice theorem) + differential correspondence on generated weighted hierarchies and all draws of the choosers",
        text="Theorems (Props/C19.lean, 12): after extraction every rule's production weights lie in [0,1], sum to exactly 1 and keep the declared ratios (undeclared = 1); re-extraction is the identity for any number of repetitions and any rule order; the depth heuristic of ProgressivelyTerminalDecider is zero exactly in the characterised cases and neither it nor the stack chooser returns a zero-weight production while a positive one is available, for every sound random source.",
        note="Floats are MODELLED as exact rationals: dyadic weights are compared exactly, arbitrary floats within 2^-50; weights below choice_weighted's resolution (1e-5) are excluded by hypothesis. Distances / recursive sets are inputs taken from the implementation (C05). Trusted: Lean kernel + standard axioms.",
        design="5/C19",
    ),
    "C20": dict(
        technique="Lean 4 proof on a model of the recorder (ordered field dict, closure binding, adversarial-spill file model) for all objective counts / field configurations / histories / kill points + differential correspondence reading the real file through a second handle after every register (incl. SIGKILLed child processes)",
        text="Theorems (Props/C20.lean, 15): the header equals the configured columns; in every row the cell under Fitness k is component k of THAT individual and every extra field is its own callback on that individual's program (also for SimpleGP's wrappers); one row per registration (per strict improvement in only-best mode); after construction and after every register the buffer is empty and the disk is header + complete rows, so the disk content at any kill point between two registrations is a prefix of the full log made of complete rows only; a kill inside a registration leaves old rows plus a byte prefix of the new row.",
        note="CSV quoting is abstract in the model (the csv module's round-trip is re-checked on every real file); OS page cache / buffering is represented by the adversary only; Execution Time column canonicalised. Trusted: Lean kernel + standard axioms.",
        design="5/C20",
    ),
})

CHECKS.update({
    "C01": dict(
        technique="Lean 4 proof by mutual induction on fuel over a model of create_node and the deciders (all five decider kinds, all sources), corollaries for GE/SGE/dSGE mapping, tree mutation/crossover and arbitrary operation sequences + differential correspondence (model reproduces the implementation's programs draw by draw)",
        text="Theorems (Props/C01.lean, 13): every value createNode returns is well-typed for its type (refinements included) for every decider, context, sibling values, random source and genotype, under the decidable grammar well-formedness grammarWF; mapGE/mapSGE/mapDSGE, treeMutate/treeCrossover children and every program ever in the pool of an arbitrary operation sequence are well-typed; a foreign / partially built value is never well-typed. Tied to the code by level-A agreement of model and implementation on scripted draws for all four tree deciders and the GE/SGE/dSGE mappings, and by the Lean well-typedness predicate evaluated on every implementation output incl. the stack representation.",
        note="The stack machine (create_tree_using_stacks) is NOT modelled: its outputs are checked by the Lean predicate only (structure; its refined fields are C02's open finding). grammarWF excludes grammars with an abstract class lacking productions (two open findings). Floats are not modelled. Trusted: Lean kernel + standard axioms; model validated on explored inputs only.",
        design="5/C01",
    ),
    "C02": dict(
        technique="Lean 4 proof that every refinement's generated value satisfies its documented predicate and its own validate (per refinement, incl. dependent ones resolved against the actual siblings), lifted to whole programs through the well-typedness theorem + exhaustive correspondence over parameter boxes and ALL draws",
        text="Theorems (Props/C02.lean, 15): createNode on Annotated[T, mh] returns a value satisfying mh against the actual sibling values, at every position; every refined field of every well-typed program satisfies its refinement against its earlier siblings; list elements and union members inherit it; validate accepts everything generate produces (IntervalRange as repaired); witnesses show where validate and the documented predicate differ; the string refinement's own operators (StringSizeBetween.mutate / crossover, modelled over an arbitrary source) keep a string inside its bounds and alphabet for all bounds, strings and draws (C02_string_mutate_sat, C02_string_crossover_sat); WeightedStringHandler.generate yields one letter per row and never a letter of probability 0 at a usable row (C02_weighted_string_sat). Exhaustive boxes: IntRange, IntList, VarRange, ListSizeBetween, StringSizeBetween, IntervalRange x all draws.",
        note="Float refinements checked on the Python side only; WeightedStringHandler modelled with rational weights (rows as numerators over a common denominator); Dependent.validate is NotImplemented in the library (harness evaluates dependents itself); the stack representation violates refinements (open finding). Trusted: Lean kernel + standard axioms.",
        design="5/C02",
    ),
    "C03": dict(
        technique="Lean 4 proof by mutual induction on fuel: budget invariant ctx.depth + dist(ty) <= max_depth implies ctx.depth + depth(v) <= max_depth for grow/full/PI-grow/dSGE; closure under mutation/crossover sequences; candidate lists never empty on a fixpoint table + differential correspondence for every limit from min-1 to min+4",
        text="Theorems (Props/C03.lean, 27): depth-limited creation, GE/SGE/dSGE mapping and every program reachable by any sequence of mutations and crossovers stays within the limit (under the decidable distConsistent, implied by the analysis being a fixpoint: C03_fixpoint_hypotheses + C05); limits below the grammar minimum are rejected before any draw; under the invariant the deciders' candidate lists are never empty (no AssertionError midway) for grammars without SynthesisException-raising dependent refinements; C03_retry_witness exhibits the remaining failure (open finding).",
        note="Termination for sufficient fuel is not proved (partial: 'completes' is established by the correspondence runs, which demand success at every feasible limit). max_depth < 1000000 required (a class with only an unproductive list field). Trusted: Lean kernel + standard axioms.",
        design="5/C03",
    ),
    "C05": dict(
        technique="Lean 4 proof about the model of register_type / preprocess: the loop always converges to a solution of the minimum-depth equations, the solution is unique, bounded below and attained by derivations; recursion = cycle in the production graph + differential correspondence on generated hierarchies and the shipped geml grammars, with the fixpoint predicate evaluated on the implementation's own table",
        text="Theorems (Props/C05.lean, 25): productions of an abstract class are exactly its registered direct subclasses; the distance iteration converges within #symbols rounds to a fixpoint (no fuel hypothesis); every finite reported distance is attained by a derivable program; no program without empty lists is shallower (exactness, both depth modes); fixpoint uniqueness, hence independence of the symbol set's iteration order; recursive symbols = symbols on a cycle; reachable classes = Reach* from the start. C05_dist_sound_witness shows exactness fails with possibly-empty lists (open finding).",
        note="Closure of the key set under successors is a decidable hypothesis evaluated per grammar. 'usable grammar generates the same programs' is checked by correspondence only. typing introspection trusted. Trusted: Lean kernel + standard axioms.",
        design="5/C05",
    ),
    "C06": dict(
        technique="Lean 4 proof of locus-preservation / single-gene locality for the GE, stack, SGE and dSGE genotype operators for all lengths and cut points; tree crossover: partial theorem + machine-checked counterexample + differential correspondence",
        text="Theorems (Props/C06.lean, 11): one-point crossover children have every gene from a parent at the same locus for EVERY cut point (also beyond the end, as the stack representation cuts); point mutation changes at most one gene and preserves shape; per-key versions for SGE / dSGE. Tree crossover as the code is: children are recombinations only when a donor is found (C06_tree_crossover_partial); C06_tree_crossover_witness proves the general statement false for the pinned code (open finding, reconfirmed on the implementation every run).",
        note="Trusted: Lean kernel + standard axioms; model validated on explored inputs only.",
        design="5/C06",
    ),
    "C07": dict(
        technique="Lean 4 proof: the genotype-backed source never changes the genotype; dSGE extension is prefix-monotone and re-mapping the extended genotype is a fixed point that reads nothing from the shared stream (two-run simulation lifted through create_node) + differential correspondence with a counting wrapper around the shared source",
        text="Theorems (Props/C07.lean, 7): GE/SGE mapping is a function of (grammar, decider, genotype); along any mapping the gene source stays the same genotype; dynamic SGE only extends gene lists (prefix order) and mapping the extended genotype again, with ANY shared stream, returns the same program, leaves the genotype unchanged and does not advance the shared stream (also when the first mapping failed).",
        note="The stack machine is not modelled (purity checked on the implementation only). Trusted: Lean kernel + standard axioms.",
        design="5/C07",
    ),
    "C11": dict(
        technique="Lean 4 proof that the recursive labelling fold equals an independent flat-traversal specification on every node (incl. inside lists and tuples), and that memoised relabelling over correctly cached subtrees stays correct + differential correspondence on every node of created and varied programs",
        text="Theorems (Props/C11.lean, 22): node count, distance to the deepest terminal, weighted size and per-type occurrence counts computed by relabel equal the flat specification for every sub-value of every well-typed program of every analysed grammar; dtt vs depth inequalities; memoisation: with correct caches the memoised algorithm returns the specification and keeps all caches correct through any sequence of constructor applications (mutation / crossover), and a stale cache provably yields a wrong label (witness).",
        note="Tree-depth mode only (expansion-depthing adjustments not modelled). Trusted: Lean kernel + standard axioms.",
        design="5/C11",
    ),
})

CHECKS.update({
    "C09": dict(
        technique="Lean 4 proof on a heap model of the gene containers (Model/Heap.lean: gene-list objects and genotype dictionaries; GE / stack / SGE / dynamic-SGE create, mutate, crossover and the dynamic-SGE mapping written as the allocations, copies and in-place writes the code performs): for every operation sequence no sharing ever arises, every genotype object not handed to the dynamic-SGE mapping reads the same afterwards, a mapped one is only extended -- tied to the code by comparing the model's object graph with the real one (id() of every gene list, every genotype ever made) after EVERY operation of long histories; plus the frame property of label memoisation over cached trees; plus deep before/after snapshots of every live individual around every operator, step and GP generation on the implementation",
        text="Theorems (Props/C09.lean, 15): on the heap model, for ALL operation sequences over all genotype objects ever made: C09_heap_no_sharing_ever (no gene-list object belongs to two genotypes or two keys), C09_heap_inputs_unchanged (same keys, same genes after any sequence, unless the genotype itself is handed to the dynamic-SGE mapping), C09_heap_mapping_only_extends (then every gene list is a prefix of what it becomes), C09_heap_operators_only_allocate, C09_heap_flat_mutate_refines / _crossover_refines, C09_heap_struct_mutate_refines / _crossover_refines, C09_heap_dsge_map_refines (every object-level operator computes the genes of its value-level counterpart in Model/Linear.lean -- one gene of one list replaced, per-key choice between the parents with [] for a missing key, appended genes and new keys at the end -- and leaves every other genotype object as it was); relabelling a fully labelled (parental) subtree returns it unchanged, cache for cache, and never changes structure; dynamic SGE mapping only appends genes; GE/SGE mapping leaves the genotype as it was. Level A: the object graph after every operation of create / mutate / crossover / map histories on all four linear representations must be the model's. The rest of the property (tree-node sharing, cached phenotype / fitness, step combinators, arbitrarily long generation sequences) is decided on the implementation: structure, every node's metadata and synthesis context, the id()-sharing graph, genes and caches of every live individual are snapshotted before and re-validated after every call and after whole GP runs.",
        note="PARTIAL: the heap model covers the gene containers of the four genotype-based representations; tree nodes, Individual caches and populations are not in it (there the functional Lean models have immutable values, and non-modification is decided by snapshots on the implementation). A rewrite that shares gene lists where nothing writes in place (GE / stack / SGE) differs from the model without a failing input: reported with no-failing-input-found. Trusted: Lean kernel + standard axioms; harness snapshot code; the decisions (indices, values, masks, appended genes) are read off the real run.",
        design="5/C09",
    ),
    "C10": dict(
        technique="Lean 4 proof on a model with the grammar as explicit mutable state (the retry loop of create_node, aliased vs copied list) for all failure patterns, deciders and histories + before/after snapshots of every grammar observable around every API call incl. failing and backtracking ones, and level-A comparison of the grammar after the history with the model's analysis",
        text="Theorems (Props/C10.lean, 6): the repaired retry loop leaves the grammar unchanged for every pattern of failing productions and every decider, over any history of operations; hence an expansion's outcome does not depend on earlier operations; the pinned (aliasing) loop returns the same production but provably removes it from the grammar, making a previously creatable program uncreatable (machine-checked witness).",
        note="In the synthesis model the grammar is an immutable argument (no function returns a grammar); only the aliasing hazard is modelled with state. Class-level __gengy__ dicts are rewritten by extract_grammar (extraction, not synthesis: C19). Trusted: Lean kernel + standard axioms.",
        design="5/C10",
    ),
})

CHECKS.update({
    "C08": dict(
        technique="Lean 4 proof that every iteration over a symbol set in the repaired code goes through a canonical sort whose result is invariant under permutations of the set (SGE genotype creation, stack symbol choice), and that the grammar analysis is the unique fixpoint whatever the visiting order + in-process permutation of set iteration orders and fresh interpreters with different PYTHONHASHSEED / allocation padding / import order",
        text="Theorems (Props/C08.lean, 17): sorted(set, key) is a sorted permutation and is the same list for every enumeration of the set (injective keys), hence repaired SGE genotype creation and the stack machine's symbol choice do not depend on set order; machine-checked witnesses that the pinned versions did (unsorted iteration; symbols that print alike under a stable sort, C08_stack_twins_witness) and the repaired tie-break by first mention (C08_stack_pick_ties_broken); the distance analysis equals any solution of its equations (order of the Python loop irrelevant, from C05); a model run is a function of configuration and stream. Implementation side: every algorithm x representation battery must give the same sequence of evaluated programs, best program and fitness in this process (twice), under permuted set orders, and in fresh interpreters with different hash seeds, padding and import orders.",
        note="PARTIAL by nature: CPython's address-dependent hashing and hidden interpreter state cannot be exhibited by a model; they are over-approximated by explicit permutations and sampled by fresh interpreters. Distinct symbols are ordered by (str(), rank of first mention in a deterministic walk); the ranks are assumed pairwise distinct. Trusted: Lean kernel + standard axioms.",
        design="5/C08",
    ),
})

CHECKS.update({
    "C15": dict(
        technique="Lean 4 proof by induction on the Step tree (all built-in steps and combinators, list / Population / one-shot iterator inputs, every sound random source) and on compute_ranges for every weight vector + exhaustive weight grids and generated step trees against the implementation",
        text="Theorems (Props/C15.lean, 14): compute_ranges returns slices that are ordered, within the target and sum to exactly the target for EVERY weight vector with positive total (ZeroDivisionError exactly when all weights are zero); every well-formed step tree asked for k individuals from an iterable of at least k yields exactly k, for lists and one-shot iterators; initialisers (standard, full, grow, PI-grow, inject + backup, half-and-half) yield exactly k and injected programs come first; every generation of a GP run of any length has the configured size; machine-checked witnesses of the three pinned defects.",
        note="The representation is a stub in the model (draws inside a real mutate / crossover / create are not modelled); float weights other than ints / dyadics are not compared (the float expression is exact when 2*w*n < 2^53); adaptive.py / parameterless.py not modelled. Trusted: Lean kernel + standard axioms.",
        design="5/C15",
    ),
    "C16": dict(
        technique="Lean 4 proof that ElitismStep returns the first k of a stable descending sort (top-k, no excluded individual strictly better) and that a ParallelStep with an elitism slot never loses the best, over runs of any length + exhaustive small populations with ties and real GP runs",
        text="Theorems (Props/C16.lean, 7): elitism output = take k (stable sort by maximising aggregate), length min(k, n), every excluded individual is no better than every included one, ties keep input order, minimisation handled through the aggregate; with at least one elite slot each generation is no worse than the previous one, for any run length, source and script.",
        note="Monotonicity is proved for a top-level ParallelStep with an ElitismStep sub-step (elitism nested deeper inside a SequenceStep is covered by the correspondence runs only). Trusted: Lean kernel + standard axioms.",
        design="5/C16",
    ),
    "C17": dict(
        technique="Lean 4 proof of tournament and lexicase soundness for every population, tournament size (also beyond the population), replacement mode, target size and sound random source + exhaustive enumeration of ALL draw scripts for small populations",
        text="Theorems (Props/C17.lean, 11): every tournament winner is a member of the population, among its drawn participants and no participant is strictly fitter; lexicase winners are members of the remaining candidates, never more copies than the population holds, survive the lexicase filter for the freshly shuffled case order and are best (or within the epsilon band) on the first case among the candidates still available; totality; machine-checked witness of the pinned lexicase defect.",
        note="Tournament's candidate pool collapses to the previous tournament's participants (recorded as an observation, consistent with the statement). NaN fitness not modelled. Trusted: Lean kernel + standard axioms.",
        design="5/C17",
    ),
})

CHECKS.update({
    "C04": dict(
        technique="Lean 4 proof: soundness of grow / full / PI-grow creation w.r.t. the bounded language, correctness (sound, complete, fuel-adequate) of a Lean enumerator of that language, and completeness of grow creation for programs without empty lists (script construction by induction) + exhaustive comparison of the implementation's reachable SET (DFS over every outcome of every randint) with the enumerator",
        text="Theorems (Props/C04.lean, 25): every program any depth-limited decider returns is well-typed and within the limit, i.e. in the bounded language; the enumerator is sound for every fuel, monotone in fuel, complete and its concrete fuel provably adequate (v in boundedLanguage g d iff well-typed, depth <= d, metadata erased); for every valid program without an empty list there EXISTS a script of draws making grow creation return it (C04_grow_complete_partial, C04_grow_exact_partial); with possibly-empty lists completeness provably fails (C04_grow_complete_witness: open finding shared with C05); FullDecider prefers strictly fitting recursive productions. Implementation side: for the explored family the set reachable by grow equals the language, PI-grow and full stay inside it, full = all branches at the frontier.",
        note="Finite-choice grammars only; plain str fields excluded from exactness (wt accepts any string, creation yields ''); 'full = all branches at the limit' is decided by the set comparison, not by a theorem; tree-depth mode (e = 0) for completeness. Trusted: Lean kernel + standard axioms.",
        design="5/C04",
    ),
})

NOT_YET = {
}


def main():
    props = [json.loads(l) for l in (VERIF / "properties.jsonl").read_text().splitlines() if l.strip()]
    checks = []
    not_applicable = []
    for p in props:
        pid = p["id"]
        if pid in CHECKS:
            c = CHECKS[pid]
            checks.append({
                "property_id": pid,
                "quick_cmd": f"{PY} harness/check.py {pid} --tier quick",
                "thorough_cmd": f"{PY} harness/check.py {pid} --tier thorough",
                "evidence_file": f"/verif/evidence/{pid}.json",
                "replay_cmd_template": f"{PY} harness/check.py {pid} --replay {{path}}",
                "engine": "lean4-model+correspondence",
                "level_claimed": {"category": "proof", "text": c["text"], "design_ref": f"DESIGN.md section {c['design']}"},
                "level_note": c["note"],
                "technique": c["technique"],
            })
        else:
            not_applicable.append({"property_id": pid, "reason": NOT_YET.get(pid, "not yet claimed: model, theorems and correspondence for this property are still being built (see DESIGN.md section 10 for the order of work); it is expressible in the technique and will move to checks")})
    m = {
        "version": 1,
        "setup_cmd": "cd lean && lake build",
        "hooks": {
            "guard": "ALCIDES_GENETICENGINE_VERIF",
            "enable": "no hooks are needed: the checks import /repo's working tree in-process (/venv/bin/python, sys.path[0]=/repo) and observe it through the public API, RandomSource subclasses and user callbacks",
            "baseline_off_cmd": "cd /repo && /venv/bin/python -m pytest -ra -q -p no:cacheprovider --timeout=900 --continue-on-collection-errors",
            "source_commits": [],
            "add_only": True,
        },
        "engines": [{
            "name": "lean4-model+correspondence",
            "path": "lean/ (model, theorems, driver) + harness/ (correspondence)",
            "serves_properties": sorted(CHECKS),
            "kind_free_text": "hand-written Lean 4 model with machine-checked theorems; tied to the code on every run by differential execution of model and implementation through a line protocol",
        }],
        "checks": checks,
        "not_applicable": not_applicable,
        "notes": "All checks: exit 0 held / exit 1 VIOLATION line / exit 2 infrastructure failure. Genuine defects found on the pinned tree and repaired by fix: commits are listed in known_findings.json (status fixed); open findings print KNOWN-FINDING lines.",
    }
    (VERIF / "MANIFEST.json").write_text(json.dumps(m, indent=1) + "\n")


if __name__ == "__main__":
    main()
