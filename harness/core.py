"""Shared machinery of the GeneticEngine verification checks.

Flow of one check (``check.py Cxx --tier quick|thorough``):

 1. build the Lean project (lib + native driver) -- incremental, under a file lock;
 2. audit: ``#print axioms`` for every property theorem of Cxx, forbidden-token grep;
 3. correspondence: the property module drives the REAL library (imported from /repo's
    working tree) and queues protocol lines; the lines are piped through the Lean driver,
    which runs the MODEL on the same inputs (level A: outputs must agree) and evaluates the
    Lean-side property predicate on the implementation's outputs (level B);
 4. verdict (DESIGN.md 2.4), known findings, evidence file.

Exit codes: 0 held, 1 violation (a ``VIOLATION property=.. replay=..`` line was printed),
2 infrastructure failure (never a verdict).
"""
from __future__ import annotations

import fcntl
import hashlib
import json
import os
import random
import re
import subprocess
import sys
import time
import traceback
from collections import Counter
from dataclasses import dataclass, field
from pathlib import Path
from typing import Any, Callable, Iterable

VERIF = Path(__file__).resolve().parent.parent
LEAN = VERIF / "lean"
DRIVER = LEAN / ".lake" / "build" / "bin" / "driver"
EVIDENCE = Path(os.environ.get("VERIF_EVIDENCE_DIR", VERIF / "evidence"))
REPLAYS = Path(os.environ.get("VERIF_REPLAYS_DIR", VERIF / "replays"))
CORPUS = VERIF / "corpus"
FINDINGS = VERIF / "known_findings.json"
REPO = Path(os.environ.get("VERIF_REPO", "/repo"))

ALLOWED_AXIOMS = {"propext", "Classical.choice", "Quot.sound"}
FORBIDDEN = re.compile(r"\bsorry\b|\badmit\b|^\s*axiom\s|native_decide|bv_decide|implemented_by|\bunsafe\s|maxHeartbeats\s+0")

TRUSTED_BASE = [
    "Lean 4.33 kernel; axioms limited to propext, Classical.choice, Quot.sound (checked by #print axioms on every property theorem each run)",
    "hand-written Lean model (lean/GEVerif/Model) tied to /repo by this run's differential correspondence check only on the inputs listed under coverage",
    "harness: generators, ScriptedSource, canonicaliser, s-expression protocol and the Lean driver's parser",
    "CPython semantics assumed by the modelling conventions of DESIGN.md section 3 (unbounded ints, list aliasing, stable sort, one-shot iterators)",
]


class InfraError(Exception):
    """Harness / toolchain failure: exit 2, never a verdict."""


# ----------------------------------------------------------------------------------------
# s-expressions (Python side)
# ----------------------------------------------------------------------------------------

def sx(x: Any) -> str:
    """Serialise nested lists / ints / bools / atoms into the wire format (iteratively: a change to the
    library may produce programs nested far deeper than the interpreter's recursion limit)."""
    out: list[str] = []
    stack: list[Any] = [x]
    CLOSE = object()
    SPACE = object()
    while stack:
        y = stack.pop()
        if y is CLOSE:
            out.append(")")
        elif y is SPACE:
            out.append(" ")
        elif isinstance(y, bool):
            out.append("true" if y else "false")
        elif isinstance(y, int):
            out.append(str(y))
        elif isinstance(y, str):
            assert y and not any(c in y for c in " ()\t\n"), f"bad atom {y!r}"
            out.append(y)
        elif y is None:
            out.append("none")
        elif isinstance(y, (list, tuple)):
            out.append("(")
            stack.append(CLOSE)
            for i in range(len(y) - 1, -1, -1):
                stack.append(y[i])
                if i > 0:
                    stack.append(SPACE)
        else:
            raise TypeError(f"cannot serialise {type(y)}")
    return "".join(out)


def parse_sx(s: str) -> Any:
    toks = s.replace("(", " ( ").replace(")", " ) ").split()
    stack: list[list] = [[]]
    for t in toks:
        if t == "(":
            stack.append([])
        elif t == ")":
            top = stack.pop()
            stack[-1].append(top)
        else:
            stack[-1].append(t)
    assert len(stack) == 1
    return stack[0][0] if len(stack[0]) == 1 else stack[0]


# ----------------------------------------------------------------------------------------
# build + audit
# ----------------------------------------------------------------------------------------

def _run(cmd: list[str], cwd: Path, timeout: int = 1800) -> subprocess.CompletedProcess:
    env = dict(os.environ)
    return subprocess.run(cmd, cwd=cwd, capture_output=True, text=True, timeout=timeout, env=env)


def build_lean(prop: str) -> float:
    """`lake build` of this property's theorem module (with everything it imports) and of the
    native driver. Serialised by a lock. (`setup_cmd` builds the whole library.)"""
    t0 = time.time()
    LEAN.joinpath(".lake").mkdir(exist_ok=True)
    with open(LEAN / ".lake" / "verif.lock", "w") as lock:
        fcntl.flock(lock, fcntl.LOCK_EX)
        r = _run(["lake", "build", f"GEVerif.Props.{prop}", "driver"], LEAN)
        if r.returncode != 0 or not DRIVER.exists():
            raise InfraError("lake build failed:\n" + (r.stdout + r.stderr)[-4000:])
    return time.time() - t0


def strip_comments(src: str) -> str:
    src = re.sub(r"/-.*?-/", "", src, flags=re.S)
    src = re.sub(r"--.*", "", src)
    return src


def import_closure(roots: list[Path]) -> list[Path]:
    """The project files a property's theorems and driver handlers depend on (transitively)."""
    seen: dict[Path, None] = {}
    todo = [r for r in roots if r.exists()]
    while todo:
        f = todo.pop()
        if f in seen:
            continue
        seen[f] = None
        for m in re.findall(r"^import\s+(GEVerif[\w.]*)", f.read_text(), flags=re.M):
            q = LEAN / (m.replace(".", "/") + ".lean")
            if q.exists():
                todo.append(q)
    return list(seen)


def leanchecker(prop: str) -> tuple[bool, str]:
    """thorough tier: the toolchain's independent re-checker replays the compiled property module
    (and everything it imports) through the kernel"""
    r = _run(["lake", "env", "leanchecker", f"GEVerif.Props.{prop}"], LEAN, timeout=1800)
    return r.returncode == 0, (r.stdout + r.stderr)[-800:]


def audit(prop: str) -> dict:
    """#print axioms for every `theorem Cxx_*` in Props/Cxx.lean; forbidden-token grep."""
    pfile = LEAN / "GEVerif" / "Props" / f"{prop}.lean"
    if not pfile.exists():
        raise InfraError(f"no property file {pfile}")
    text = pfile.read_text()
    names = re.findall(r"^theorem\s+(" + prop + r"_\w+)", text, flags=re.M)
    if not names:
        raise InfraError(f"no property theorems in {pfile}")
    adir = LEAN / ".lake" / "audit"
    adir.mkdir(parents=True, exist_ok=True)
    afile = adir / f"Audit_{prop}.lean"
    afile.write_text(
        f"import GEVerif.Props.{prop}\n" + "".join(f"#print axioms GEVerif.{prop}.{n}\n" for n in names)
    )
    r = _run(["lake", "env", "lean", str(afile)], LEAN, timeout=900)
    out = r.stdout + r.stderr
    if r.returncode != 0:
        raise InfraError("audit failed:\n" + out[-3000:])
    ok, bad = [], []
    flat = re.sub(r"\s+", " ", out)
    for n in names:
        m = re.search(r"'GEVerif\." + prop + r"\." + re.escape(n) + r"' (does not depend on any axioms|depends on axioms: \[([^\]]*)\])", flat)
        if not m:
            bad.append((n, "no #print axioms output"))
            continue
        axs = set(a.strip() for a in (m.group(2) or "").split(",") if a.strip())
        if axs <= ALLOWED_AXIOMS:
            ok.append((n, sorted(axs)))
        else:
            bad.append((n, sorted(axs - ALLOWED_AXIOMS)))
    hits = []
    for f in import_closure([pfile, LEAN / "GEVerif" / "Drive" / f"{prop}.lean"]):
        for i, line in enumerate(strip_comments(f.read_text()).splitlines(), 1):
            if FORBIDDEN.search(line):
                hits.append(f"{f.relative_to(LEAN)}:{i}: {line.strip()}")
    return {"theorems": names, "ok": ok, "bad": bad, "forbidden_hits": hits}


# ----------------------------------------------------------------------------------------
# the Lean driver
# ----------------------------------------------------------------------------------------

def run_driver(lines: list[str], timeout: int = 3600, mem_gb: int | None = None) -> list[str]:
    if not lines:
        return []

    def limits():
        import resource
        resource.setrlimit(resource.RLIMIT_AS, (mem_gb << 30, mem_gb << 30))
    try:
        p = subprocess.run([str(DRIVER)], input="\n".join(lines) + "\n", capture_output=True, text=True, timeout=timeout,
                           preexec_fn=limits if mem_gb is not None else None)
    except subprocess.TimeoutExpired:
        raise InfraError(f"driver timed out after {timeout}s")
    if p.returncode != 0:
        raise InfraError(f"driver crashed rc={p.returncode}: {p.stderr[-2000:]}")
    out = p.stdout.splitlines()
    if len(out) != len(lines):
        raise InfraError(f"driver returned {len(out)} lines for {len(lines)} inputs")
    return out


# ----------------------------------------------------------------------------------------
# random sources for the implementation side
# ----------------------------------------------------------------------------------------

def _import_repo():
    if str(REPO) not in sys.path:
        sys.path.insert(0, str(REPO))


_import_repo()
from geneticengine.random.sources import RandomSource  # noqa: E402


class ScriptedSource(RandomSource):
    """randint(lo, hi) = lo + d mod (hi-lo+1) for the next script element d (0 when exhausted).
    Exactly the Lean model's `scriptedRandint`."""

    def __init__(self, draws: Iterable[int]):
        self.draws = list(draws)
        self.pos = 0
        self.log: list[tuple[int, int, int]] = []

    def _next(self) -> int:
        d = self.draws[self.pos] if self.pos < len(self.draws) else 0
        self.pos += 1
        return d

    def randint(self, min: int, max: int) -> int:  # noqa: A002
        if max < min:
            raise ValueError(f"empty range for randint({min}, {max})")
        d = self._next()
        v = min + d % (max - min + 1)
        self.log.append((min, max, v))
        return v

    def random_float(self, min: float, max: float) -> float:  # noqa: A002
        d = self._next()
        return min + ((d % 1000) + 1) / 1001.0 * (max - min)

    def normalvariate(self, mean: float, sigma: float) -> float:
        d = self._next()
        return mean + sigma * ((d % 2001) - 1000) / 250.0

    @property
    def exhausted(self) -> bool:
        return self.pos > len(self.draws)


class NeedMore(Exception):
    def __init__(self, lo, hi):
        self.lo, self.hi = lo, hi


class ExhaustiveSource(RandomSource):
    """Script-prefix source for exhaustive DFS over all randint outcomes: raises NeedMore(lo,hi)
    when the prefix runs out."""

    def __init__(self, prefix: list[int]):
        self.prefix = list(prefix)
        self.pos = 0

    def randint(self, min, max):  # noqa: A002
        if max < min:
            raise ValueError("empty range")
        if self.pos >= len(self.prefix):
            raise NeedMore(min, max)
        v = min + self.prefix[self.pos]
        self.pos += 1
        return v

    def random_float(self, min, max):  # noqa: A002
        return float(min)


def enumerate_scripts(fn: Callable[[RandomSource], Any], limit: int = 200000, lift: bool = False):
    """Run fn under every possible sequence of randint outcomes (DFS). Yields (script, result).

    The enumeration is driven by the ranges the IMPLEMENTATION asks for.  With `lift`, every yielded
    draw d is replaced by d + m*width (width = the implementation's range at that draw, m a small
    deterministic multiplier): the same outcome for a source that reduces modulo that width, but a
    different one for a model whose range at that point is not the implementation's -- so the
    comparison also covers the ranges, not only the outcomes."""
    stack: list[tuple[list[int], list[int]]] = [([], [])]
    n = 0
    while stack:
        prefix, widths = stack.pop()
        try:
            res = fn(ExhaustiveSource(prefix))
        except NeedMore as nm:
            width = nm.hi - nm.lo + 1
            for d in reversed(range(width)):
                stack.append((prefix + [d], widths + [width]))
            continue
        n += 1
        if n > limit:
            raise InfraError("enumerate_scripts limit exceeded")
        if lift:
            yield [d + w * ((3 * i + n + d) % 4) for i, (d, w) in enumerate(zip(prefix, widths))], res
        else:
            yield prefix, res


# ----------------------------------------------------------------------------------------
# the per-run harness object
# ----------------------------------------------------------------------------------------

@dataclass
class Failure:
    site: str
    kind: str
    desc: str
    replay: Any


@dataclass
class Differ:
    site: str
    line: str
    impl: str
    model: str


class Harness:
    def __init__(self, prop: str, tier: str, seed: int):
        self.prop, self.tier, self.seed = prop, tier, seed
        self.rng = random.Random(f"{prop}:{seed}")
        self.thorough = tier == "thorough"
        self._queue: list[tuple[str, str, str, Any, Any]] = []  # (mode, site, line, expect, meta)
        self.failures: list[Failure] = []
        self.differs: list[Differ] = []
        self.evaluations = 0
        self.nontrivial: set[str] = set()
        self.hist: Counter = Counter()
        self.samples: list[Any] = []
        self.exhaustive = False
        self.notes: list[str] = []
        self.level_a = 0
        self.level_b = 0

    # -- scaling helper
    def n(self, quick: int, thorough: int) -> int:
        return thorough if self.thorough else quick

    # -- bookkeeping
    def count(self, key: str, k: int = 1):
        self.hist[key] += k

    def sample(self, s: Any, cap: int = 6):
        if len(self.samples) < cap:
            self.samples.append(s)

    def seen(self, canonical: str, nontrivial: bool = True):
        """Register one evaluated case; distinct non-trivial ones are counted by hash."""
        self.evaluations += 1
        if nontrivial:
            self.nontrivial.add(hashlib.sha1(canonical.encode()).hexdigest()[:16])

    # -- level A: model must reproduce the implementation's observable
    def agree(self, site: str, op: list, impl_result: Any, nontrivial: bool = True, replay: Any = None):
        line = sx([self.prop] + op)
        exp = sx(impl_result) if not isinstance(impl_result, str) or " " not in impl_result else impl_result
        self._queue.append(("A", site, line, exp, replay))
        self.seen(line, nontrivial)
        self.sample({"level": "A", "line": line, "impl": exp})

    # -- level B: Lean-side predicate on the implementation's output must be `true`
    def holds(self, site: str, kind: str, op: list, desc: str, replay: Any = None, nontrivial: bool = True):
        line = sx([self.prop] + op)
        self._queue.append(("B", site, line, kind, (desc, replay)))
        self.seen(line, nontrivial)
        self.sample({"level": "B", "line": line})

    # -- direct failure found by a Python-side oracle on implementation behaviour
    def fail(self, site: str, kind: str, desc: str, replay: Any = None):
        self.failures.append(Failure(site, kind, desc, replay))

    def flush(self):
        if not self._queue:
            return
        q, self._queue = self._queue, []
        outs = run_driver([e[2] for e in q])
        for (mode, site, line, exp, meta), out in zip(q, outs):
            if out == "bad-op":
                raise InfraError(f"driver rejected line: {line}")
            if mode == "A":
                self.level_a += 1
                if out != exp:
                    self.differs.append(Differ(site, line, exp, out))
            else:
                self.level_b += 1
                if out != "true":
                    desc, replay = meta
                    self.failures.append(Failure(site, exp, f"{desc} [lean predicate: {out}]", replay if replay is not None else line))


# ----------------------------------------------------------------------------------------
# known findings
# ----------------------------------------------------------------------------------------

def load_findings(prop: str) -> list[dict]:
    if not FINDINGS.exists():
        return []
    data = json.loads(FINDINGS.read_text())
    return [f for f in data.get("findings", []) if f.get("property") == prop and f.get("status") == "open"]


def match_finding(f: dict, fl: Failure) -> bool:
    return f.get("site") == fl.site and f.get("kind") == fl.kind


# ----------------------------------------------------------------------------------------
# running one check
# ----------------------------------------------------------------------------------------

def relpath(p: Path) -> str:
    try:
        return str(p.relative_to(VERIF))
    except ValueError:
        return str(p)


def write_replay(prop: str, payload: dict) -> Path:
    REPLAYS.mkdir(exist_ok=True)
    blob = json.dumps(payload, sort_keys=True, default=str)
    h = hashlib.sha1(blob.encode()).hexdigest()[:10]
    p = REPLAYS / f"{prop}-{h}.json"
    p.write_text(json.dumps(payload, indent=1, sort_keys=True, default=str))
    return p


class Watchdog(BaseException):
    """the check did not finish within its wall-clock allowance (BaseException: the harness's own `except Exception` wrappers around
    library calls must not swallow it)"""


class watchdog:
    """An operation of the library that does not return (or takes hundreds of times longer than on the pinned tree) gives no verdict by
    itself; what was established before it is still reported.  Allowance: VERIF_WATCHDOG_S, default 600 s (quick) / 6 h (thorough)."""

    def __init__(self, tier: str):
        self.limit = int(os.environ.get("VERIF_WATCHDOG_S", "600" if tier == "quick" else "21600"))

    def __enter__(self):
        import signal

        def fire(signum, frame):
            signal.alarm(5)      # (again, until it gets through: library code may catch everything around a call)
            raise Watchdog(f"check still running after {self.limit} s")
        self.old = signal.signal(signal.SIGALRM, fire)
        signal.alarm(self.limit)

    def __exit__(self, *exc):
        import signal
        signal.alarm(0)
        signal.signal(signal.SIGALRM, self.old)
        return False


def run_check(prop: str, tier: str, seed: int, module) -> int:
    t0 = time.time()
    EVIDENCE.mkdir(exist_ok=True)
    evfile = EVIDENCE / f"{prop}.json"
    h = Harness(prop, tier, seed)
    try:
        build_s = build_lean(prop)
        au = audit(prop)
        if tier == "thorough":
            ok_lc, out_lc = leanchecker(prop)
            au["leanchecker"] = "ok" if ok_lc else "FAILED: " + out_lc
            if not ok_lc:
                au["bad"].append(("leanchecker", out_lc[-300:]))
        try:
            with watchdog(tier):
                module.run(h)
        except InfraError:
            raise
        except (Exception, Watchdog):  # noqa: BLE001
            # the harness itself tripped over something the library did (never seen on the unchanged tree).
            # What was established before is still true: judge the lines queued so far; with no failing
            # input among them this stays an infrastructure error (exit 2), otherwise they are reported.
            tb = traceback.format_exc()
            h.flush()
            known = load_findings(prop)
            if not any(not any(match_finding(f, fl) for f in known) for fl in h.failures):
                print(tb, file=sys.stderr)
                print(f"INFRA-ERROR {prop}: harness exception", file=sys.stderr)
                return 2
            h.notes.append("the run was cut short by a harness exception: " + tb.strip().splitlines()[-1][:200])
        h.flush()
        # a broken correspondence with no failing input yet: widen the search
        if h.differs and not h.failures and hasattr(module, "search"):
            module.search(h)
            h.flush()
    except InfraError as e:
        print(f"INFRA-ERROR {prop}: {e}", file=sys.stderr)
        return 2
    except Exception:
        traceback.print_exc()
        print(f"INFRA-ERROR {prop}: harness exception", file=sys.stderr)
        return 2

    findings = load_findings(prop)
    violations: list[str] = []
    known_hits: Counter = Counter()
    new_failures: list[Failure] = []
    for fl in h.failures:
        hit = next((f for f in findings if match_finding(f, fl)), None)
        if hit is not None:
            known_hits[(hit["site"], hit["kind"])] += 1
        else:
            new_failures.append(fl)

    for f in findings:
        n = known_hits[(f["site"], f["kind"])]
        tag = f"reconfirmed on {n} inputs this run" if n else "not exercised this run"
        print(f"KNOWN-FINDING: property={prop} {f['what']} [{f['site']} / {f['kind']}; {tag}]")

    exit_code = 0
    # 1. new failing inputs on the real code
    grouped: dict[tuple[str, str], list[Failure]] = {}
    for fl in new_failures:
        grouped.setdefault((fl.site, fl.kind), []).append(fl)
    for (site, kind), fls in grouped.items():
        p = write_replay(prop, {
            "property": prop, "site": site, "kind": kind, "tier": tier, "seed": seed,
            "count": len(fls), "what": fls[0].desc, "failing_input": fls[0].replay,
            "more": [f.replay for f in fls[1:4]],
            "replay_cmd": f"/venv/bin/python harness/check.py {prop} --replay <this file>",
        })
        print(f"VIOLATION property={prop} replay={relpath(p)}")
        print(f"  {site} / {kind}: {fls[0].desc} ({len(fls)} failing inputs)")
        exit_code = 1
    # 2. proof side broken
    proof_broken = bool(au["bad"] or au["forbidden_hits"])
    if proof_broken:
        p = write_replay(prop, {"property": prop, "broken_obligation": "axiom audit", "bad": au["bad"], "forbidden": au["forbidden_hits"]})
        print(f"VIOLATION property={prop} replay={relpath(p)} no-failing-input-found")
        exit_code = 1
    # 3. correspondence broken but no failing input found
    if h.differs and not new_failures:
        d = h.differs[0]
        p = write_replay(prop, {
            "property": prop, "broken_obligation": f"correspondence (level A) at {d.site}",
            "line": d.line, "implementation": d.impl, "model": d.model,
            "count": len(h.differs), "more": [vars(x) for x in h.differs[1:4]],
            "note": "model and implementation disagree on this input; no input violating the property was found by the widened search",
        })
        print(f"VIOLATION property={prop} replay={relpath(p)} no-failing-input-found")
        print(f"  correspondence differs at {d.site}: impl={d.impl[:200]} model={d.model[:200]} ({len(h.differs)} lines)")
        exit_code = 1
    elif h.differs:
        print(f"  note: {len(h.differs)} correspondence lines also differ (first: {h.differs[0].site})")

    n_thm = len(au["theorems"])
    obligations = n_thm + 1
    discharged = len(au["ok"]) + (0 if h.differs else 1)
    if proof_broken:
        discharged = min(discharged, obligations - 1)
    ev = {
        "property_id": prop,
        "tier": tier,
        "seed": seed,
        "level": "proof",
        "coverage": {
            "obligations": obligations,
            "discharged": discharged,
            "checker_cmd": f"cd lean && lake build && lake env lean .lake/audit/Audit_{prop}.lean  (#print axioms on: {', '.join(au['theorems'])})",
            "trusted_base": TRUSTED_BASE + getattr(module, "TRUSTED_EXTRA", []),
            "theorems": [{"name": n, "axioms": a} for n, a in au["ok"]],
            "leanchecker": au.get("leanchecker", "not run (thorough tier only)"),
            "evaluations": h.evaluations,
            "distinct_nontrivial": len(h.nontrivial),
            "rule": getattr(module, "RULE", ""),
            "samples": h.samples,
            "level_A_lines_model_vs_impl": h.level_a,
            "level_B_lines_predicate_on_impl_output": h.level_b,
            "disagreements": len(h.differs),
            "histogram": dict(sorted(h.hist.items())),
            "exhaustive": bool(h.exhaustive),
            "known_findings_reconfirmed": {f"{k[0]} / {k[1]}": v for k, v in known_hits.items()},
            "notes": h.notes,
            "lean_build_s": round(build_s, 2),
        },
        "assumptions": getattr(module, "ASSUMPTIONS", []),
        "wall_s": round(time.time() - t0, 2),
        "violations": len(grouped) + (1 if proof_broken else 0) + (1 if (h.differs and not new_failures) else 0),
    }
    evfile.write_text(json.dumps(ev, indent=1, default=str))
    status = "ok" if exit_code == 0 else "VIOLATED"
    print(f"{prop} {tier} seed={seed}: {status}; theorems={n_thm} evaluations={h.evaluations} "
          f"distinct_nontrivial={len(h.nontrivial)} levelA={h.level_a} levelB={h.level_b} "
          f"differs={len(h.differs)} failures={len(h.failures)} wall={ev['wall_s']}s")
    return exit_code
