"""A module-level grammar of real `@dataclass` productions that also carry attributes which are NOT constructor parameters:
`field(init=False)` slots (a cache filled by an interpreter, statistics), `ClassVar`s, plain class attributes.  Only the
constructor's parameters are children of a program: the grammar analysis must not follow the other attributes."""
from abc import ABC
from dataclasses import dataclass, field
from typing import Annotated, ClassVar

from geneticengine.grammar.decorators import abstract
from geneticengine.grammar.metahandlers.ints import IntRange


class Node(ABC):
    pass


@dataclass
class Stats:
    """mentioned only by non-constructor attributes: not part of any grammar"""
    hits: int


@dataclass
class Lit(Node):
    v: Annotated[int, IntRange(0, 3)]
    arity: ClassVar[int] = 0


@dataclass
class Memo(Node):
    key: Annotated[int, IntRange(0, 3)]
    cached: Node = field(init=False, default=None, repr=False, compare=False)    # filled by the interpreter


@dataclass
class Pair(Node):
    l: Node
    r: Node
    info: Stats = field(init=False, default=None, repr=False, compare=False)
    label = "pair"


@dataclass
class Block(Node):
    uid: int = field(init=False, default=0, repr=False, compare=False)   # declared BEFORE the constructor's parameters
    body: Node = None
    items: list[Node] = field(default_factory=list)

    def __post_init__(self):
        self.uid = 7


@dataclass
class Top:
    body: Node
    seen: list[Node] = field(init=False, default_factory=list, repr=False, compare=False)


class Zero(Node):
    """a constant production written as a plain class: an annotated class attribute, no constructor of its own"""
    symbol: str = "0"


class Unit(Node):
    """... and one without any annotation"""


@abstract
@dataclass
class VarBase(Node):
    """abstract, and it declares the constructor its productions share"""
    index: Annotated[int, IntRange(0, 3)]


class InputVar(VarBase):
    """a production that INHERITS its constructor"""


class StateVar(VarBase):
    pass


class Ident(Node, str):
    """a constant production that is also a str (prints as text): its first base is the grammar symbol"""


class Tok(str):
    """a field-less node class derived from a builtin value type, used as a field type: one node, one level, like any other"""


@dataclass
class Read(Node):
    name: Tok


def _column(i: int):
    """one class per column, all made by the same factory: same module, same qualified name, different classes"""
    @dataclass
    class Column(Node):
        row: Annotated[int, IntRange(0, i + 1)]
    return Column


COLUMNS = [_column(i) for i in range(3)]

GRAMMARS = [([Lit, Memo, Pair], Node), ([Lit, Memo], Node), ([Lit, Memo, Pair, Top], Top), ([Lit, Block, Pair], Node),
            ([Lit, Pair] + COLUMNS, Node), ([Zero, Pair, Memo], Node), ([Pair, Zero, Unit, Lit], Node), ([Pair, Unit], Node),
            ([Lit, Pair, InputVar, StateVar, VarBase], Node), ([Pair, InputVar, VarBase], Node), ([Pair, Ident, Lit], Node), ([Pair, Ident], Node),
            ([Read, Pair, Tok], Node), ([Read, Tok, Lit, Pair], Node)]
