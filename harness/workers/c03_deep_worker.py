"""Fresh interpreter (so that nothing has raised the recursion limit before): depth limits in the hundreds on chain-like
grammars whose synthesis costs many interpreter frames per level (refined lists, dependent refinements, unions).
Prints one JSON object: for each case either the depth of the created program or the error."""
from __future__ import annotations

import json
import os
import sys

sys.path.insert(0, os.environ.get("VERIF_REPO", "/repo"))
from abc import ABC  # noqa: E402
from dataclasses import dataclass  # noqa: E402
from typing import Annotated, Union  # noqa: E402

from geneticengine.grammar.grammar import extract_grammar  # noqa: E402
from geneticengine.grammar.metahandlers.dependent import Dependent  # noqa: E402
from geneticengine.grammar.metahandlers.ints import IntRange  # noqa: E402
from geneticengine.grammar.metahandlers.lists import ListSizeBetween  # noqa: E402
from geneticengine.random.sources import NativeRandomSource  # noqa: E402
from geneticengine.representations.grammatical_evolution.dynamic_structured_ge import (  # noqa: E402
    DynamicStructuredGrammaticalEvolutionRepresentation,
)
from geneticengine.representations.tree.initializations import FullDecider, MaxDepthDecider, PositionIndependentGrowDecider  # noqa: E402
from geneticengine.representations.tree.treebased import TreeBasedRepresentation  # noqa: E402


class E(ABC):
    pass


@dataclass
class Leaf(E):
    k: Annotated[int, IntRange(0, 3)]


@dataclass
class Wrap(E):              # one refined list per level
    xs: Annotated[list[E], ListSizeBetween(1, 1)]


@dataclass
class Dep(E):               # a dependent refinement per level
    n: Annotated[int, IntRange(1, 1)]
    ys: Annotated[list[E], Dependent("n", lambda n: ListSizeBetween(n, n))]


@dataclass
class Alt(E):               # a union field per level
    u: Union[E, Leaf]


def depth(v) -> int:
    best, stack = 0, [(v, 1)]
    while stack:
        x, d = stack.pop()
        if isinstance(x, E):
            best = max(best, d)
            for f in getattr(x, "__dataclass_fields__", {}):
                stack.append((getattr(x, f), d + 1))
        elif isinstance(x, (list, tuple)):
            for y in x:
                stack.append((y, d))
    return best


def main():
    out = {}
    for gname, considered in (("refined-list-chain", [Leaf, Wrap]), ("dependent-chain", [Leaf, Dep]), ("union-chain", [Leaf, Alt])):
        g = extract_grammar(considered, E)
        for limit in json.loads(sys.argv[1]):
            for dname, mk in (("full", FullDecider), ("pigrow", PositionIndependentGrowDecider), ("grow", MaxDepthDecider), ("dsge", None)):
                key = f"{gname}/{dname}/{limit}"
                try:
                    r = NativeRandomSource(limit)
                    if mk is None:
                        rep = DynamicStructuredGrammaticalEvolutionRepresentation(g, limit)
                        p = rep.genotype_to_phenotype(rep.create_genotype(r))
                    else:
                        p = TreeBasedRepresentation(g, mk(r, g, limit)).create_genotype(r)
                    out[key] = {"depth": depth(p)}
                except BaseException as e:  # noqa: BLE001
                    out[key] = {"error": type(e).__name__}
                    continue
                if mk is None:
                    continue
                # variation under the same limit: what creation accepted, mutation and crossover must be able to rebuild
                for op in ("mutate", "crossover"):
                    okey = f"{gname}/{dname}+{op}/{limit}"
                    try:
                        rep = TreeBasedRepresentation(g, mk(r, g, limit))
                        q = rep.mutate(r, p) if op == "mutate" else rep.crossover(r, p, rep.create_genotype(r))[0]
                        out[okey] = {"depth": depth(q)}
                    except BaseException as e:  # noqa: BLE001
                        out[okey] = {"error": type(e).__name__}
    print("C03DEEP " + json.dumps(out))


main()
