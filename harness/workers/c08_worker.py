"""Runs a fixed battery of seeded searches in THIS process and prints, as JSON, for each
configuration the sequence of programs handed to the fitness function and the returned best.
Invoked by props/c08.py in fresh interpreters with different PYTHONHASHSEED values, allocation
padding before the grammar classes are defined, and import orders."""
from __future__ import annotations

import json
import os
import sys

pad = int(os.environ.get("C08_PAD", "0"))
_padding = [object() for _ in range(pad)] + [bytearray(pad % 977 + 1) for _ in range(pad % 13)]
if os.environ.get("C08_IMPORT_ORDER", "a") == "b":
    import geneticengine.representations.stackgggp  # noqa: F401
    import geneticengine.grammar.metahandlers.lists  # noqa: F401

sys.path.insert(0, os.environ.get("VERIF_REPO", "/repo"))
from abc import ABC  # noqa: E402
from dataclasses import dataclass  # noqa: E402
from typing import Annotated, Union  # noqa: E402

from geneticengine.algorithms.gp.gp import GeneticProgramming  # noqa: E402
from geneticengine.algorithms.hill_climbing import HC  # noqa: E402
from geneticengine.algorithms.one_plus_one import OnePlusOne  # noqa: E402
from geneticengine.algorithms.random_search import RandomSearch  # noqa: E402
from geneticengine.evaluation.budget import EvaluationBudget  # noqa: E402
from geneticengine.grammar.grammar import extract_grammar  # noqa: E402
from geneticengine.grammar.metahandlers.ints import IntRange  # noqa: E402
from geneticengine.grammar.metahandlers.lists import ListSizeBetween  # noqa: E402
from geneticengine.grammar.metahandlers.vars import VarRange  # noqa: E402
from geneticengine.problems import SingleObjectiveProblem  # noqa: E402
from geneticengine.evaluation.tracker import SingleObjectiveProgressTracker  # noqa: E402
from geneticengine.random.sources import NativeRandomSource  # noqa: E402
from geneticengine.representations.grammatical_evolution.dynamic_structured_ge import (  # noqa: E402
    DynamicStructuredGrammaticalEvolutionRepresentation,
)
from geneticengine.representations.grammatical_evolution.ge import GrammaticalEvolutionRepresentation  # noqa: E402
from geneticengine.representations.grammatical_evolution.structured_ge import (  # noqa: E402
    StructuredGrammaticalEvolutionRepresentation,
)
from geneticengine.representations.stackgggp import StackBasedGGGPRepresentation  # noqa: E402
from geneticengine.representations.tree.initializations import MaxDepthDecider, PositionIndependentGrowDecider  # noqa: E402
from geneticengine.representations.tree.treebased import TreeBasedRepresentation  # noqa: E402


class Expr(ABC):
    pass


class Cond(ABC):
    pass


@dataclass
class Lit(Expr):
    v: Annotated[int, IntRange(0, 9)]


@dataclass
class Var(Expr):
    name: Annotated[str, VarRange(["x", "y", "z"])]


@dataclass
class Add(Expr):
    l: Expr
    r: Expr


@dataclass
class Neg(Expr):
    e: Expr


@dataclass
class Sum(Expr):
    xs: Annotated[list[Expr], ListSizeBetween(1, 3)]


@dataclass
class If(Expr):
    c: Cond
    a: Expr
    b: Union[Lit, Var]


@dataclass
class Less(Cond):
    l: Expr
    r: Expr


@dataclass
class Flag(Cond):
    b: bool


@dataclass
class Pair(Expr):
    p: tuple[Lit, Var]


@dataclass
class Tag(Expr):
    label: str          # a PLAIN str field (no refinement): drawn through the decider's own string primitive
    e: Expr


# productions spread over modules, imported in the order this process's environment asks for
sys.path.insert(0, os.path.dirname(os.path.abspath(__file__)))
import importlib  # noqa: E402
for _m in (("ma", "mb", "mc") if os.environ.get("C08_IMPORT_ORDER", "a") == "a" else ("mc", "mb", "ma")):
    importlib.import_module("c08mods." + _m)
if os.environ.get("C08_HOLES", "0") == "1":
    # an allocation history with HOLES: many small objects, freed in address order, so that the allocator hands the next
    # objects of that size out from the top down -- objects created one after the other then lie in the opposite address order
    class _Junk:
        def __init__(self, a, b):
            self.min, self.max = a, b
    _junk = [_Junk(i, i + 1) for i in range(4000)]
    _junk.sort(key=id)
    while _junk:
        _junk.pop(0)
from c08mods.floats import Both, High, Level, Low  # noqa: E402
from c08mods.base import Shape  # noqa: E402
from c08mods.ma import Dot  # noqa: E402
from c08mods.mb import Frame  # noqa: E402
from c08mods.mc import Group  # noqa: E402

from geneticengine.grammar.decorators import weight as _weight  # noqa: E402


class WExpr(ABC):
    pass


class WCond(ABC):
    pass


@_weight(3)
@dataclass
class WNum(WExpr):
    v: int          # (plain: the stack mapping fills refined fields only by luck)


@_weight(1)
@dataclass
class WAdd(WExpr):
    l: WExpr
    r: WExpr


@_weight(2)
@dataclass
class WIf(WExpr):
    c: WCond
    a: WExpr


@_weight(5)
@dataclass
class WFlag(WCond):
    b: bool


@_weight(1)
@dataclass
class WLess(WCond):
    l: WExpr
    r: WExpr


from geneticengine.grammar.metahandlers.dependent import Dependent  # noqa: E402


class BkExpr(ABC):
    pass


@dataclass
class BkLit(BkExpr):
    v: Annotated[int, IntRange(0, 9)]


@dataclass
class BkRef(BkExpr):
    # a reference needs a name in scope: with an empty scope this production cannot be built, and creation moves on to another one
    scope: Annotated[list[Annotated[str, VarRange(["x", "y"])]], ListSizeBetween(0, 1)]
    name: Annotated[str, Dependent("scope", lambda scope: VarRange(scope))]


@dataclass
class BkNeg(BkExpr):
    e: BkExpr


@dataclass
class BkAdd(BkExpr):
    l: BkExpr
    r: BkExpr


sys.path.insert(0, os.path.dirname(os.path.dirname(os.path.abspath(__file__))))
import wsgrammar  # noqa: E402  (a refinement OBJECT with parameters of its own -- a probability matrix -- that lives as long as the process)

class TwExpr(ABC):
    pass


@dataclass
class TwLit(TwExpr):
    a: Annotated[int, IntRange(0, 9)]
    b: Annotated[int, IntRange(0, 9)]


@dataclass
class TwVar(TwExpr):
    n: Annotated[str, VarRange(["x", "y"])]
    m: Annotated[str, VarRange(["x", "y"])]


@dataclass
class TwAdd(TwExpr):
    l: TwExpr
    r: TwExpr
    w: Annotated[int, IntRange(0, 9)]


from geneticengine.grammar.metahandlers.strings import StringSizeBetween  # noqa: E402


class SExpr(ABC):
    pass


@dataclass
class SLit(SExpr):
    s: Annotated[str, StringSizeBetween(1, 4, list("abcdefgh"))]


@dataclass
class SCat(SExpr):
    l: SExpr
    r: SExpr


GRAMMARS = {
    # an alphabet of one-character strings (whose hashes depend on PYTHONHASHSEED)
    "strs": ([SLit, SCat], SExpr),
    "twins": ([TwLit, TwVar, TwAdd], TwExpr),
    "wstrings": ([wsgrammar.Seq, wsgrammar.Join], wsgrammar.E),
    # a production that fails in some contexts (creation backtracks to its siblings)
    "backtrack": ([BkRef, BkLit, BkNeg, BkAdd], BkExpr),
    # production weights on TWO abstract symbols (every extraction re-normalises what is stored on the classes)
    "weighted": ([WNum, WAdd, WIf, WFlag, WLess], WExpr),
    "full": ([Lit, Var, Add, Neg, Sum, If, Less, Flag, Pair, Tag], Expr),
    "plain": ([Lit, Var, Add, Neg, Less, Flag, If], Expr),
    "split": ([Frame, Dot, Group], Shape),
    "floats": ([Low, High, Both], Level),
}


def size(p) -> int:
    return len(repr(p))


_SHARED_REPS: dict = {}


_SHARED_GRAMMARS: dict = {}
_MO_LOG: dict = {}
_SHARED_SEED_PROGRAMS: dict = {}


def run_one(algo: str, rep_name: str, gname: str, seed: int, budget: int, own_tracker: bool = False, shared_rep: bool = False,
            shared_grammar: bool = False):
    if gname == "synthetic":
        # the library's own generator of benchmark grammars: "a random grammar, based on a particular seed" (new classes on every call)
        from geneticengine.grammar.synthetic_grammar import create_arbitrary_grammar
        considered, start = create_arbitrary_grammar(seed=5, non_terminals_count=4, recursive_non_terminals_count=2,
                                                     productions_per_non_terminal=lambda rd: 3, non_terminals_per_production=lambda rd: 2,
                                                     base_types={int})
    else:
        considered, start = GRAMMARS["full" if gname == "usable" else gname]
    if shared_grammar:
        # ONE grammar object serves several searches (extracted once, as a user's script does)
        g = _SHARED_GRAMMARS.setdefault(gname, extract_grammar(considered, start))
    else:
        g = extract_grammar(considered, start)
    if gname == "usable":
        # the reachable sub-grammar, as the library derives it (its production order feeds every choice)
        g = g.usable_grammar()
    # (seed None: the source is created WITHOUT a seed argument -- the documented default)
    r = NativeRandomSource(seed) if seed is not None else NativeRandomSource()
    if rep_name == "tree":
        rep = TreeBasedRepresentation(g, MaxDepthDecider(r, g, 5))
    elif rep_name == "tree-pi":
        rep = TreeBasedRepresentation(g, PositionIndependentGrowDecider(r, g, 5))
    elif rep_name == "ge":
        rep = GrammaticalEvolutionRepresentation(g, MaxDepthDecider(r, g, 5), gene_length=48)
    elif rep_name == "sge":
        rep = StructuredGrammaticalEvolutionRepresentation(g, MaxDepthDecider(r, g, 5), gene_length=48)
    elif rep_name == "dsge":
        rep = DynamicStructuredGrammaticalEvolutionRepresentation(g, 5)
        if shared_rep:
            # ONE representation object serves several searches (it holds no random source: nothing of a search lives in it)
            rep = _SHARED_REPS.setdefault((gname, "dsge"), rep)
    else:
        rep = StackBasedGGGPRepresentation(g, gene_length=256)
    log = []

    coarse = algo == "gpc"   # coarse objective: many fitness ties among the best (elitism must break them reproducibly)

    def ff(p):
        s = repr(p)
        log.append(s)
        if coarse:
            return float(len(s) % 3)
        return (len(s) * 7919) % 1000 + len(s) / 1000.0

    problem = SingleObjectiveProblem(ff, minimize=False)
    if algo == "gplex":
        # many objectives (one case per "training sample"), lexicase selection
        from geneticengine.algorithms.gp.operators.combinators import SequenceStep
        from geneticengine.algorithms.gp.operators.crossover import GenericCrossoverStep
        from geneticengine.algorithms.gp.operators.mutation import GenericMutationStep
        from geneticengine.algorithms.gp.operators.selection import LexicaseSelection
        from geneticengine.problems import MultiObjectiveProblem

        def mff(p):
            s = repr(p)
            log.append(s)
            return [float((len(s) * (j + 3) + j * j) % 7) for j in range(20)]
        problem = MultiObjectiveProblem([j % 2 == 0 for j in range(20)], mff)
    if algo == "gpmo":
        # a multi-objective problem declared with ONE bool for all its objectives (their number is only known after the first
        # evaluation), built once by the user and handed to every run
        from geneticengine.problems import MultiObjectiveProblem
        _MO_LOG["log"] = log
        if "problem" not in _MO_LOG:
            def mo_ff(p):
                s_ = repr(p)
                _MO_LOG["log"].append(s_)
                return [float(len(s_) % 11), float(s_.count("(") * 3 % 7), float(len(s_) % 5)]
            _MO_LOG["problem"] = MultiObjectiveProblem(True, mo_ff)
        problem = _MO_LOG["problem"]
    b = EvaluationBudget(budget)
    # a tracker supplied by the user without an evaluator (the usual way to attach recorders)
    kw = {"tracker": SingleObjectiveProgressTracker(problem, recorders=[])} if own_tracker else {}
    try:
        if algo == "gp":
            alg = GeneticProgramming(problem, b, rep, random=r, population_size=8, **kw)
        elif algo == "gpc":
            # population large enough for the default step to reserve elitism slots
            alg = GeneticProgramming(problem, b, rep, random=r, population_size=24, **kw)
        elif algo == "gplex":
            kw = {}
            alg = GeneticProgramming(problem, b, rep, random=r, population_size=10,
                                     step=SequenceStep(LexicaseSelection(), GenericCrossoverStep(0.3), GenericMutationStep(0.8)), **kw)
        elif algo == "gpinject":
            # a warm start: the user's list of seed programs (ONE list object, kept by the user and handed to every run) goes
            # into the initial population, the rest is grown
            from geneticengine.representations.tree.operators import GrowInitializer, InjectInitialPopulationWrapper
            if (gname, seed) not in _SHARED_SEED_PROGRAMS:
                r0 = NativeRandomSource(1000 + seed)
                rep0 = TreeBasedRepresentation(g, MaxDepthDecider(r0, g, 4))
                _SHARED_SEED_PROGRAMS[(gname, seed)] = [rep0.create_genotype(r0) for _ in range(5)]
            alg = GeneticProgramming(problem, b, rep, random=r, population_size=8,
                                     population_initializer=InjectInitialPopulationWrapper(_SHARED_SEED_PROGRAMS[(gname, seed)], GrowInitializer()), **kw)
        elif algo == "gpmo":
            alg = GeneticProgramming(problem, b, rep, random=r, population_size=8)
        elif algo == "gpx":
            # every pair is crossed over and every child mutated straight afterwards (a child is not looked at in between)
            from geneticengine.algorithms.gp.operators.combinators import SequenceStep as _Seq
            from geneticengine.algorithms.gp.operators.crossover import GenericCrossoverStep as _X
            from geneticengine.algorithms.gp.operators.mutation import GenericMutationStep as _M
            from geneticengine.algorithms.gp.operators.selection import TournamentSelection as _T
            alg = GeneticProgramming(problem, b, rep, random=r, population_size=8, step=_Seq(_T(2), _X(1.0), _M(1.0)), **kw)
        elif algo == "rs":
            alg = RandomSearch(problem, b, rep, random=r, **kw)
        elif algo == "hc":
            alg = HC(problem, b, rep, random=r, number_of_mutations=3, **kw)
        else:
            alg = OnePlusOne(problem, b, rep, random=r, **kw)
        best = alg.search()
        f_ = best.get_fitness(problem)
        bf = f_.fitness_components[0]
        return {"evaluated": log, "best": repr(best.get_phenotype()), "fitness": bf, "aggregate": f_.maximizing_aggregate}
    except Exception as e:  # noqa: BLE001
        return {"evaluated": log, "error": type(e).__name__}


def main():
    configs = json.loads(sys.argv[1])
    if os.environ.get("C08_LOG") == "debug":
        # the library's loggers at DEBUG (a user chasing a problem): diagnostics are written, the search is the same search
        import logging
        lg = logging.getLogger("geneticengine")
        lg.setLevel(logging.DEBUG)
        lg.addHandler(logging.NullHandler())
        lg.propagate = False
    out = {}
    for (algo, rep_name, gname, seed, budget) in configs:
        key = f"{algo}/{rep_name}/{gname}/{seed}"
        out[key] = run_one(algo, rep_name, gname, seed, budget)
        # the same search again, one after the other in THIS process, with a user-supplied tracker
        out[key + "#again"] = run_one(algo, rep_name, gname, seed, budget, own_tracker=True)
        out[key + "#again2"] = run_one(algo, rep_name, gname, seed, budget, own_tracker=True)
        if gname == "backtrack":
            out[key + "#sharedgrammar1"] = run_one(algo, rep_name, gname, seed, budget, shared_grammar=True)
            out[key + "#sharedgrammar2"] = run_one(algo, rep_name, gname, seed, budget, shared_grammar=True)
        if rep_name == "dsge":
            out[key + "#sharedrep1"] = run_one(algo, rep_name, gname, seed, budget, shared_rep=True)
            out[key + "#sharedrep2"] = run_one(algo, rep_name, gname, seed, budget, shared_rep=True)
    print("C08RESULT " + json.dumps(out))


if __name__ == "__main__":
    main()
