from dataclasses import dataclass

from c08mods.base import Shape


@dataclass
class Group(Shape):
    a: Shape
    b: Shape
