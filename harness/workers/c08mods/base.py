from abc import ABC


class Shape(ABC):
    pass
