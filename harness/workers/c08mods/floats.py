"""Two float fields refined by DIFFERENT FloatRange objects (created here, once, at import time -- no postponed
annotations): symbol tables that are ordered by the text of a type must not depend on where those objects live."""
from abc import ABC
from dataclasses import dataclass
from typing import Annotated

from geneticengine.grammar.metahandlers.floats import FloatRange


class Level(ABC):
    pass


@dataclass
class Low(Level):
    x: Annotated[float, FloatRange(0.0, 1.0)]


@dataclass
class High(Level):
    y: Annotated[float, FloatRange(5.0, 9.0)]


@dataclass
class Both(Level):
    a: Level
    b: Level
    z: Annotated[float, FloatRange(-2.0, -1.0)]
