from dataclasses import dataclass
from typing import Annotated

from geneticengine.grammar.metahandlers.ints import IntRange

from c08mods.base import Shape


@dataclass
class Dot(Shape):
    r: Annotated[int, IntRange(0, 9)]
