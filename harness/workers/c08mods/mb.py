from dataclasses import dataclass

from c08mods.base import Shape


@dataclass
class Frame(Shape):
    inner: Shape
    thick: bool
