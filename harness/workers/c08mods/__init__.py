"""Productions of one abstract class defined in SEPARATE modules: the order in which a program happens to import them must
not matter -- the grammar lists them in the order the user gives to extract_grammar."""
