"""A small module-level grammar (picklable by reference) for runs that cross process boundaries."""
from abc import ABC
from dataclasses import dataclass
from typing import Annotated

from geneticengine.grammar.grammar import extract_grammar
from geneticengine.grammar.metahandlers.ints import IntRange


class E(ABC):
    pass


@dataclass
class L(E):
    v: Annotated[int, IntRange(0, 99)]


@dataclass
class N(E):
    l: E
    r: E


def grammar():
    return extract_grammar([L, N], E)


def ff(p):
    return float(len(repr(p)))


L.__gengy_field_names__ = ("v",)
N.__gengy_field_names__ = ("l", "r")

_BUILT = None


def built():
    """(Spec, Built) of this grammar by the harness's own reflection."""
    global _BUILT
    if _BUILT is None:
        import gram
        _BUILT = gram.reflect([L, N], E)
    return _BUILT


def ff_plain(p):
    """what ff_report returns, without logging"""
    import gram
    from core import sx
    _, b = built()
    return float(len(sx(gram.canon(p, b))))


def ff_report(p):
    """Fitness function that reports what it was handed: appends the canonical form of its argument
    to the file named by VERIF_FF_LOG (O_APPEND: survives ParallelEvaluator's process boundary)."""
    import os
    import gram
    from core import sx
    _, b = built()
    line = sx(gram.canon(p, b))
    fd = os.open(os.environ["VERIF_FF_LOG"], os.O_WRONLY | os.O_APPEND | os.O_CREAT)
    try:
        os.write(fd, (line + "\n").encode())
    finally:
        os.close(fd)
    return float(len(line))


# module-level data a fitness function reads (a data set the user's script replaces between two searches)
DATA = {"target": 0}


def ff_data(p):
    return float(abs(len(repr(p)) - DATA["target"]))
