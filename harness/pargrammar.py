"""A small module-level grammar (picklable by reference) for runs that cross process boundaries."""
from abc import ABC
from dataclasses import dataclass
from typing import Annotated

from geneticengine.grammar.grammar import extract_grammar
from geneticengine.grammar.metahandlers.ints import IntRange


class E(ABC):
    pass


@dataclass
class L(E):
    v: Annotated[int, IntRange(0, 99)]


@dataclass
class N(E):
    l: E
    r: E


def grammar():
    return extract_grammar([L, N], E)


def ff(p):
    return float(len(repr(p)))
