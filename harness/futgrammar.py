"""A module-level grammar declared the usual way -- WITH `from __future__ import annotations` -- so that every reading of a class's
annotations builds NEW refinement objects (IntervalRange, Dependent with its lambda, ...): nothing the library keys on may depend on
which objects those are."""
from __future__ import annotations
from abc import ABC
from dataclasses import dataclass
from typing import Annotated, Union
from geneticengine.grammar.metahandlers.ints import IntRange
from geneticengine.grammar.metahandlers.ints import IntervalRange
from geneticengine.grammar.metahandlers.lists import ListSizeBetween

class E(ABC):
    pass

@dataclass
class W(E):
    span: Annotated[tuple[int, int], IntervalRange(1, 3, 9)]
    k: Annotated[int, IntRange(0, 5)]

@dataclass
class N(E):
    l: E
    xs: Annotated[list[E], ListSizeBetween(1, 2)]

from geneticengine.grammar.metahandlers.dependent import Dependent

@dataclass
class D(E):
    k: Annotated[int, IntRange(1, 3)]
    v: Annotated[int, Dependent("k", lambda k: IntRange(0, k))]


@dataclass
class Un(E):
    # Union types that mention refinement objects: rebuilt -- as new, unequal objects -- at every reading of the annotations
    u: Union[W, Annotated[list[E], ListSizeBetween(1, 2)]]
    w: Union[Annotated[int, IntRange(0, 3)], W]


def grammar():
    from geneticengine.grammar.grammar import extract_grammar
    return extract_grammar([W, N, D, Un], E)


def ill_typed(p) -> list:
    """independent walk over the constructor parameters"""
    bad, todo = [], [("program", p)]
    while todo:
        path, v = todo.pop()
        if isinstance(v, W):
            s = v.span
            if not (type(s) is tuple and len(s) == 2 and all(type(x) is int for x in s) and 1 <= s[1] - s[0] <= 3 and 0 <= s[0] and s[1] <= 9):
                bad.append(f"{path}.span = {s!r} is not an interval of length 1..3 below 9")
            if not (type(v.k) is int and 0 <= v.k <= 5):
                bad.append(f"{path}.k = {v.k!r}")
        elif isinstance(v, N):
            if not (isinstance(v.xs, list) and 1 <= len(v.xs) <= 2):
                bad.append(f"{path}.xs = {v.xs!r} is not a list of 1..2 elements")
            else:
                todo += [(f"{path}.xs[{i}]", x) for i, x in enumerate(v.xs)]
            todo.append((path + ".l", v.l))
        elif isinstance(v, Un):
            if isinstance(v.u, list):
                if not 1 <= len(v.u) <= 2:
                    bad.append(f"{path}.u = {v.u!r} is not a list of 1..2 elements")
                todo += [(f"{path}.u[{i}]", x) for i, x in enumerate(v.u)]
            else:
                todo.append((path + ".u", v.u))
            if type(v.w) is int:
                if not 0 <= v.w <= 3:
                    bad.append(f"{path}.w = {v.w!r}")
            else:
                todo.append((path + ".w", v.w))
        elif isinstance(v, D):
            if not (type(v.k) is int and 1 <= v.k <= 3 and type(v.v) is int and 0 <= v.v <= v.k):
                bad.append(f"{path}: D(k={v.k!r}, v={v.v!r}) violates v in 0..k")
        else:
            bad.append(f"{path}: {v!r} is not a program of the grammar")
    return bad
