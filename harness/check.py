#!/venv/bin/python
"""check.py Cxx [--tier quick|thorough] [--replay file]"""
from __future__ import annotations

import argparse
import importlib
import json
import os
import sys
from pathlib import Path

sys.path.insert(0, str(Path(__file__).resolve().parent))
os.environ.setdefault("PYTHONHASHSEED", "0")

import core  # noqa: E402


def main() -> int:
    ap = argparse.ArgumentParser()
    ap.add_argument("prop")
    ap.add_argument("--tier", default=os.environ.get("VERIF_TIER", "quick"), choices=["quick", "thorough"])
    ap.add_argument("--replay", default=None)
    args = ap.parse_args()
    seed = int(os.environ.get("VERIF_SEED", "0") or 0)
    mod = importlib.import_module(f"props.{args.prop.lower()}")
    if args.replay:
        payload = json.loads(Path(args.replay).read_text())
        if hasattr(mod, "replay"):
            return mod.replay(payload)
        # generic replay: show the recorded failing input / broken obligation; protocol lines are run
        # through the model again so that model and implementation results can be compared side by side
        print(json.dumps(payload, indent=1)[:6000])
        lines = [payload[k] for k in ("line",) if isinstance(payload.get(k), str)]
        fi = payload.get("failing_input")
        if isinstance(fi, str) and fi.startswith("("):
            lines.append(fi)
        if lines:
            core.build_lean(args.prop)
            for ln, out in zip(lines, core.run_driver(lines)):
                print(f"protocol line : {ln[:400]}")
                print(f"model / predicate now says: {out[:400]}")
                if "implementation" in payload:
                    print(f"implementation said       : {str(payload['implementation'])[:400]}")
        print("to re-run the search that found it: VERIF_SEED=%s %s harness/check.py %s --tier %s"
              % (payload.get("seed", 0), sys.executable, args.prop, payload.get("tier", "quick")))
        return 0
    return core.run_check(args.prop, args.tier, seed, mod)


if __name__ == "__main__":
    sys.exit(main())
