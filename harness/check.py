#!/venv/bin/python
"""check.py Cxx [--tier quick|thorough] [--replay file]"""
from __future__ import annotations

import argparse
import importlib
import json
import os
import sys
from pathlib import Path

sys.path.insert(0, str(Path(__file__).resolve().parent))
os.environ.setdefault("PYTHONHASHSEED", "0")

import core  # noqa: E402


def main() -> int:
    ap = argparse.ArgumentParser()
    ap.add_argument("prop")
    ap.add_argument("--tier", default=os.environ.get("VERIF_TIER", "quick"), choices=["quick", "thorough"])
    ap.add_argument("--replay", default=None)
    args = ap.parse_args()
    seed = int(os.environ.get("VERIF_SEED", "0") or 0)
    mod = importlib.import_module(f"props.{args.prop.lower()}")
    if args.replay:
        payload = json.loads(Path(args.replay).read_text())
        if hasattr(mod, "replay"):
            return mod.replay(payload)
        print(json.dumps(payload, indent=1))
        return 0
    return core.run_check(args.prop, args.tier, seed, mod)


if __name__ == "__main__":
    sys.exit(main())
