"""A module-level grammar for "things that happen to a grammar between two mappings" (C07): productions WITH docstrings (a dataclass
without one gets its signature as docstring, which prints its annotations when the class is created), refinements whose option lists
are not written in ascending order, and an abstract class directly below another abstract class."""
from abc import ABC
from dataclasses import dataclass
from typing import Annotated

from geneticengine.grammar.decorators import abstract
from geneticengine.grammar.grammar import extract_grammar
from geneticengine.grammar.metahandlers.floats import FloatList
from geneticengine.grammar.metahandlers.ints import IntList


class VExpr(ABC):
    """expressions"""


@abstract
class VAtom(VExpr):
    """atoms (an abstract class below an abstract class)"""


@dataclass
class VLit(VAtom):
    """a literal out of a few allowed values"""
    v: Annotated[int, IntList([7, 2, 9, 4, 1])]


@dataclass
class VPick(VAtom):
    """a constant out of a few allowed values"""
    x: Annotated[float, FloatList([2.5, 0.5, 1.5, 0.25])]


@dataclass
class VNeg(VExpr):
    """negation"""
    e: VExpr


@dataclass
class VAdd(VExpr):
    """sum"""
    l: VExpr
    r: VAtom


def grammar():
    return extract_grammar([VLit, VPick, VNeg, VAdd, VAtom], VExpr)
