"""Grammars whose smallest program is several levels deep (module level, no postponed annotations): initialisers that start at
depth 1 have to work their way up before the first individual exists."""
from abc import ABC
from dataclasses import dataclass


class Root(ABC):
    pass


class Inner(ABC):
    pass


class Core(ABC):
    pass


@dataclass
class Wrap(Root):
    inner: Inner


@dataclass
class Shell(Inner):
    core: Core


@dataclass
class Both(Inner):
    a: Core
    b: Core


@dataclass
class Leaf(Core):
    v: int


@dataclass
class Deep(Core):
    w: Wrap


GRAMMARS = [([Wrap, Shell, Both, Leaf], Root), ([Wrap, Shell, Both, Leaf, Deep], Root), ([Deep, Wrap, Shell, Leaf], Core)]


def nodes(p) -> int:
    return 1 + sum(nodes(getattr(p, f)) for f in getattr(p, "__dataclass_fields__", {}) if hasattr(getattr(p, f), "__dataclass_fields__"))
