"""Helpers for the genotype-based representations (GE, SGE, dynamic SGE, stack)."""
from __future__ import annotations

import warnings

import gram
import synth
from core import ScriptedSource

from geneticengine.random.sources import RandomSource
from geneticengine.representations.grammatical_evolution.dynamic_structured_ge import (
    DynamicStructuredGrammaticalEvolutionRepresentation as DSGE,
)
from geneticengine.representations.grammatical_evolution.ge import GrammaticalEvolutionRepresentation as GE
from geneticengine.representations.grammatical_evolution.structured_ge import (
    StructuredGrammaticalEvolutionRepresentation as SGE,
)
from geneticengine.representations.stackgggp import StackBasedGGGPRepresentation as Stack


class CountingSource(RandomSource):
    """Wraps a source and counts every draw made through it (the 'shared stream position')."""

    def __init__(self, inner: RandomSource):
        self.inner = inner
        self.calls = 0

    def randint(self, min, max):  # noqa: A002
        self.calls += 1
        return self.inner.randint(min, max)

    def random_float(self, min, max):  # noqa: A002
        self.calls += 1
        return self.inner.random_float(min, max)

    def normalvariate(self, mean, sigma):
        self.calls += 1
        return self.inner.normalvariate(mean, sigma)


def key_atom(k: str) -> str:
    if k == "$infrastructure" or (k.isalnum() and k.isascii()):
        return k
    return "0x" + k.encode().hex()


def sge_sx(dna: dict):
    return [[key_atom(k), list(v)] for k, v in dna.items()]


def dsge_sx(dna: dict, b: gram.Built):
    return [[gram.ty_sx(gram.ty_of_py(k, b)), list(v)] for k, v in dna.items()]


def safe(fn):
    try:
        with warnings.catch_warnings():
            warnings.simplefilter("ignore")
            return "ok", fn()
    except RecursionError:
        return "skip", None
    except Exception as e:  # noqa: BLE001
        return "err", gram.err_kind(e)
