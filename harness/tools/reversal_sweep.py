#!/usr/bin/env python3
"""For every `fixed` entry of known_findings.json: reverse-apply its /repo commit to a scratch copy
and run that property's quick check against the copy.  The check must report a violation (the
defect is back).  Prints a table; exit 1 if some reversal goes undetected."""
import json
import subprocess
import sys
from pathlib import Path

VERIF = Path(__file__).resolve().parents[2]
data = json.loads((VERIF / "known_findings.json").read_text())
rows = []
only = set(sys.argv[1:])
for f in data["findings"]:
    if f.get("status") != "fixed":
        continue
    commit, prop = f["commit"], f["property"]
    if only and prop not in only and commit not in only:
        continue
    p = subprocess.run([str(VERIF / "harness/tools/mutant_run.sh"), "-R", commit, "--", prop], capture_output=True, text=True)
    out = p.stdout
    detected = "VIOLATION property=" in out
    first = next((l.strip() for l in out.splitlines() if l.startswith("  ")), "")
    if "cannot reverse-apply" in out:
        status = "n/a (does not reverse-apply on HEAD)"
    else:
        status = "DETECTED" if detected else "MISSED"
    rows.append((prop, commit, status, first[:150]))
    print(f"{prop} {commit} {status} :: {first[:150]}", flush=True)
missed = [r for r in rows if r[2] == "MISSED"]
print(f"\n{len(rows)} reversals, {len(missed)} missed")
sys.exit(1 if missed else 0)
