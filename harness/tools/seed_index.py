#!/usr/bin/env python3
"""seed_index.py: regenerate seeded/INDEX.md from the meta.json of every kept change (+ the history notes below)."""
import json
import re
from pathlib import Path

VERIF = Path(__file__).resolve().parents[2]

HISTORY_R6 = {
    "C01-r6m1": "missed at first -> genotypes of boundary genes (0, sys.maxsize, constant) on grammars with plain float / int / str fields; this also exposed that the stack mapping never terminates on constant genotypes (fixed: 67737cf)",
    "C01-r6m2": "missed at first -> CooperativeGP over two DIFFERENT grammars: what the user's function is handed in each position, and what search() returns",
    "C02-r6m2": "missed at first -> weighted strings (matrix with zero entries, an all-zero row, a row below the chooser's resolution) validated in every representation",
    "C03-r6m1": "missed at first (only a broken correspondence) -> possibly-empty bounded lists with concrete element classes in the corpus; patch rebased onto 39a49c5",
    "C03-r6m2": "missed at first -> mutation and crossover at depth limits in the hundreds, in a fresh interpreter",
    "C05-r6m1": "missed at first (only a broken correspondence) -> symbols reachable only from below in the corpus, independent oracle for the usable sub-grammar",
    "C06-r6m1": "missed at first -> the mutation STEP over representations whose mapping can fail (stack, short genomes)",
    "C06-r6m2": "missed at first -> genotypes of 512 / 1024 (thorough 4096) genes",
    "C07-r6m1": "missed at first -> a stream of short-lived genotypes on one long-lived representation, each compared with a fresh representation",
    "C08-r6m1": "missed at first -> float-refined symbols (different FloatRange objects) under an allocation history with holes",
    "C08-r6m2": "missed at first -> one dSGE representation object shared by several searches",
    "C09-r6m1": "missed at first -> caught by the dSGE histories once failing mappings were handled (see section 15)",
    "C09-r6m2": "missed at first -> what the individuals cached for the first problem is verified after steps ran under a second problem",
    "C10-r6m1": "missed at first -> weighted grammars with an unproductive sibling production; weights in the snapshot compared to 12 digits",
    "C10-r6m2": "missed at first -> `random_node` for non-root symbols with limits below that symbol's minimum; the start symbol is part of the snapshot",
    "C11-r6m1": "missed at first -> real dataclasses with a non-constructor attribute declared BEFORE the constructor's parameters",
    "C11-r6m2": "missed at first -> palette grammars: leaves chosen among given objects of a terminal class, the same object several times in one program",
    "C12-r6m1": "missed at first -> histories with +-inf fitness, judged with the infinities mapped beyond all other values",
    "C12-r6m2": "missed at first -> batches given as one-shot iterables; every individual handed to the tracker must be reported",
    "C13-r6m1": "missed at first -> multi-objective problems declared with one bool under the parallel evaluator, nothing evaluated beforehand (corpus)",
    "C14-r6m1": "missed at first -> exclusive-parallel steps nested in the slices of a parallel step",
    "C14-r6m2": "missed at first -> compositions whose slice ENDS in crossover, odd sizes",
    "C15-r6m2": "missed at first -> CooperativeGP: every generation of species k has population{k}_size individuals",
    "C16-r6m1": "missed at first -> SimpleGP with elitism != novelty: best fitness monotone and the `elitism` best values dominated rank by rank",
    "C16-r6m2": "missed at first -> fitness values that differ in the 10th digit / by one ulp, individuals of several generations",
    "C17-r6m1": "missed at first -> a fitness function that fills and returns ONE preallocated list of floats",
    "C18-r6m2": "missed at first -> int-literal float bounds beyond 2**53; the clean tree failed too (fixed: 39a49c5); patch rebased onto the repaired clamp",
    "C19-r6m1": "missed at first -> a production deriving from two abstract types of the grammar",
    "C19-r6m2": "missed at first -> weights declared AGAIN on classes a grammar was already extracted from",
    "C20-r6m2": "missed at first -> batches handed to the real tracker as generators / iterators",
}

HISTORY_R5 = {
    "C01-r5m1": "missed at first -> unions one of whose alternatives is a wrapped type (list / tuple / refined list of the recursive symbol) in the corpus; the new corpus also exposed a KeyError of the progressive decider on such unions (fixed: 3152aa3)",
    "C01-r5m2": "missed at first -> float refinements with int-literal bounds, dSGE genotypes whose float genes are the extreme ones (patch rebased onto 39a49c5)",
    "C02-r5m1": "missed at first -> bounded lists whose elements can never / only sometimes be created (dependent VarRange over an empty sibling list)",
    "C02-r5m2": "missed at first -> alphabets of punctuation (^ - ] . + * [ $ | ?); strings cross the wire hex-encoded and are decoded in Lean",
    "C03-r5m2": "missed at first -> production weights, weight 0 on the strictly shallowest production, in both depth modes",
    "C04-r5m1": "missed at first -> expansion-depthing grammars with and without weights, judged draw by draw against the model's creation and for membership (caught as a broken correspondence: no-failing-input-found)",
    "C04-r5m2": "missed at first -> a refinement that depends on two siblings named in non-alphabetical order (Dependent('scale,base')) in the corpus",
    "C05-r5m1": "missed at first -> real dataclasses with non-constructor attributes (field(init=False) slots, ClassVars) reflected by the harness's OWN reading of the constructor; unknown symbols reported",
    "C05-r5m2": "missed at first (only a broken correspondence) -> stand-alone concrete recursive classes in the corpus and an independent derivation-graph oracle for the recursive set",
    "C07-r5m1": "missed at first -> late offspring: crossover of an already mapped dSGE genotype with a never mapped one, children mapped repeatedly",
    "C07-r5m2": "missed at first -> an all-zero row and a row below the chooser's resolution in the persistent WeightedStringHandler matrix",
    "C08-r5m1": "missed at first -> productions of one abstract class defined in separate modules which the worker imports in an order given by its environment",
    "C09-r5m1": "missed at first -> grammars with a production that can fail (backtracking inside mutation / crossover) among the generated ones; the synthesis context of every node is part of the snapshot",
    "C09-r5m2": "missed at first -> steps run with the ParallelEvaluator on partly evaluated pools (three layouts)",
    "C10-r5m2": "missed at first -> history over the WeightedStringHandler grammar: the handler's matrix and the set of creatable strings",
    "C12-r5m1": "missed at first -> the individuals were searched before under a live problem over the SAME fitness function object with the opposite direction",
    "C12-r5m2": "missed at first -> one-objective minimised multi-objective problems; the best aggregate is recomputed from the components and the declared directions",
    "C13-r5m2": "missed at first -> programs whose str() does not tell them apart under the ParallelEvaluator",
    "C14-r5m1": "missed at first -> ONE budget object used by two searches one after the other",
    "C14-r5m2": "missed at first -> a search space of exactly one program (genotypes compare equal) under steps without novelty",
    "C15-r5m1": "missed at first -> Population and GP runs with 257..1025 individuals",
    "C15-r5m2": "missed at first -> injected programs deeper than the representation's depth limit",
    "C16-r5m1": "missed at first -> elitism under live problems that share ONE fitness function object with opposite directions",
    "C16-r5m2": "missed at first -> ElitismStep with the ParallelEvaluator and a fitness function of uneven cost, on unevaluated and partly evaluated pools",
    "C17-r5m1": "missed at first -> lexicase with a case on which every candidate is NaN (modelled as a skipped case; judged by the Lean predicate on the informative cases)",
    "C17-r5m2": "missed at first -> partly evaluated pools under the sequential and the parallel evaluator, judged by the fitness the problem assigns to each program",
    "C18-r5m2": "missed at first -> equal and neighbouring float bounds that are not short binary fractions, every gene 0..1025",
    "C19-r5m1": "missed at first -> whole programs built with the weight-aware decider on grammars with a switched-off production beside a failing sibling",
    "C19-r5m2": "missed at first -> whole programs mapped by the stack representation on grammars whose switched-off production is a nested abstract type",
    "C20-r5m1": "missed at first -> strict improvements between neighbouring floats / in the 12th digit under the real tracker with a best-only log",
}


FIRST = "caught on the first evaluation"
HISTORY_R2 = {
    "C01-r2m1": "missed at first (size-refined lists only ever had class elements) -> the grammar generator gives ListSizeBetween lists base / list / refined element types",
    "C01-r2m2": "missed at first (rebased onto the C13 fix 414fd0d) -> C01 gained `check_evaluators`: what the fitness function is HANDED, per representation, under both evaluators, judged by the Lean well-typedness predicate",
    "C02-r2m1": "missed at first: exhaustive scripts are driven by the implementation's ranges, so a model with a WIDER range agreed on every enumerated draw -> `enumerate_scripts(lift=True)` (range-sensitive scripts) and disjoint alphabets with equal bounds in the StringSizeBetween box",
    "C03-r2m1": "caught on the first evaluation, lost again when a generator change shifted the random stream -> C03 gained a fixed corpus of shape witnesses (tuple / union / list members of different minimum depth, both start-symbol kinds, both depth modes)",
    "C04-r2m1": "missed at first (decision tree explodes under the change, the set comparison was skipped) -> programs reached before the enumeration limit are still judged for membership; corpus grammar with refined list elements",
    "C04-r2m2": "missed at first -> nested abstract types in the full-creation family and a corpus grammar Expr -> Lit | Neg | BinOp, BinOp -> Add",
    "C06-r2m1": "missed at first (the aliasing only shows after the child has been mapped and mutated) -> C06 gained dSGE histories: create, map, cross, map, mutate x3, every step judged on snapshots",
    "C07-r2m1": "missed at first -> C07 maps genotypes of grammars with a production that raises SynthesisException in some contexts (backtracking grammars)",
    "C08-r2m2": "missed at first -> the C08 worker repeats runs in-process with a user-supplied tracker / default evaluator",
    "C11-r2m2": "missed at first (no model of expansion-depthing labels) -> Model/LabelsE.lean + Lemmas/LabelsE.lean + 9 theorems; building it exposed a genuine defect (fix eebb7e8)",
    "C12-r2m1": "missed at first (masked by the open finding's key) -> the key now distinguishes individuals that were handed to the tracker; pipelines ending in ElitismStep added",
    "C14-r2m2": "missed at first -> HC on the ParallelEvaluator with a call-counting fitness function",
    "C15-r2m2": "missed at first -> the same step OBJECT is applied again with other target sizes / populations",
    "C16-r2m2": "missed at first -> ParallelStep[..., ElitismStep] asked for fewer individuals than the population holds",
    "C18-r2m2": "missed at first -> two / three genotype-backed sources over equal genes alive at once (sequential, both created first, alternating)",
    "C20-r2m2": "reported at first only as a broken correspondence (no failing input) -> `prop_flags` predicate: a registration is flagged iff its aggregate beats every earlier one",
}


HISTORY_R3 = {
    "C02-r3m1": "missed at first (no refinement with TWO dependencies) -> new model constructor `depIntRangeSpan` (Dependent(\"w,lo\", ...) named in the opposite order of the fields) through Synth / Tree / WellTyped / Depth lemmas, used in the C02 sibling grammar",
    "C02-r3m2": "missed at first -> C02 runs the retargeted-annotation scenario too",
    "C03-r3m2": "missed at first (recursion limits in the hundreds were declared out of range) -> a fresh-interpreter worker creates under limits 150 / 320 (450) on frame-heavy chain grammars with every decider",
    "C04-r3m1": "missed at first -> C04 compares the first 120 decision sequences of every tree draw by draw with the model (range-sensitive scripts) and has a list-of-union recursion grammar; reported as a broken correspondence (no failing input)",
    "C04-r3m2": "missed at first -> retargeted grammar in C04",
    "C05-r3m2": "missed at first (each grammar was observed right after its own extraction) -> other grammars are extracted over the same classes (usable_grammar, other depth mode, subset) and the first one is observed again",
    "C06-r3m1": "missed at first -> crossover chains on concrete single-field start symbols that recur through single-child nodes (Block/Loop, Prog/Call)",
    "C07-r3m2": "missed at first -> a module-level grammar with a persistent WeightedStringHandler (numpy matrix), each genotype mapped three times; C18 also hands ONE weights list to several choice_weighted calls",
    "C08-r3m1": "missed at first -> searches on `usable_grammar()` in the cross-process battery",
    "C09-r3m1": "missed at first (a `map` step refreshed every snapshot) -> every live genotype is verified after each map / evaluate; dSGE sharing histories on a many-symbol grammar",
    "C09-r3m2": "missed at first -> NaN objectives in the lexicase populations",
    "C10-r3m2": "missed at first -> other grammars extracted over the same classes are guarded operations of the history",
    "C11-r3m1": "missed at first -> `ListSizeBetweenWithoutListOperations` in the generator and the C11 corpus",
    "C12-r3m1": "missed at first (masked by the open finding's key) -> the key now also distinguishes members of a generation that never reached the tracker",
    "C12-r3m2": "missed at first -> histories whose individuals were scored on another problem before",
    "C13-r3m1": "missed at first -> batches of 17..26 distinct individuals on the parallel evaluator",
    "C13-r3m2": "missed at first -> multi-objective fitness functions that fill and return one preallocated list",
    "C14-r3m1": "missed at first -> the budget SimpleGP builds is spied on for targets 0, 0.0, 40, -3.5, None",
    "C15-r3m1": "missed at first -> steps driven by the ParallelEvaluator on populations holding the same object twice",
    "C15-r3m2": "missed at first -> populations with NaN fitness (count only); exposed a genuine lexicase crash (fix 21ea529)",
    "C16-r3m1": "missed at first -> a multi-objective problem with ONE minimised objective and the default aggregate, direction predicate",
    "C16-r3m2": "missed at first -> 2..n/10 elites out of 20..60 individuals with ties",
    "C18-r3m1": "missed at first -> normalvariate / random_float in the same-genes stream comparison",
    "C18-r3m2": "reported at first only as a broken correspondence -> the special odd widths (1999, 1023, 1457, ...) with ALL (n, e, sign) draws give the out-of-bounds input",
    "C19-r3m1": "missed at first -> `@abstract` applied above `@weight` for half of the weighted abstract classes",
    "C20-r3m1": "missed at first -> first registered fitness inf / -inf / NaN under the real tracker with a best-only log",
}


HISTORY_R4 = {
    "C01-r4m1": "missed at first -> a user refinement that presets one field (`rec(base, initial_values=...)`) above a like-named field of another type; independent walk over the dataclass fields",
    "C02-r4m1": "missed at first -> integer refinements wider than a fresh dSGE gene, judged AFTER mutation / crossover in every representation",
    "C02-r4m2": "missed at first -> VarRange with non-string options on a str field (class labels)",
    "C03-r4m1": "missed at first -> a field re-declared with a type of another minimum depth on classes an earlier grammar used",
    "C04-r4m1": "missed at first -> every corpus grammar once more without one production while the full grammar exists beside it; the language enumerator runs under a time / memory cap",
    "C04-r4m2": "missed at first -> dependent-sibling grammar in the corpus; membership predicate also for grammars the enumerator does not list",
    "C05-r4m1": "missed at first -> zero weights among the weighted specs (reported as a broken correspondence)",
    "C05-r4m2": "missed at first -> chains / cycles of 150 abstract symbols",
    "C06-r4m1": "missed at first -> a start class that defines `__len__` (an empty program is falsy)",
    "C06-r4m2": "missed at first -> dSGE genes as large as mutation writes them",
    "C07-r4m1": "missed at first (the canonical form hides float values) -> re-mapping compares the float values too; fixed plain-float grammars",
    "C07-r4m2": "missed at first -> grammars with a history (used, re-declared, re-extracted) at level A and against identical fresh classes",
    "C08-r4m1": "missed at first -> the same seed on used-and-re-declared classes vs fresh classes",
    "C08-r4m2": "missed at first -> EMULATED MEMORY LAYOUTS: classes built with a metaclass whose hash the harness chooses, so the iteration order of sets of classes is permuted in-process",
    "C10-r4m1": "missed at first -> creatable set after the history: draw-by-draw against the model and against a grammar freshly extracted from the same classes",
    "C10-r4m2": "missed at first -> a refinement that sometimes asks for a class the grammar does not know",
    "C11-r4m1": "missed at first -> both crossover parents re-checked; concrete recursive start symbols",
    "C11-r4m2": "missed at first -> weighted / switched-off productions in expansion-depthing grammars",
    "C12-r4m1": "missed at first -> hill climbing on the parallel evaluator with real tree programs",
    "C13-r4m2": "missed at first -> batches reach the evaluators as lists, tuples and one-shot iterators",
    "C14-r4m2": "missed at first -> GP with an injected first generation larger than the population",
    "C15-r4m1": "missed at first -> initialisers on representations whose depth limit equals the grammar minimum (2, 3)",
    "C16-r4m1": "missed at first -> the same individuals under a problem that is dropped and a NEW problem of the opposite direction",
    "C16-r4m2": "missed at first -> infinite fitness values",
    "C17-r4m2": "missed at first -> long-lived step objects reused across problems",
    "C18-r4m1": "missed at first -> decimal (non-dyadic) weights with zero weights last, draws at the top of the range",
    "C18-r4m2": "missed at first -> negative genes in a dynamic-SGE genotype",
    "C19-r4m1": "missed at first (the stack chooser's own weights were taken as ground truth) -> they are compared with the grammar's weights",
    "C20-r4m1": "missed at first -> strict-improvement flags also for a one-objective problem built from a one-element list",
    "C20-r4m2": "missed at first -> individuals that carry a fitness for another, live problem",
}

HISTORY_R7 = {
    "C01-r7m1": "missed at first -> stack-mapped grammars whose tuples REPEAT a component type with another type in between (every position holds its declared type)",
    "C02-r7m1": "missed at first -> dependent refinements that hand a value DOWN to a child (initial_values), including 0 / empty / False",
    "C02-r7m2": "caught at first evaluation; string sizes 9..12 added to the size boxes all the same",
    "C03-r7m1": "caught at first evaluation; corpus extended with a failing production declared between a deeper one and the leaf",
    "C03-r7m2": "caught at first evaluation; corpus extended with nested plain lists (Row / Table / Grid)",
    "C04-r7m1": "missed at first -> two dependents of the SAME name with different functions (Down / Up); patch rebased onto 8bfa32c",
    "C04-r7m2": "missed at first -> mirror languages: two grammars that differ only in the order of a list field and its sibling reach the same programs",
    "C05-r7m2": "missed at first -> factory-made dataclasses that share one qualified name (real dataclasses through `reflect`)",
    "C06-r7m1": "missed at first -> dSGE gene lists of offspring must not be the parents' list objects; grammars keyed by refined unions",
    "C06-r7m2": "missed at first -> the crossover STEP over pairs that are one individual twice",
    "C07-r7m1": "missed at first -> `update_weights` between building a representation and mapping; a representation built before and one built after",
    "C07-r7m2": "caught at first evaluation; an unrelated `extract_grammar` between two mappings added as a scenario of its own",
    "C08-r7m1": "missed at first (twice) -> worker grammar with production weights on two abstract symbols, read by the stack mapping (plain int leaf so that stack programs exist)",
    "C08-r7m2": "missed at first -> 20 objectives under lexicase selection in the worker (algorithm `gplex`)",
    "C09-r7m1": "missed at first -> hand-written programs (no metadata, no parents) as inputs of the tree operators",
    "C09-r7m2": "missed at first -> variation steps on FRESH populations (never mapped, never evaluated): genotypes compared strictly",
    "C10-r7m1": "caught at first evaluation",
    "C10-r7m2": "missed at first -> weighted histories with switched-off (zero-weight) productions; zero weights in random weighted specs",
    "C12-r7m1": "missed at first -> compositions that evaluate in the LAST step, improving landscapes: what the last step evaluated must be reported",
    "C13-r7m2": "missed at first -> problems whose aggregate is a criterion of the PROGRAM (kind `criteria`), multi-bool corpus under the parallel evaluator",
    "C14-r7m1": "missed at first -> parallel steps whose rounded slice shares overshoot the population (trailing weight 0 or tiny), sizes 3 / 7 / 2",
    "C15-r7m2": "missed at first -> time budgets on a deterministic clock: a generation is never cut short",
    "C16-r7m2": "missed at first -> problems that declare BOTH a user aggregate and a best-individual criterion (kind `multi-both`)",
    "C17-r7m1": "missed at first -> one-objective MINIMISED multi-objective problems in tournaments, judged by the declared direction",
    "C18-r7m1": "missed at first -> narrow ranges next to bounds whose nearest float is a power of two",
    "C19-r7m1": "missed at first -> Union fields with a zero-weight member in whole generated programs",
    "C19-r7m2": "missed at first -> start symbols nested under further abstract ancestors: every rule on the way is normalised",
    "C20-r7m1": "missed at first -> one tracker and its best-only log through several searches",
    "C20-r7m2": "missed at first -> individuals registered again later under a fitness function that fills and returns one preallocated list",
}

HISTORY_R8 = {
    "C01-r8m1": "missed at first -> searches warm-started from individuals of ANOTHER representation object (raw programs, own individuals, foreign individuals, a mixture)",
    "C01-r8m2": "missed at first -> a handed-down value whose field is declared AFTER a generated field of another type (levels grammar: LTail)",
    "C02-r8m1": "missed at first -> values handed down are not meant for same-named fields of productions further down (levels grammar: LBox / LCoin)",
    "C04-r8m1": "missed at first -> windows (IntervalRange) in the language corpus: every admissible window is reachable",
    "C05-r8m1": "missed at first -> productions written as plain classes in the corpus of real classes, independent supplied-production oracle; the unchanged usable_grammar() failed on them (fixed: 2f7ccb8)",
    "C07-r8m1": "first detected only as a broken correspondence (no failing input) -> a dynamic-SGE genotype is mapped again after its offspring were made and mapped",
    "C08-r8m1": "missed at first -> a warm start from ONE list of seed programs handed to every run of the worker",
    "C08-r8m2": "missed at first -> ONE grammar object through several searches, a grammar with a production that fails in some contexts",
    "C09-r8m1": "missed at first -> a multi-objective fitness function that fills and returns one preallocated list of floats, steps on partly evaluated pools",
    "C10-r8m1": "missed at first -> Union alternatives that WRAP a recursive symbol (list, bounded list, tuple) in the corpus",
    "C10-r8m2": "missed at first -> the binding-context language with a two-level hierarchy (every direct production of the body type is abstract), context handed down through initial_values",
    "C11-r8m1": "missed at first -> programs that hold CLASSES of the grammar as plain values; the unchanged library mislabelled ABC-derived ones (fixed: 8365b1f); patch rebased onto the fix",
    "C11-r8m2": "missed at first -> deciders built from ANOTHER grammar object over the same classes (other depth mode, usable sub-grammar)",
    "C12-r8m1": "missed at first -> one tracker through several searches (warm start, the same algorithm object twice, individuals evaluated before the search)",
    "C12-r8m2": "missed at first -> multi-objective problems declared with ONE bool that says maximise",
    "C13-r8m1": "missed at first -> production weights learnt between two generations (GE / SGE with the weight-aware decider)",
    "C14-r8m1": "missed at first -> random search, (1+1) and GP on the parallel evaluator",
    "C14-r8m2": "missed at first -> searches over real trees of grammars whose smallest program is three levels deep (initialisers start at depth 1)",
    "C15-r8m2": "missed at first -> the adaptive steps (feedback-weighted parallel step, adaptive mutation / crossover) yield what they are asked for",
    "C16-r8m1": "missed at first -> evaluation budgets that end in the middle of a generation, elitism as the LAST slice, a fitness of many values",
    "C16-r8m2": "missed at first -> one-bool multi-objective problems (maximise / minimise all) under elitism",
    "C17-r8m1": "missed at first -> tournaments over real labelled trees of different depths with fitness values of the order of 1e-26",
    "C17-r8m2": "missed at first -> epsilon-lexicase on pools with missing (NaN) objectives, judged along the case order the event drew",
    "C18-r8m1": "missed at first -> pop_random on lists of 256..1000 elements, draws at both ends",
    "C18-r8m2": "missed at first -> every kind of seed random.Random accepts (int, float, str, bytes) in several interpreter processes",
    "C19-r8m2": "missed at first -> weighted nested abstract types that are deeper than every concrete class (expansion depthing) beside a switched-off production",
    "C20-r8m1": "missed at first -> logs of 11, 12 and 26 objectives with the default columns",
}

HISTORY_R9 = {
    "C01-r9m1": "missed at first -> ranking freshly created (never mapped) individuals through the public Individual.key_function",
    "C01-r9m2": "missed at first -> variation of programs 700 levels deep, in a fresh interpreter that only imports the library",
    "C02-r9m1": "missed at first -> FloatList written with int literals (as the shipped classification example does): validate accepts what generate returns",
    "C02-r9m2": "missed at first -> derivations of thousands of decisions mapped from genomes of three to five genes",
    "C03-r9m2": "first detected only as a broken correspondence (no failing input)",
    "C04-r9m1": "missed at first -> grammars whose only shallow production can fail: whatever creation returns is inside the bounded language",
    "C04-r9m2": "missed at first -> a production switched off by its weight in the language corpus (grow still reaches it)",
    "C05-r9m1": "missed at first -> a symbol mentioned only by a Union with a base type in a production of minimum depth 1",
    "C05-r9m2": "missed at first -> ONE list of classes handed to several extractions with different start symbols",
    "C06-r9m1": "missed at first -> stack parents of different genome lengths (256 .. 700 genes)",
    "C06-r9m2": "missed at first -> a GE genotype longer than the genome of the representation object that mutates it",
    "C07-r9m1": "missed at first -> read-only calls between two mappings (repr of the grammar, str of every symbol, a structured-GE genotype created): evtgrammar.py, option lists not in ascending order, productions with docstrings",
    "C07-r9m2": "missed at first -> grammar.get_grammar_properties_summary() between two mappings, an abstract class below an abstract class",
    "C08-r9m1": "missed at first -> ONE multi-objective problem object declared with one bool, handed to every run of the worker",
    "C08-r9m2": "missed at first -> the weighted-string grammar (a refinement object with a numpy matrix that lives as long as the process) in the worker",
    "C09-r9m1": "missed at first -> parents stay unevaluated when their OFFSPRING are evaluated (fresh populations, a second problem)",
    "C09-r9m2": "missed at first -> populations of hand-written programs under steps that evaluate and select",
    "C10-r9m2": "missed at first -> a whole SimpleGP search on a weighted grammar whose start symbol has an unreachable sibling",
    "C11-r9m1": "missed at first -> the type index of the root judged by object IDENTITY (strangers listed, own nodes missing)",
    "C12-r9m1": "not detected until round 10 (the event needs a new best inside an evaluated tail that a shrinking population drops: 3 of ~160 seeded runs) -> check_adaptive_gp compares the tracker's best with the evaluation log at EVERY budget check, on landscapes where records keep coming, and when an evaluated program never reached the tracker it replays the same run with that program made the best of all",
    "C12-r9m2": "missed at first -> a user aggregate judged by the declaration (the first component), exactly 0 included",
    "C13-r9m1": "missed at first -> the problems the SimpleGP wrapper builds for every form of `minimize`",
    "C14-r9m1": "missed at first -> SimpleGP with a target that is never reached: the evaluation budget ends the search",
    "C15-r9m1": "missed at first -> ONE step object standing at several places of a composition",
    "C16-r9m1": "first detected only as a broken correspondence (no failing input): the elitism slot itself had disappeared from the ranges",
    "C16-r9m2": "missed at first -> noisy fitness functions: an elite enters the next generation with the fitness it was selected on",
    "C17-r9m1": "missed at first -> infinitely good values (+inf maximised, -inf minimised) under lexicase",
    "C17-r9m2": "missed at first -> unevaluated pools of programs whose __str__ does not tell them apart",
    "C18-r9m1": "first detected only as a broken correspondence -> the zero-weight fall-back is now also checked for same-seed determinism",
    "C18-r9m2": "missed at first -> sources created without a seed argument",
    "C19-r9m2": "missed at first -> two different abstract types with the SAME class name in one grammar",
    "C20-r9m2": "missed at first -> an explicitly empty `fields` dictionary",
}


HISTORY_R10 = {
    "C01-r10m1": "missed at first -> a Dependent with several dependencies of different types, named in another order than the fields are declared (ctxgrammar.units_grammar)",
    "C01-r10m2": "missed at first -> an abstract class that declares a constructor and has no production in the grammar (gram.build now gives abstract classes their fields)",
    "C02-r10m1": "missed at first -> the refinement's OWN operators: StringSizeBetween.mutate / crossover for every bound pair (equal bounds included), every current string, every draw",
    "C02-r10m2": "missed at first -> every draw at and around every boundary of the accumulated weights of a WeightedStringHandler row, rows whose first letters have probability 0",
    "C03-r10m2": "missed at first -> Unions of a wrapped grammar type (list / bounded list / tuple of a symbol) and a plain value in the depth corpus",
    "C04-r10m2": "first detected only as a broken correspondence (no failing input)",
    "C05-r10m1": "missed at first -> a production with a builtin as second base (class Ident(Node, str)) in dcgrammar",
    "C05-r10m2": "missed at first -> a field-less node class derived from a builtin value type (class Tok(str)) in dcgrammar",
    "C06-r10m1": "first detected only as a broken correspondence (no failing input)",
    "C07-r10m1": "the check did not return at first (the failure allowance doubled with every failed mapping) -> tight stack budgets (three interleaved rounds over genomes most of which do not map) run first, and every check runs under a wall-clock allowance",
    "C08-r10m1": "missed at first -> named (str) seeds in the cross-process battery",
    "C08-r10m2": "missed at first -> a grammar from the library's own seeded generator (synthetic_grammar.create_arbitrary_grammar) in the cross-process battery",
    "C09-r10m1": "missed at first -> parents whose genome was made with another gene_length (GE / SGE / stack) come out of mutation and crossover as they went in",
    "C09-r10m2": "missed at first -> the public ranking helpers (problems.helpers.sort_population / best_individual / is_better) leave the list they are given in order",
    "C10-r10m1": "missed at first -> the parameters of the refinement objects are part of the grammar snapshot; a production whose refinement admits no value (IntRange(5, 2))",
    "C10-r10m2": "missed at first -> the declaration list of the geml regressors (geml.grammars.symbolic_regression.components) before and after a fit",
    "C11-r10m1": "missed at first -> productions that INHERIT their constructor from an abstract dataclass (dcgrammar.InputVar)",
    "C12-r10m1": "missed at first -> fitness functions that return their components as a tuple, a numpy array or a one-shot generator",
    "C12-r10m2": "missed at first -> a budget that is already spent when the search starts (the same object searched twice, a search after a warm start)",
    "C13-r10m1": "missed at first -> component shapes (generator, tuple, array) in the aggregate check",
    "C13-r10m2": "missed at first -> a fitness function reading module-level data that is replaced between batches of different sizes, parallel vs sequential, in a fresh interpreter",
    "C14-r10m1": "missed at first -> a ParallelStep that is not the outermost step (its input is a one-shot stream)",
    "C14-r10m2": "missed at first -> an ExclusiveParallelStep one of whose shares rounds to nothing",
    "C15-r10m2": "missed at first -> a Population object read before (counted, looped over, handed to a step) and handed to a step again",
    "C16-r10m1": "first detected only as a broken correspondence (no failing input)",
    "C17-r10m1": "missed at first -> twins: distinct individuals with equal genotypes under lexicase selection",
    "C17-r10m2": "missed at first -> pools of 33 to 80 individuals through the lexicase model",
    "C18-r10m1": "missed at first -> ranges wider than the platform integer with genes outside [0, sys.maxsize]",
    "C19-r10m2": "missed at first -> the extracted grammar's rules still list their productions (weights sum to one) AFTER programs were built from it",
    "C20-r10m2": "missed at first -> a NaN first fitness: no later row is an improvement",
}


HISTORY_R11 = {
    "C01-r11m1": "missed at first -> a Union one of whose alternatives is refined by a Dependent on an earlier sibling; creation that fails with a foreign error on the units grammar is reported",
    "C01-r11m2": "missed at first -> a refined slot of an ABSTRACT type (Annotated[Op, VarRange([Add(), Sub()])]) in a grammar extracted with expansion_depthing=True",
    "C02-r11m1": "missed at first -> FloatRange with int bounds beyond 2**53 (and equal / one-ulp bounds) generated from every genotype-backed source at the genes that select the ends of the range",
    "C03-r11m1": "first detected only as a broken correspondence (no failing input); the deep-nested-layer witnesses added for C03-r11m2 now give a failing input too",
    "C03-r11m2": "missed at first -> a recursive nested abstract layer whose shallowest production needs three levels, beside a leaf",
    "C04-r11m1": "missed at first -> programs created from g.usable_grammar() of grammars with abstract alternatives of abstract types that no field mentions",
    "C04-r11m2": "missed at first -> the weighted-string grammar (all-zero row) under the three deciders: strings keep one letter per row",
    "C05-r11m1": "first detected only as a broken correspondence (no failing input)",
    "C05-r11m2": "missed at first -> recursion cycles through 3 to 40 CONCRETE classes and no abstract type, declared out of cycle order",
    "C06-r11m1": "missed at first -> the crossover step asked for more offspring than the population can pair (populations of 1 to 5)",
    "C06-r11m2": "missed at first -> genomes that hold the same value at several loci",
    "C08-r11m1": "missed at first -> one process environment runs with the library's loggers at DEBUG; crossover followed at once by mutation under dynamic SGE",
    "C08-r11m2": "missed at first -> the weighted grammar under representations that pick a production by its index (tree, GE, SGE, PI-grow)",
    "C09-r11m1": "missed at first -> programs that hold classes of the grammar as field values: nothing is written onto the class objects",
    "C09-r11m2": "missed at first -> AdaptiveGeneticProgramming runs with every registered individual snapshotted and revalidated",
    "C10-r11m2": "missed at first -> entries of the minimum-depth table for anything that is not a registered symbol are part of the grammar snapshot",
    "C11-r11m2": "missed at first -> the stack representation on a concrete start symbol that needs a list of an abstract element type, both depth modes",
    "C12-r11m1": "missed at first -> geml.common.PopulationRecorder: its head is the tracker's best, also after more improvements than it has slots",
    "C12-r11m2": "missed at first -> real tree programs (with size metadata) under a coarse fitness: a tie is no improvement",
    "C13-r11m1": "missed at first -> newcomers presented to the parallel evaluator ONE AT A TIME with the shared random source moving on in between (dynamic SGE)",
    "C13-r11m2": "missed at first -> AdaptiveGeneticProgramming: evaluation counter == fitness-function invocations, nobody evaluated twice",
    "C14-r11m2": "missed at first -> ONE step object serving several searches with different population sizes, the larger first",
    "C15-r11m1": "missed at first -> target sizes 256 .. 1000 for every step",
    "C17-r11m1": "missed at first -> 13 to 20 cases on which near-clones differ in one or two (the model's existential over case orders is asked up to 6 cases; beyond, the drawn order decides)",
    "C19-r11m1": "missed at first -> the weights an extracted grammar reports are unchanged by g.usable_grammar(), productions of infinite distance included",
    "C20-r11m1": "missed at first -> a problem whose author overrides is_better (lexicographic): the best-only log follows THAT order",
    "C20-r11m2": "missed at first -> SimpleGP extra columns over programs whose __str__ does not tell them apart",
}


HISTORY_R12 = {
    "C01-r12m1": "missed at first -> a grammar with bounded lists that generate their own elements (ListSizeBetweenWithoutListOperations) beside a WeightedStringHandler field: foreign errors are reported",
    "C01-r12m2": "missed at first -> the same grammar: an all-zero row of the probability matrix (the chooser's uniform fall-back)",
    "C02-r12m1": "missed at first -> genomes most of whose genes sit at the top / bottom of the gene range, through GE and the stack representation",
    "C04-r12m1": "missed at first -> integer ranges wider than a thousand values: every value is produced by some draw",
    "C04-r12m2": "missed at first -> after creations in which a production failed, the grammar's rules still list every production",
    "C07-r12m2": "missed at first -> a Dependent on (a bool, a node): genotypes mapped in one order and again in another (ctxgrammar.registers_grammar)",
    "C08-r12m1": "missed at first -> sources created without a seed argument in the cross-process battery",
    "C08-r12m2": "missed at first -> a grammar with StringSizeBetween over an alphabet of characters in the cross-process battery",
    "C09-r12m1": "missed at first -> a fitness function with transient failures (NaN the first time): cached NaN values stay what they are under steps that evaluate their input",
    "C10-r12m1": "missed at first -> a start symbol in the middle of a hierarchy (rules that cannot be reached from it) under the read-only usable_grammar() guard",
    "C11-r12m2": "missed at first -> the ORDER of the root's type index (the order a traversal meets the nodes)",
    "C12-r12m1": "missed at first -> a single-objective tracker over a problem with several components whose aggregates tie",
    "C13-r12m1": "first detected only as a broken correspondence (no failing input): directions re-declared after construction were added to the aggregate lines",
    "C13-r12m2": "missed at first -> NaN / inf fitness values: the counter equals the number of invocations",
    "C14-r12m2": "missed at first (the search never returns) -> lexicase GP searches on a problem with NaN objectives in a fresh interpreter under a time limit",
    "C16-r12m1": "missed at first -> ElitismStep over UNEVALUATED individuals whose genotypes all print alike",
    "C16-r12m2": "missed at first -> fitness functions that return numpy scalars (float32, int64, unsigned): a perfect 0 under minimisation",
    "C18-r12m1": "the harness tripped over the raising primitive at first -> every draw of the stream comparison is total, and a primitive that raises for valid arguments is reported",
    "C19-r12m1": "the harness tripped over the shorter weights table at first -> the table is read tolerantly (non-productions default to their declared weight); parentless classes as members of a Union, one switched off",
    "C20-r12m1": "missed at first -> registrations through ProgressTracker.evaluate_single (what Population uses) of individuals that already carry a fitness",
}


HISTORY_R13 = {
    "C09-r13m1": "missed at first -> a stateful fitness function whose first value is exactly 0.0 for some programs (and the snapshots read the fitness store itself, not has_fitness)",
    "C12-r13m2": "missed at first -> the direction of a single-objective problem given as a numpy bool",
    "C13-r13m1": "missed at first -> the aggregate recorded for infinite fitness values is the signed value itself",
    "C14-r13m2": "missed at first -> budgets that the initial population already exhausts, with every shipped initialiser and odd population sizes",
    "C16-r13m1": "missed at first -> AdaptiveGeneticProgramming: the best fitness of a generation is not worse than that of the generation before",
    "C20-r13m1": "missed at first -> a recorder opened on a path that already holds the log of an earlier run",
    "C20-r13m2": "missed at first -> the same individual object twice in one batch, all-rows mode",
}


def main():
    old = (VERIF / "seeded/INDEX.md").read_text() if (VERIF / "seeded/INDEX.md").exists() else ""
    hist = {}
    for line in old.splitlines():
        m = re.match(r"\| (C\d\d-\w+) \|.*\| ([^|]*) \|$", line)
        if m:
            hist[m.group(1)] = m.group(2).strip()
    hist.update(HISTORY_R2)
    hist.update(HISTORY_R3)
    hist.update(HISTORY_R4)
    hist.update(HISTORY_R5)
    hist.update(HISTORY_R6)
    hist.update(HISTORY_R7)
    hist.update(HISTORY_R8)
    hist.update(HISTORY_R9)
    hist.update(HISTORY_R10)
    hist.update(HISTORY_R11)
    hist.update(HISTORY_R12)
    hist.update(HISTORY_R13)
    rows, caught, neutralised = [], 0, []
    dirs = sorted(p for p in (VERIF / "seeded").iterdir() if p.is_dir())
    for d in dirs:
        meta = json.loads((d / "meta.json").read_text())
        prop = meta.get("breaks_property") or meta.get("property")
        notes = (d / "notes.md").read_text().strip().splitlines() if (d / "notes.md").exists() else [""]
        what = notes[0].lstrip("# ").strip()[:110]
        chk = (meta.get("what_was_run", {}).get("checks") or meta.get("checks") or {}).get(prop, {})
        ok = prop in (meta.get("caught_by") or [])
        neutral = meta.get("neutralised_by_fix")
        if neutral:
            # a later fix: commit in /repo removed the mechanism this change relied on: with the change applied to HEAD the property holds
            # (the author's demo passes), and the check -- rightly -- reports nothing
            neutralised.append(d.name)
            rows.append(f"| {d.name} | {prop} | {what} | n/a on HEAD | (detected when it was stored) | no longer breaks the property since fix {neutral}: its demo passes with the change applied; the check reports nothing |")
            continue
        caught += ok
        rows.append(f"| {d.name} | {prop} | {what} | {'yes' if ok else 'NO'} | {chk.get('first', '')[:150].replace('|', '/')} | {hist.get(d.name, FIRST)} |")
    n = len(dirs) - len(neutralised)
    def rn(k):
        return sum(1 for d in dirs if f"-r{k}m" in d.name)
    r1 = sum(1 for d in dirs if "-r" not in d.name)
    out = f"""# Seeded changes (by fresh sub-agents that saw only one property's text)

Each directory holds `patch.diff` (apply with `git apply` in a checkout of /repo), `demo.py` (exit 0 / PASS on the unchanged library,
exit 1 / FAIL with the change; `PYTHONPATH=<checkout> /venv/bin/python demo.py`), the author's `notes.md` and `meta.json` (what it needs to manifest,
what was run, which checks catch it).  None of these changes is ever applied to /repo; `harness/tools/seed_eval.py` / `mutant_run.sh` run the checks
against scratch copies (`VERIF_REPO`).  All {n} changes keep the repository's fast test subset green (the authors also ran the slow parts touching their files).
Round 1: {r1} changes (`Cxx-mK`); round 2: {rn(2)} changes (`Cxx-r2mK`), whose authors were asked to look beyond the obvious function;
round 3: {rn(3)} changes (`Cxx-r3mK`), whose authors were told that a randomised differential test on small inputs exists and asked for
rarely used library features, narrow triggers and state carried between calls; round 4: {rn(4)} changes (`Cxx-r4mK`), same brief plus the list of
everything tried before for that property ("find something genuinely different"); rounds 5 to 13: {rn(5)}, {rn(6)}, {rn(7)}, {rn(8)}, {rn(9)}, {rn(10)}, {rn(11)}, {rn(12)} and {rn(13)} changes
(`Cxx-r5mK` ... `Cxx-r13mK`; round 13 covered ten properties), same brief, each with the ideas of all earlier rounds listed as already tried.

**{caught} of {n} are detected by the quick check of the property they break** ({len(neutralised)} more were made harmless by later `fix:` commits in /repo and are listed as n/a) (the `history` column says which were missed on their first evaluation and what was strengthened).

| change | property | what | caught by its property's check | first line of the report | history |
|---|---|---|---|---|---|
""" + "\n".join(rows) + "\n"
    (VERIF / "seeded/INDEX.md").write_text(out)
    print(f"{caught}/{n}")


if __name__ == "__main__":
    main()
