#!/bin/bash
# usage: mutant_run.sh <patch-file | -R commit [commit...]> -- Cxx [Cyy...]
# Applies a change to a scratch copy of /repo (never to /repo itself), runs the given checks against
# the copy (VERIF_REPO), prints one line per check with its exit code, removes the copy.
set -u
D=$(mktemp -d /tmp/mutant.XXXXXX)
git -C /repo archive HEAD | tar -x -C "$D"
mode=patch
while [ $# -gt 0 ] && [ "$1" != "--" ]; do
  if [ "$1" = "-R" ]; then mode=revert; shift; continue; fi
  if [ "$mode" = "revert" ]; then
    git -C /repo show "$1" | (cd "$D" && patch -R -p1 -s) || { echo "cannot reverse-apply $1"; rm -rf "$D"; exit 3; }
  else
    (cd "$D" && patch -p1 -s < "$1") || { echo "cannot apply $1"; rm -rf "$D"; exit 3; }
  fi
  shift
done
shift
E=$(mktemp -d /tmp/mutant-ev.XXXXXX)
for c in "$@"; do
  out=$(cd /verif && VERIF_REPO="$D" VERIF_EVIDENCE_DIR="$E" VERIF_REPLAYS_DIR="$E" /venv/bin/python harness/check.py "$c" 2>&1 | grep -v "WARNING conda")
  rc=${PIPESTATUS[0]}
  echo "== $c exit=$(echo "$out" | grep -c '^VIOLATION') violations; last: $(echo "$out" | tail -1)"
  echo "$out" | grep -A1 "^VIOLATION" | head -6
done
rm -rf "$D" "$E"
