#!/usr/bin/env python3
"""seed_eval.py <PROP> [--checks C01,C02] : evaluate the seeded changes of /tmp/seed/<PROP>_out.

For each mut<k>.diff: (1) the demonstration must PASS on an unchanged copy of /repo HEAD and FAIL
on a copy with the change; (2) the fast part of the test suite must stay green with the change;
(3) the property's check (plus any extra checks given) is run against the changed copy.  Confirmed
changes are stored under /verif/seeded/<PROP>-m<k>/ (patch.diff, demo.py, notes.md, meta.json)."""
import json
import shutil
import subprocess
import sys
import tempfile
from pathlib import Path

VERIF = Path(__file__).resolve().parents[2]
FAST_TESTS = ["tests/core", "tests/representations/tree_based", "tests/representations/ge", "tests/representations/stack",
              "tests/representations/dependent_types_test.py", "tests/representations/dependent_types_context_test.py",
              "tests/gp/type_safety_test.py", "tests/gp/immutability_test.py", "tests/gp/budget_test.py", "tests/gp/csv_test.py",
              "tests/gp/probabilistic_test.py", "tests/gp/unknown_objectives_test.py", "tests/gp/precache_test.py"]


def sh(cmd, cwd=None, env=None, timeout=3000):
    import os
    e = dict(os.environ)
    e.update(env or {})
    return subprocess.run(cmd, cwd=cwd, env=e, capture_output=True, text=True, timeout=timeout)


def copy_repo():
    d = Path(tempfile.mkdtemp(prefix="seedeval."))
    subprocess.run(f"git -C /repo archive HEAD | tar -x -C {d}", shell=True, check=True)
    return d


def main():
    prop = sys.argv[1]
    extra = []
    if "--checks" in sys.argv:
        extra = sys.argv[sys.argv.index("--checks") + 1].split(",")
    run_tests = "--no-tests" not in sys.argv
    base = sys.argv[sys.argv.index("--dir") + 1] if "--dir" in sys.argv else "/tmp/seed"
    tag = sys.argv[sys.argv.index("--tag") + 1] if "--tag" in sys.argv else ""
    out = Path(f"{base}/{prop}_out")
    for diff in sorted(out.glob("mut*.diff")):
        k = diff.stem[3:]
        demo = out / f"mut{k}_demo.py"
        notes = out / f"mut{k}.md"
        res = {"property": prop, "mutant": f"{prop}-{tag}m{k}", "repo_head": sh(["git", "-C", "/repo", "rev-parse", "--short", "HEAD"]).stdout.strip()}
        clean, mutated = copy_repo(), copy_repo()
        try:
            ap = sh(["git", "apply", "--whitespace=nowarn", str(diff)], cwd=mutated)
            if ap.returncode != 0:
                ap = sh(["patch", "-p1", "-s", "-i", str(diff)], cwd=mutated)
            res["applies"] = ap.returncode == 0
            if not res["applies"]:
                print(f"{prop}-{tag}m{k}: patch does not apply: {ap.stderr[:200]}")
                continue
            d_clean = sh(["/venv/bin/python", str(demo)], env={"PYTHONPATH": str(clean)}, timeout=900)
            d_mut = sh(["/venv/bin/python", str(demo)], env={"PYTHONPATH": str(mutated)}, timeout=900)
            res["demo_clean_exit"], res["demo_mutated_exit"] = d_clean.returncode, d_mut.returncode
            res["demo_mutated_output"] = (d_mut.stdout + d_mut.stderr).strip()[-400:]
            res["demo_confirms"] = d_clean.returncode == 0 and d_mut.returncode != 0
            if run_tests:
                t = sh(["/venv/bin/python", "-m", "pytest", "-q", "-p", "no:cacheprovider", "-x"] + FAST_TESTS, cwd=mutated,
                       env={"PYTHONPATH": str(mutated)}, timeout=2400)
                res["fast_tests_pass"] = t.returncode == 0
                res["fast_tests_tail"] = t.stdout.strip().splitlines()[-1] if t.stdout.strip() else ""
            checks = [prop] + [c for c in extra if c != prop]
            res["checks"] = {}
            ev = tempfile.mkdtemp(prefix="seedeval-ev.")
            for c in checks:
                r = sh(["/venv/bin/python", "harness/check.py", c], cwd=VERIF,
                       env={"VERIF_REPO": str(mutated), "VERIF_EVIDENCE_DIR": ev, "VERIF_REPLAYS_DIR": ev}, timeout=3000)
                lines = [l for l in r.stdout.splitlines() if not l.startswith("KNOWN-FINDING")]
                viol = [l for l in lines if l.startswith("VIOLATION")]
                first = next((l.strip() for l in lines if l.startswith("  ")), "")
                res["checks"][c] = {"exit": r.returncode, "violations": len(viol), "first": first[:300], "nfif": any("no-failing-input-found" in v for v in viol)}
            shutil.rmtree(ev, ignore_errors=True)
            caught = [c for c, v in res["checks"].items() if v["exit"] == 1]
            res["caught_by"] = caught
            print(f"{prop}-{tag}m{k}: demo_confirms={res['demo_confirms']} tests={res.get('fast_tests_pass')} caught_by={caught} "
                  f":: {res['checks'][prop]['first'][:160]}")
            if res["demo_confirms"]:
                dest = VERIF / "seeded" / f"{prop}-{tag}m{k}"
                dest.mkdir(parents=True, exist_ok=True)
                shutil.copy(diff, dest / "patch.diff")
                shutil.copy(demo, dest / "demo.py")
                if notes.exists():
                    shutil.copy(notes, dest / "notes.md")
                prev = {}
                if (dest / "meta.json").exists():
                    try:
                        prev = json.loads((dest / "meta.json").read_text())
                    except Exception:  # noqa: BLE001
                        prev = {}
                if not run_tests and prev.get("what_was_run", {}).get("fast_tests") not in (None, "not run"):
                    res["fast_tests_tail"] = prev["what_was_run"]["fast_tests"]
                meta = {"breaks_property": prop, "needs_to_manifest": (notes.read_text()[:1500] if notes.exists() else ""),
                        "what_was_run": {"demo": f"PYTHONPATH=<checkout> /venv/bin/python demo.py (exit {res['demo_clean_exit']} unchanged, {res['demo_mutated_exit']} changed)",
                                         "fast_tests": res.get("fast_tests_tail", "not run"),
                                         "checks": res["checks"]},
                        "caught_by": caught, "repo_head": res["repo_head"]}
                (dest / "meta.json").write_text(json.dumps(meta, indent=1))
        finally:
            shutil.rmtree(clean, ignore_errors=True)
            shutil.rmtree(mutated, ignore_errors=True)


if __name__ == "__main__":
    main()
