"""C05 -- grammar analysis is exact: productions, minimum depths, recursion, reachability.

Implementation: `extract_grammar` / `Grammar.usable_grammar` on generated class hierarchies and
on the grammars shipped in geml.grammars.  Model: lean/GEVerif/Model/Grammar.lean.
"""
from __future__ import annotations

import importlib
import inspect
import pkgutil
import warnings
from abc import ABC

import gram
from core import Harness, sx
from gram import Built, Spec

RULE = ("generated class hierarchies (root + nested abstract classes, productions with base / list / tuple / union / "
        "annotated fields, unreachable classes, self and mutual recursion; 75% biased to productive grammars; both "
        "depth-counting modes) and every grammar module shipped in geml.grammars converted by the harness's own "
        "reflection; non-trivial = at least one abstract class with >= 2 productions or a recursive symbol; distinct = distinct spec")
ASSUMPTIONS = [
    "typing introspection (get_type_hints, __mro__, __origin__) used by the library to read class declarations is trusted; the harness builds the classes from the spec and the model reads the spec",
    "single inheritance only (mro()[1] is the parent)",
]

BASE = {int: "int", float: "float", str: "str", bool: "bool"}


def sym_of(b: Built, t):
    if t in BASE:
        return BASE[t]
    if t in b.index:
        return ["cls", b.index[t]]
    return None


def sym_key(s):
    if isinstance(s, str):
        return ["int", "float", "str", "bool"].index(s)
    return 4 + s[1]


def syms(b: Built, ts):
    out = [sym_of(b, t) for t in ts]
    if any(o is None for o in out):
        return None
    return sorted(out, key=sym_key)


def observe(b: Built, g):
    alts = sorted(([b.index[p], [b.index[c] for c in cs]] for p, cs in g.alternatives.items()), key=lambda x: x[0])
    dist = sorted(([sym_of(b, s), g.distanceToTerminal[s]] for s in g.all_nodes), key=lambda x: sym_key(x[0]))
    return alts, dist


def check_spec(h: Harness, site: str, spec: Spec, b: Built, usable: bool = True, exact: bool = True):
    line_spec = gram.spec_sx(spec)
    try:
        with warnings.catch_warnings():
            warnings.simplefilter("ignore")
            g = b.extract()
    except Exception as e:  # noqa: BLE001
        kind = gram.err_kind(e)
        # the only extraction error the model knows: an alternative registered on a non-abstract class
        h.agree(site, ["analyse_error", line_spec], True)
        h.count("extract-error:" + kind)
        return None
    unknown = [s_ for s_ in g.all_nodes if sym_of(b, s_) is None]
    if unknown:
        # a symbol that is neither one of the supplied classes (or their ancestors), nor a class a constructor parameter mentions
        h.fail(site, "symbol-outside-the-grammar", f"the extracted grammar contains the symbols {sorted(map(str, unknown))}, which no constructor "
               f"parameter of the supplied classes mentions: {sx(line_spec)}", sx(line_spec))
        return g
    alts, dist = observe(b, g)
    # independent of the model: every supplied class that derives (through its chain of first bases) from the start symbol is
    # a production of its direct parent
    listed = {p: set(cs) for p, cs in alts}
    for i in spec.considered:
        chain, j = [], i
        while j is not None and j not in chain:
            chain.append(j)
            j = spec.classes[j].parent
        if i != spec.start and spec.start in chain and spec.classes[i].parent is not None:
            par = spec.classes[i].parent
            if i not in listed.get(par, set()):
                h.fail(site, "supplied-production-missing",
                       f"class {spec.classes[i].name} was supplied, derives from the start symbol and has the direct parent {spec.classes[par].name}, "
                       f"but the grammar lists the productions {[spec.classes[c].name for c in sorted(listed.get(par, set()))]} for "
                       f"{spec.classes[par].name}: {sx(line_spec)}", sx(line_spec))
                break
    rec = syms(b, g.recursive_prods)
    term = syms(b, g.terminals)
    nonterm = syms(b, g.non_terminals)
    us = None
    if usable:
        try:
            with warnings.catch_warnings():
                warnings.simplefilter("ignore")
                g2 = g.usable_grammar()
            us = sorted(b.index[c] for c in g2.all_nodes if c in b.index)
        except Exception as e:  # noqa: BLE001
            h.fail("Grammar.usable_grammar", "raises", f"usable_grammar() raised {type(e).__name__} on {sx(line_spec)}", sx(line_spec))
    # other grammars over the same classes come into being (the usable sub-grammar above; the same classes in the OTHER
    # depth-counting mode; a proper subset of the productions): what `g` reports must not move
    try:
        from geneticengine.grammar.grammar import extract_grammar
        with warnings.catch_warnings():
            warnings.simplefilter("ignore")
            extract_grammar(b.considered(), b.start, not spec.expansion)
            if len(b.considered()) > 1:
                extract_grammar(b.considered()[1:], b.start, spec.expansion)
    except Exception:  # noqa: BLE001
        pass
    alts_again, dist_again = observe(b, g)
    if (alts_again, dist_again, syms(b, g.recursive_prods)) != (alts, dist, rec):
        what = "distanceToTerminal" if dist_again != dist else ("alternatives" if alts_again != alts else "recursive_prods")
        h.fail(site, "analysis-changed-by-another-grammar",
               f"after other grammars were extracted over the same classes (usable_grammar(), the other depth mode, a subset), {what} of the "
               f"first grammar changed: {dist if what == 'distanceToTerminal' else alts} -> {dist_again if what == 'distanceToTerminal' else alts_again}",
               sx(line_spec))
    nontrivial = any(len(cs) >= 2 for _, cs in alts) or bool(rec)
    obs = [["error", False], ["alts", alts], ["dist", dist], ["rec", rec], ["terminals", term], ["nonterminals", nonterm]]
    if us is not None:
        h.agree(site, ["analyse", line_spec], obs + [["usable", us]], nontrivial=nontrivial)
    else:
        h.agree(site, ["analyse_nousable", line_spec], obs, nontrivial=nontrivial)
    # level B: the implementation's own table solves the distance equations (hence is exact)
    h.holds(site, "distance-not-a-fixpoint", ["prop_fixpoint", line_spec, dist],
            f"distanceToTerminal is not a solution of the minimum-depth equations for {sx(line_spec)}", sx(line_spec))
    if exact:   # (the enumeration oracle recurses once per depth level: not for the 150-level chains)
        check_exactness(h, site, spec, b, g)
    check_recursion_exact(h, site, spec, b, g)
    if us is not None:
        check_usable_exact(h, site, spec, b, g, us)
    h.count(f"classes={len(spec.classes)}")
    h.count("productive" if g.get_min_tree_depth() < 1000000 else "unproductive")
    if spec.expansion:
        h.count("expansion-mode")
    return g


def mentioned_classes(t, out):
    if isinstance(t, tuple):
        if t[0] == "cls":
            out.add(t[1])
        elif t[0] == "ann":
            mentioned_classes(t[1], out)
        else:
            for x in t[1:]:
                mentioned_classes(x, out)
    return out


def check_usable_exact(h: Harness, site: str, spec: Spec, b: Built, g, us):
    """the usable sub-grammar holds exactly what the start symbol reaches: every reachable class is in it, and every PRODUCTION in it
    (a concrete class) is reachable -- by an independent walk over the derivation graph of the full grammar"""
    registered = {b.index[c] for c in g.all_nodes if c in b.index}
    alts = {b.index[p]: [b.index[c] for c in cs] for p, cs in g.alternatives.items()}
    reach, todo = set(), [spec.start]
    while todo:
        x = todo.pop()
        if x in reach or x not in registered:
            continue
        reach.add(x)
        if x in alts:
            todo += alts[x]
        else:
            out = set()
            for _, ft in spec.classes[x].fields:
                mentioned_classes(ft, out)
            todo += list(out)
    have = set(us)
    missing = sorted(reach - have)
    extra = sorted(i for i in have - reach if not spec.classes[i].abstract)
    h.seen(f"usable-exact:{gram.spec_sx_str(spec)}", nontrivial=len(registered - reach) > 0)
    if missing or extra:
        h.fail("Grammar.usable_grammar", "usable-grammar-not-the-reachable-part",
               f"usable_grammar() of {sx(gram.spec_sx(spec))[:200]}: " + (f"reachable classes {[spec.classes[i].name for i in missing]} are missing; " if missing else "")
               + (f"productions {[spec.classes[i].name for i in extra]} are not reachable from the start symbol {spec.classes[spec.start].name}" if extra else ""),
               [gram.spec_sx_str(spec)])


def check_recursion_exact(h: Harness, site: str, spec: Spec, b: Built, g):
    """the symbols reported as recursive are exactly those that can derive a program containing themselves: an independent
    walk over the derivation graph (abstract symbol -> its registered productions, production -> every class its field types mention,
    through lists, tuples, unions and refinements).  Judged on grammars all of whose symbols are productive."""
    if any(v >= 1000000 for v in g.distanceToTerminal.values()):
        return
    registered = {b.index[c] for c in g.all_nodes if c in b.index}
    alts = {b.index[p]: [b.index[c] for c in cs] for p, cs in g.alternatives.items()}
    succ = {}
    for i in registered:
        c = spec.classes[i]
        if i in alts:
            succ[i] = set(alts[i])
        else:
            out = set()
            for _, ft in c.fields:
                mentioned_classes(ft, out)
            succ[i] = out & registered
    reported = {b.index[c] for c in g.recursive_prods if c in b.index}
    for i in sorted(registered):
        seen, todo = set(), list(succ.get(i, ()))
        while todo:
            x = todo.pop()
            if x not in seen:
                seen.add(x)
                todo += list(succ.get(x, ()))
        truly = i in seen
        h.seen(f"rec-exact:{gram.spec_sx_str(spec)}:{i}", nontrivial=truly)
        if truly != (i in reported):
            h.fail(site, "recursive-set-not-exact",
                   f"class {spec.classes[i].name} {'can' if truly else 'cannot'} derive a program containing itself but is "
                   f"{'' if i in reported else 'not '}reported as recursive (reported: {sorted(spec.classes[j].name for j in reported)})",
                   [gram.spec_sx_str(spec), i])
            break


def oracle_min_depths(spec: Spec, alts: dict[int, list[int]], registered: set[int], allow_empty: bool, K: int):
    """Independent specification: least depth of a derivable program per class symbol, by
    enumeration over the depth bound (tree-depth mode).  `allow_empty`: the honest language, in
    which un-annotated lists and ListSizeBetween(0, .) lists may be empty."""
    from functools import lru_cache

    @lru_cache(maxsize=None)
    def der(t, k: int) -> bool:
        if isinstance(t, str):
            return True
        kind = t[0]
        if kind == "cls":
            c = spec.classes[t[1]]
            if t[1] in alts:
                return any(der(("cls", p), k) for p in alts[t[1]])
            if c.abstract:
                return False
            return k >= 1 and all(der(_freeze(ft), k - 1) for _, ft in c.fields)
        if kind == "list":
            return True if allow_empty else der(t[1], k)
        if kind == "tuple":
            return all(der(x, k) for x in t[1:])
        if kind == "union":
            return any(der(x, k) for x in t[1:])
        if kind == "ann":
            mh = t[2]
            if not isinstance(mh, str) and mh[0] in ("listSize", "listSizeNoOps"):
                return True if (allow_empty and mh[1] == 0) else der(t[1][1], k)
            if not isinstance(mh, str) and mh[0] == "depListSize":
                return True if allow_empty else der(t[1][1], k)
            return der(t[1], k)
        raise ValueError(t)

    out = {}
    for i in sorted(registered):
        out[i] = next((k for k in range(K + 1) if der(("cls", i), k)), None)
    return out


def _freeze(t):
    if isinstance(t, (list, tuple)):
        return tuple(_freeze(x) for x in t)
    return t


def check_exactness(h: Harness, site: str, spec: Spec, b: Built, g):
    """reported minimum depth == depth of the shallowest derivable program (independent oracle)"""
    if spec.expansion:
        return
    alts = {b.index[p]: [b.index[c] for c in cs] for p, cs in g.alternatives.items()}
    registered = {b.index[c] for c in g.all_nodes if c in b.index}
    K = len(spec.classes) + 2
    honest = oracle_min_depths(spec, alts, registered, True, K)
    nonempty = oracle_min_depths(spec, alts, registered, False, K)
    for i in sorted(registered):
        rep = g.distanceToTerminal[b.classes[i]]
        rep = None if rep >= 1000000 else rep
        h.seen(f"exact:{gram.spec_sx_str(spec)}:{i}", nontrivial=rep is not None and rep >= 2)
        if rep == honest[i]:
            continue
        replay = [gram.spec_sx_str(spec), i]
        if rep == nonempty[i] and honest[i] is not None and (rep is None or honest[i] < rep):
            h.fail("extract_grammar", "minimum-is-upper-bound-with-possibly-empty-list",
                   f"class {spec.classes[i].name}: reported minimum depth {rep} but a program of depth {honest[i]} exists (a list field left empty)", replay)
        else:
            h.fail(site, "reported-minimum-not-shallowest",
                   f"class {spec.classes[i].name}: reported minimum depth {rep}, shallowest derivable program has depth {honest[i]} "
                   f"({nonempty[i]} with non-empty lists)", replay)


def dataclass_grammars(h: Harness):
    """real dataclasses with attributes that are not constructor parameters (field(init=False) slots, ClassVars)"""
    import dcgrammar
    for considered, start in dcgrammar.GRAMMARS:
        for expansion in (False, True):
            spec, b = gram.reflect(considered, start, expansion)
            h.count("dataclass-grammar-with-non-constructor-attributes")
            check_spec(h, "extract_grammar[dataclasses]", spec, b)


def shared_class_list(h: Harness):
    """ONE list of classes, kept by the user, handed to several extractions with different start symbols: every extraction sees
    all of it (the second grammar is the one a fresh copy of the list gives), and the list is the user's -- it is not edited"""
    from geneticengine.grammar.grammar import extract_grammar
    C = gram.ClassSpec
    spec = Spec([C("Stmt", True, None), C("Expr", True, None), C("Lit", False, 1, [("k", "int")]), C("Add", False, 1, [("l", ("cls", 1)), ("r", ("cls", 1))]),
                 C("Assign", False, 0, [("e", ("cls", 1))]), C("Seq", False, 0, [("a", ("cls", 0)), ("b", ("cls", 0))]),
                 C("While", False, 0, [("c", ("cls", 1)), ("body", ("cls", 0))])], 0, [2, 3, 4, 5, 6])
    for expansion in (False, True):
        b = gram.build(spec)
        nodes = [b.classes[i] for i in spec.considered]
        before = list(nodes)
        stmt, expr = b.classes[0], b.classes[1]
        for order in ((expr, stmt), (stmt, expr), (expr, expr, stmt)):
            for k, start in enumerate(order):
                with warnings.catch_warnings():
                    warnings.simplefilter("ignore")
                    g = extract_grammar(nodes, start, expansion)
                    fresh = extract_grammar(list(before), start, expansion)
                h.count("shared-class-list:extractions")
                h.seen(f"shared-list:{expansion}:{[c.__name__ for c in order]}:{k}", nontrivial=k > 0)
                if [id(c) for c in nodes] != [id(c) for c in before]:
                    h.fail("extract_grammar", "callers-class-list-modified",
                           f"extract_grammar edited the list of classes it was given: {[c.__name__ for c in before]} -> {[c.__name__ for c in nodes]}", [expansion, k])
                    nodes[:] = before
                mine, theirs = observe(b, g), observe(b, fresh)
                if mine != theirs or syms(b, g.recursive_prods) != syms(b, fresh.recursive_prods):
                    h.fail("extract_grammar", "supplied-production-missing",
                           f"extraction #{k + 1} over ONE list object (start symbols so far {[c.__name__ for c in order[:k + 1]]}, expansion_depthing={expansion}) "
                           f"reports productions/depths {mine}; the same extraction over a fresh copy of the list reports {theirs}", [expansion, k])
                    break


def shipped(h: Harness):
    import geml.grammars as pkg
    mods = []
    for m in pkgutil.walk_packages(pkg.__path__, pkg.__name__ + "."):
        try:
            mods.append(importlib.import_module(m.name))
        except Exception as e:  # noqa: BLE001
            h.notes.append(f"could not import {m.name}: {type(e).__name__}")
    for mod in mods:
        classes = [c for _, c in inspect.getmembers(mod, inspect.isclass)
                   if c.__module__ == mod.__name__ and hasattr(c, "__mro__")]
        roots = [c for c in classes if c.mro()[1] in (ABC,) ]
        for start in roots:
            considered = [c for c in classes if c is not start and issubclass(c, ABC) or c in classes]
            considered = [c for c in classes if c is not start]
            try:
                spec, b = gram.reflect(considered, start)
            except Exception as e:  # noqa: BLE001
                h.notes.append(f"reflect failed for {mod.__name__}.{start.__name__}: {e}")
                continue
            h.count("shipped-grammar")
            check_spec(h, f"extract_grammar[{mod.__name__.split('.')[-1]}.{start.__name__}]", spec, b)


def _ring(n: int, step: int):
    """a recursion cycle through n CONCRETE classes and no abstract type (each mentions the next through a Union with a base type), declared in
    an order that is not the order of the cycle"""
    order = [(i * step) % n for i in range(n)]           # position -> ring index (step coprime to n)
    pos = {ring: p_ for p_, ring in enumerate(order)}
    classes = [gram.ClassSpec(f"R{ring}", False, None, [("nxt", ("union", "int", ("cls", pos[(ring + 1) % n])))]) for ring in order]
    return Spec(classes, 0, list(range(n)))


CORPUS = [
    _ring(3, 2), _ring(5, 3), _ring(12, 7), _ring(12, 5), _ring(40, 17),
    # a production whose fields all have minimum depth 0 -- one of them a Union of a base type and a grammar symbol that is mentioned
    # NOWHERE else: the symbol and its productions belong to the usable sub-grammar
    Spec([gram.ClassSpec("A0", True, None), gram.ClassSpec("Const", False, 0, [("v", ("union", "int", ("cls", 2))), ("w", "bool")]),
          gram.ClassSpec("Param", True, None), gram.ClassSpec("Alpha", False, 2, []), gram.ClassSpec("Beta", False, 2, [("k", "int")]),
          gram.ClassSpec("Add", False, 0, [("l", ("cls", 0)), ("r", ("cls", 0))])], 0, [1, 3, 4, 5, 2]),
    Spec([gram.ClassSpec("A0", True, None), gram.ClassSpec("Const", False, 0, [("v", ("list", ("union", "bool", ("cls", 2))))]),
          gram.ClassSpec("Param", True, None), gram.ClassSpec("Alpha", False, 2, [])], 0, [1, 3, 2]),
    # union of a shallow and a deep alternative; bool field; tuple recursion; list-of-abstract
    Spec([gram.ClassSpec("A0", True, None), gram.ClassSpec("C1", False, 0, [("f0", "int")]),
          gram.ClassSpec("C2", False, 0, [("f0", ("union", ("cls", 1), ("cls", 0)))])], 0, [1, 2]),
    Spec([gram.ClassSpec("A0", True, None), gram.ClassSpec("C1", False, 0, [("f0", "bool")])], 0, [1]),
    Spec([gram.ClassSpec("A0", True, None), gram.ClassSpec("C1", False, 0, []),
          gram.ClassSpec("C2", False, 0, [("f0", ("tuple", ("cls", 0), ("cls", 0)))])], 0, [1, 2]),
    Spec([gram.ClassSpec("A0", True, None), gram.ClassSpec("C1", False, 0, []),
          gram.ClassSpec("C2", False, 0, [("f0", ("list", ("cls", 0)))])], 0, [1, 2]),
    Spec([gram.ClassSpec("A0", True, None), gram.ClassSpec("C1", False, 0, []),
          gram.ClassSpec("C2", False, 0, [("f0", ("ann", ("list", ("cls", 0)), ("listSize", 1, 2)))])], 0, [1, 2]),
    Spec([gram.ClassSpec("A0", True, None), gram.ClassSpec("A1", True, 0), gram.ClassSpec("C2", False, 1, [("f0", ("cls", 0))]),
          gram.ClassSpec("C3", False, 1, []), gram.ClassSpec("C4", False, 0, [("f0", ("list", ("list", ("cls", 1))))])], 0, [2, 3, 4, 1]),
]


CORPUS.append(Spec([gram.ClassSpec("A0", True, None), gram.ClassSpec("C1", False, 0, [("f0", "int")], weight=2),
                    gram.ClassSpec("C2", False, 0, [("f0", ("cls", 0)), ("f1", ("list", ("cls", 0)))], weight=1)], 0, [1, 2], expansion=True))

# recursive symbols that are stand-alone CONCRETE classes (no abstract parent), reached through field annotations only: through a
# production's field, and through a size-refined list whose element refers to itself in a union
CORPUS.append(Spec([gram.ClassSpec("A0", True, None), gram.ClassSpec("Lit", False, 0, [("k", "int")]), gram.ClassSpec("Swap", False, 0, [("p", ("cls", 3))]),
                    gram.ClassSpec("Pair", False, None, [("l", ("cls", 0)), ("r", ("cls", 0))])], 0, [1, 2, 3]))
CORPUS.append(Spec([gram.ClassSpec("A0", True, None), gram.ClassSpec("Lit", False, 0, []), gram.ClassSpec("Cell", False, None, [("rest", ("union", ("cls", 2), ("cls", 1)))]),
                    gram.ClassSpec("Box", False, 0, [("cells", ("ann", ("list", ("cls", 2)), ("listSize", 1, 2)))])], 0, [1, 3, 2]))
CORPUS.append(Spec([gram.ClassSpec("A0", True, None), gram.ClassSpec("Lit", False, 0, []), gram.ClassSpec("Swap", False, 0, [("p", ("cls", 3))]),
                    gram.ClassSpec("Pair", False, None, [("l", ("cls", 0)), ("t", ("tuple", ("cls", 4), "bool"))]),
                    gram.ClassSpec("Tag", False, None, [("n", ("ann", "int", ("intRange", 0, 2)))])], 0, [1, 2], expansion=True))

# symbols reachable only "from below": a field typed with ONE concrete production of a second hierarchy whose other productions are
# unreachable, and a start symbol that itself has an abstract parent with further productions -- the usable sub-grammar keeps what is
# reachable from the start symbol, not the siblings that share an ancestor with it
CORPUS.append(Spec([gram.ClassSpec("A0", True, None), gram.ClassSpec("Lit", False, 0, []), gram.ClassSpec("Draw", False, 0, [("s", ("cls", 4))]),
                    gram.ClassSpec("Shape", True, None), gram.ClassSpec("Square", False, 3, [("k", "int")]),
                    gram.ClassSpec("Circle", False, 3, [("r", ("cls", 6))]), gram.ClassSpec("Round", False, None, [("b", "bool")])], 0, [1, 2, 4, 5, 6]))
CORPUS.append(Spec([gram.ClassSpec("Node", True, None), gram.ClassSpec("Stmt", True, 0), gram.ClassSpec("Skip", False, 1, []),
                    gram.ClassSpec("Seq", False, 1, [("a", ("cls", 1)), ("b", ("cls", 1))]), gram.ClassSpec("Expr", True, 0),
                    gram.ClassSpec("Num", False, 4, [("v", "int")]), gram.ClassSpec("Weird", False, 0, [("e", ("cls", 4))])], 1, [2, 3, 5, 6, 4]))
CORPUS.append(Spec([gram.ClassSpec("A0", True, None), gram.ClassSpec("Lit", False, 0, []),
                    gram.ClassSpec("Use", False, 0, [("xs", ("ann", ("list", ("cls", 4)), ("listSize", 1, 2)))]),
                    gram.ClassSpec("Fam", True, None), gram.ClassSpec("Sub", True, 3), gram.ClassSpec("S1", False, 4, []), gram.ClassSpec("Other", False, 3, [("u", ("cls", 0))])],
                   0, [1, 2, 5, 6, 4]))


def big_chains():
    """dependency chains / cycles of 150 abstract symbols: the distance fixpoint and the recursion closure need many sweeps
    (however the symbol set happens to be ordered)"""
    C = gram.ClassSpec
    out = []
    n = 150
    for cyc in (False, True):
        for rev in (False, True):
            classes = [C(f"A{i}", True, None) for i in range(n)]
            considered = []
            for i in range(n):
                nxt = (i + 1) % n if cyc else i + 1
                fields = [("f", ("cls", nxt))] if (cyc or i + 1 < n) else []
                classes.append(C(f"P{i}", False, i, fields))
                considered.append(n + i)
            if cyc:   # one way out of the cycle, at its far end
                classes.append(C("Leaf", False, n - 1, []))
                considered.append(2 * n)
            if rev:
                considered.reverse()
            out.append(gram.Spec(classes, 0, considered))
    return out


def run(h: Harness):
    rng = h.rng
    for spec in CORPUS:
        check_spec(h, "extract_grammar[corpus]", spec, gram.build(spec))
    for spec in big_chains():
        check_spec(h, "extract_grammar[corpus]", spec, gram.build(spec), usable=False, exact=False)
        h.count("corpus:150-symbol-chains")
    for i in range(h.n(300, 6000)):
        exp = rng.random() < 0.2
        spec = (gram.productive_spec if rng.random() < 0.75 else gram.random_spec)(rng, max_classes=rng.choice([3, 4, 6, 8]), expansion=exp)
        if rng.random() < 0.3:
            # production weights: extraction then re-registers the classes through update_weights,
            # which must keep the depth-counting mode and everything else of the analysis
            for c in spec.classes:
                if not c.abstract and rng.random() < 0.5:
                    c.weight = rng.choice([1, 2, 3, 0.5, 0, 0.0])   # (0: a switched-off production is still a production)
            # (a rule whose productions are ALL switched off cannot be normalised: out of the domain, see C19)
            # (the rule of `a` consists of its REGISTERED direct subclasses: the listed ones and abstract intermediates)
            for a in range(len(spec.classes)):
                kids = [c for i, c in enumerate(spec.classes) if c.parent == a and (i in spec.considered or c.abstract)]
                if kids and all(c.weight is not None and c.weight == 0 for c in kids):
                    kids[0].weight = 2
            h.count("weighted-spec" + ("-expansion" if exp else ""))
        b = gram.build(spec)
        check_spec(h, "extract_grammar", spec, b)
    dataclass_grammars(h)
    shared_class_list(h)
    shipped(h)
