"""C02 -- refinements (metahandlers) hold on every value the library produces.

(a) each refinement's generator against its documented predicate and its own `validate`, over
parameter boxes and ALL draws; (b) refined fields at every position (top level, inside lists,
unions, tuples, under dependent refinements) in programs produced by creation, mutation,
crossover and by mapping genotypes of the linear representations.
Model: `sat` (Model/Tree.lean), `createNode`'s `.ann` branch (Model/Synth.lean).
"""
from __future__ import annotations

import itertools
import warnings
from typing import Annotated

import gram
import synth
from core import Harness, ScriptedSource, enumerate_scripts, sx

from geneticengine.grammar.metahandlers.ints import IntervalRange, IntList, IntRange
from geneticengine.grammar.metahandlers.lists import ListSizeBetween
from geneticengine.grammar.metahandlers.strings import StringSizeBetween
from geneticengine.grammar.metahandlers.vars import VarRange
from geneticengine.representations.tree.initializations import GlobalSynthesisContext, create_node
from geneticengine.solutions.tree import LocalSynthesisContext

RULE = ("(a) parameter boxes: IntRange lo,hi in [-2,2] (thorough [-3,3]) incl. lo==hi, IntList / VarRange with 1..3 options, "
        "ListSizeBetween 0<=lo<=hi<=3 (empty allowed), StringSizeBetween over 1..3-letter alphabets, IntervalRange boxes, x ALL "
        "draw sequences (exhaustive); (b) generated grammars dense in refinements incl. Dependent, all tree deciders and the linear "
        "representations; non-trivial = range with > 1 value or program with >= 2 refined fields; distinct = distinct line")
ASSUMPTIONS = [
    "float refinements (FloatRange / FloatList): the range check is done on the Python side (floats are not modelled)",
    "WeightedStringHandler needs a numpy matrix; its draw is RandomSource.choice_weighted (C18) and it is exercised by the Python oracle only",
    "Dependent.validate raises NotImplementedError by design of the library (it has no access to sibling values); the harness evaluates dependent refinements itself",
]


def host():
    spec = gram.Spec([gram.ClassSpec("A", True, None), gram.ClassSpec("L", False, 0, [])], 0, [1])
    b = gram.build(spec)
    b.extract()
    return b


def gen_case(h: Harness, b, ty, pymh, label):
    """all draws for one refined type"""
    from geneticengine.representations.tree.initializations import MaxDepthDecider
    pyty = gram.py_type(ty, b.classes)
    mh = ty[2]

    def make(src):
        dec = MaxDepthDecider(src, b.grammar, 3)
        gc = GlobalSynthesisContext(src, b.grammar, dec)
        return create_node(gc, pyty, LocalSynthesisContext(1, 0, 1, {}), {})
    n = 0
    try:
        for script, v in enumerate_scripts(make, limit=20000, lift=True):
            n += 1
            c = gram.canon(v, b)
            site = f"{label}.generate"
            h.agree(site, ["gen", gram.ty_sx(ty), [], script], ["ok", c], nontrivial=True)
            h.holds(site, "generated-value-violates-refinement", ["prop_sat", gram.mh_sx(mh), [], c],
                    f"{label}{mh[1:]} generated {sx(c)} which violates its documented predicate", [gram.ty_sx(ty), script])
            ok = pymh.validate(v)
            if not ok:
                h.fail(f"{label}.validate", "validate-rejects-generated-value",
                       f"{label}{mh[1:]}.validate rejects {v!r}, a value its own generate() produced", [sx(gram.ty_sx(ty)), script])
    except Exception as e:  # noqa: BLE001
        if type(e).__name__ == "InfraError":
            h.count("box-too-large")
            return
        h.fail(f"{label}.generate", "raises", f"{label}{mh[1:]} raised {type(e).__name__}", [sx(gram.ty_sx(ty))])
    h.count(f"{label}:scripts", n)


def boxes(h: Harness):
    b = host()
    R = 3 if h.thorough else 2
    for lo in range(-R, R + 1):
        for hi in range(lo, R + 1):
            gen_case(h, b, ("ann", "int", ("intRange", lo, hi)), IntRange(lo, hi), "IntRange")
    for opts in ([0], [1, 1], [-2, 5], [3, 1, 2], [7, 7, 7]):
        gen_case(h, b, ("ann", "int", ("intList", opts)), IntList(opts), "IntList")
    for opts in (["x"], ["x", "y"], ["z", "x", "y"], ["x", "x"]):
        gen_case(h, b, ("ann", "str", ("varRange", opts)), VarRange(opts), "VarRange")
    for lo in range(0, 4):
        for hi in range(lo, 4):
            for inner in (("cls", 0), ("ann", "int", ("intRange", 0, 1))):
                gen_case(h, b, ("ann", ("list", inner), ("listSize", lo, hi)), ListSizeBetween(lo, hi), "ListSizeBetween")
    # (same bounds, different alphabets in one process; alphabets of punctuation: a character is a character, whatever it
    # means to a pattern language)
    for al in (["a"], ["a", "b"], ["a", "b", "c"], ["c"], ["b", "c"], ["^", "a"], ["a", "-", "c"], ["]", "a"], [".", "b"], ["+", "*"], ["[", "]"], ["$", "|", "?"]):
        for lo in range(0, 3):
            for hi in range(lo, 3 if len(al) < 3 else 2):
                gen_case(h, b, ("ann", "str", ("strSize", lo, hi, al)), StringSizeBetween(lo, hi, al), "StringSizeBetween")
    # strings LONGER than any block size a generator might work in (9..12 characters over two letters: every draw enumerated)
    for lo, hi in ((9, 10), (10, 10), (11, 12)):
        gen_case(h, b, ("ann", "str", ("strSize", lo, hi, ["a", "b"])), StringSizeBetween(lo, hi, ["a", "b"]), "StringSizeBetween")
    for mn in range(0, 3):
        for mx in range(mn + 1, mn + 3):
            for top in range(mx + 1, mx + 3):
                gen_case(h, b, ("ann", ("tuple", "int", "int"), ("interval", mn, mx, top)), IntervalRange(mn, mx, top), "IntervalRange")
    h.exhaustive = True


def float_lists(h: Harness):
    """FloatList written with whatever literals a user writes (ints among the floats, as the shipped classification example does): what
    generate() returns is one of the listed elements, and the handler's own validate() accepts it"""
    from core import ScriptedSource
    from geneticengine.grammar.metahandlers.floats import FloatList
    for elems in ([-1, -0.1, -0.01, -0.001, 1, 0.1, 0.01, 0.001], [0, 0.5, 2], [0.0, 0.5, 1.0], [3], [True, 0.25, 2.5]):
        mh = FloatList(list(elems))
        for d in range(len(elems) + 2):
            try:
                v = mh.generate(ScriptedSource([d]), None, float, None, {})
            except Exception as e:  # noqa: BLE001
                h.fail("FloatList.generate", "raises", f"FloatList({elems}).generate raised {type(e).__name__}: {e}", [elems, d])
                continue
            h.count("FloatList:draws")
            h.seen(f"floatlist:{elems}:{d}", nontrivial=len(elems) > 1)
            if not any(v is x or (type(v) is type(x) and v == x) for x in elems):
                h.fail("FloatList.generate", "generated-value-violates-refinement", f"FloatList({elems}) generated {v!r}, which is not one of its elements", [elems, d])
            elif not mh.validate(v):
                h.fail("FloatList.validate", "validate-rejects-generated-value",
                       f"FloatList({elems}).validate rejects {v!r}, a value its own generate() produced", [elems, d])


def long_derivations(h: Harness):
    """a derivation of thousands of decisions mapped from a genome of THREE to five genes (read round and round, well over a thousand
    times): every refined value of the big program is still inside its refinement -- the last one like the first"""
    from linear import GE, SGE, safe
    from geneticengine.random.sources import NativeRandomSource
    C = gram.ClassSpec
    rows = h.n(1500, 4000)
    spec = gram.Spec([C("Table", False, None, [("rows", ("ann", ("list", ("cls", 1)), ("listSizeNoOps", rows, rows)))]),
                      C("Row", False, None, [("k", ("ann", "int", ("intRange", 5, 9))),
                                             ("cells", ("ann", ("list", ("ann", "int", ("intRange", 9, 10))), ("listSizeNoOps", 2, 3)))])], 0, [0, 1])
    b = gram.build(spec)
    g = b.extract()
    line_spec = gram.spec_sx(spec)
    rng = h.rng
    for name, mk, glen in (("GE", lambda r, n: GE(g, synth.make_decider("grow", 6, r, g), gene_length=n), 3),
                           ("GE", lambda r, n: GE(g, synth.make_decider("grow", 6, r, g), gene_length=n), 5),
                           ("SGE", lambda r, n: SGE(g, synth.make_decider("grow", 6, r, g), gene_length=n), 3)):
        r = NativeRandomSource(rng.randrange(10**6))
        rep = mk(r, glen)
        st, geno = safe(lambda: rep.create_genotype(r))
        if st != "ok":
            continue
        st, p = safe(lambda: rep.genotype_to_phenotype(geno))
        h.count(f"long-derivations:{name}:{st}")
        h.seen(f"long-derivation:{name}:{glen}", nontrivial=st == "ok")
        if st != "ok":
            if st == "err" and str(p).startswith("foreign"):
                h.fail(f"{name}.genotype_to_phenotype", "foreign-error", f"mapping a table of {rows} rows from {glen} genes raised {p}", [name, glen])
            continue
        # (checked here, not by the Lean predicate: the program has tens of thousands of nodes)
        for i, row in enumerate(p.rows):
            if not (type(row.k) is int and 5 <= row.k <= 9 and 2 <= len(row.cells) <= 3 and all(type(c) is int and 9 <= c <= 10 for c in row.cells)):
                h.fail(f"{name}.genotype_to_phenotype", "refinement-violated",
                       f"{name} genome of {glen} genes, table of {rows} rows: row {i} is Row(k={row.k!r}, cells={list(row.cells)!r}); "
                       f"declared k in 5..9, 2..3 cells in 9..10", [name, glen, i])
                break
        if len(p.rows) != rows:
            h.fail(f"{name}.genotype_to_phenotype", "refinement-violated", f"the table has {len(p.rows)} rows, declared exactly {rows}", [name, glen])


def dense_spec(rng):
    """grammar whose productions mostly carry refined fields, at all positions"""
    spec = gram.productive_spec(rng, max_classes=rng.choice([3, 4, 5]), opts={"float": False})
    for c in spec.classes:
        if c.abstract:
            continue
        for j, (fn, ft) in enumerate(c.fields):
            r = rng.random()
            if ft == "int" and r < 0.8:
                lo = rng.randint(-3, 3)
                c.fields[j] = (fn, ("ann", "int", ("intRange", lo, lo + rng.randint(0, 3))))
            elif isinstance(ft, tuple) and ft[0] == "list" and r < 0.5:
                c.fields[j] = (fn, ("ann", ft, ("listSize", rng.randint(0, 1), rng.randint(1, 3))))
            elif isinstance(ft, tuple) and ft[0] == "cls" and r < 0.25:
                c.fields[j] = (fn, ("union", ft, ("ann", "int", ("intList", [rng.randint(0, 9), rng.randint(0, 9)]))))
            elif isinstance(ft, tuple) and ft[0] == "cls" and r < 0.4:
                c.fields[j] = (fn, ("tuple", ft, ("ann", "str", ("varRange", ["x", "y"]))))
    if rng.random() < 0.6:
        gram.add_dependent_fields(rng, spec)
    return spec


def count_refined(s: str) -> int:
    return s.count("(i ") + s.count("(s ")


def failing_element_specs():
    """a production whose bounded list has elements that can NEVER (or only sometimes) be created -- a dependent VarRange over an
    empty / possibly empty sibling list raises the library's SynthesisException: the production fails as a whole and another
    one is taken; a list shorter than its lower bound is not an outcome"""
    C = gram.ClassSpec
    out = []
    for never, mh in ((True, "listSizeNoOps"), (False, "listSizeNoOps"), (True, "listSize"), (False, "listSize")):
        out.append(gram.Spec([
            C("A0", True, None),
            C("Leaf", False, 0, [("k", ("ann", "int", ("intRange", 0, 3)))]),
            C("V", False, None, [("vars", ("ann", ("list", ("ann", "str", ("varRange", ["x", "y"]))), ("listSize", 0, 0 if never else 1))),
                                 ("x", ("ann", "str", ("depVarFrom", "vars")))]),
            C("Bad", False, 0, [("xs", ("ann", ("list", ("cls", 2)), (mh, 1 if never else 3, 3)))]),
            C("Wrap", False, 0, [("a", ("cls", 0)), ("n", ("ann", "int", ("intRange", 1, 2)))]),
        ], 0, [3, 1, 4, 2]))
    return out


def programs(h: Harness):
    import linear
    from linear import DSGE, GE, SGE, Stack, safe
    from geneticengine.random.sources import NativeRandomSource
    from geneticengine.representations.tree.treebased import TreeBasedRepresentation
    rng = h.rng
    corpus = failing_element_specs()
    n_rep = 5      # (each witness several times: deciders and depth limits are drawn at random)
    for gi in range(h.n(90, 1500) + n_rep * len(corpus)):
        spec = corpus[gi % len(corpus)] if gi < n_rep * len(corpus) else dense_spec(rng)
        if gi < n_rep * len(corpus):
            h.count("corpus:list-elements-that-cannot-be-created")
        b = gram.build(spec)
        try:
            g = b.extract()
        except Exception:  # noqa: BLE001
            continue
        mind = g.get_min_tree_depth()
        if mind >= 1000000:
            continue
        line_spec = gram.spec_sx(spec)
        has_dep = "dep" in sx(line_spec)
        d = mind + rng.choice([0, 1, 2])
        kind = rng.choice(["grow", "full", "pigrow"])
        # tree: create, mutate, crossover
        src = ScriptedSource([rng.randrange(0, 1000) for _ in range(3000)])
        with warnings.catch_warnings():
            warnings.simplefilter("ignore")
            rep = TreeBasedRepresentation(g, synth.make_decider(kind, d, src, g))
        pool = []
        for step in range(5):
            if len(pool) < 2:
                op, (st, x) = "create_genotype", safe(lambda: rep.create_genotype(src))
                out = [x] if st == "ok" else []
            elif step % 2:
                op, (st, x) = "mutate", safe(lambda: rep.mutate(src, rng.choice(pool)))
                out = [x] if st == "ok" else []
            else:
                op, (st, x) = "crossover", safe(lambda: rep.crossover(src, pool[0], pool[1]))
                out = list(x) if st == "ok" else []
            for v in out:
                pool.append(v)
                c = gram.canon(v, b)
                h.holds(f"TreeBasedRepresentation.{op}", "refinement-violated", ["prop_wt", line_spec, c],
                        f"program violates a refinement (or is ill-typed): {sx(c)[:260]}", [sx(line_spec), kind, d, step],
                        nontrivial=count_refined(sx(c)) >= 2)
                h.count("tree-programs")
        # linear representations
        shared = NativeRandomSource(rng.randrange(10**6))
        reps = [("GE", GE(g, synth.make_decider(kind, d, shared, g), gene_length=64)),
                ("SGE", SGE(g, synth.make_decider(kind, d, shared, g), gene_length=64)),
                ("DynamicSGE", DSGE(g, d)), ("Stack", Stack(g, gene_length=512))]
        for name, rp in reps:
            for attempt in range(4):
                st, geno = safe(lambda: rp.create_genotype(shared))
                if st != "ok":
                    continue
                if attempt >= 2 and name in ("GE", "Stack"):
                    # a genome most of whose genes sit at the TOP (or bottom) of the documented gene range
                    import sys as _sys
                    edge = [_sys.maxsize, 0, _sys.maxsize - 1][(attempt + gi) % 3]
                    geno = type(geno)(dna=[edge if (j + gi) % 3 else g_ for j, g_ in enumerate(geno.dna)])
                    h.count(f"{name}:boundary-genome")
                st, p = safe(lambda: rp.genotype_to_phenotype(geno))
                degenerate = any(g.distanceToTerminal[s] >= 1000000 for s in g.all_nodes)
                if st == "err" and p.startswith("foreign") and not (degenerate and name == "Stack"):
                    kind_f = "dependent-validate-not-implemented" if (p == "foreign:NotImplementedError" and name == "Stack" and has_dep) else "foreign-error"
                    h.fail(f"{name}.genotype_to_phenotype", kind_f, f"mapping raised {p}", [sx(line_spec), name])
                if st != "ok":
                    h.count(f"{name}:{st}")
                    continue
                c = gram.canon(p, b)
                h.holds(f"{name}.genotype_to_phenotype", "refinement-violated", ["prop_wt", line_spec, c],
                        f"mapped program violates a refinement (or is ill-typed): {sx(c)[:260]}", [sx(line_spec), name],
                        nontrivial=count_refined(sx(c)) >= 2)
                h.count(f"{name}:ok")


def sibling_isolation(h: Harness):
    """a dependent refinement must read ITS OWN sibling, not a like-named field of a nested
    concrete child created in between (level A on scripted draws + the Lean predicate)"""
    C = gram.ClassSpec
    spec = gram.Spec([
        C("A0", True, None),
        C("Anchor", False, None, [("lo", ("ann", "int", ("intRange", 50, 60)))]),
        C("Window", False, 0, [("lo", ("ann", "int", ("intRange", 0, 3))), ("anchor", ("cls", 1)),
                               ("hi", ("ann", "int", ("depIntRangeLo", "lo", 9)))]),
        C("Leaf", False, 0, []),
        C("Pair", False, 0, [("lo", ("ann", "int", ("intRange", 1, 2))), ("u", ("union", ("cls", 1), ("cls", 3))),
                             ("xs", ("ann", ("list", "int"), ("depListSize", "lo")))]),
        # a refinement that depends on TWO siblings, named in the opposite order of their declaration:
        # Dependent("scale,base", lambda scale, base: IntRange(base, base + scale))
        C("Span", False, 0, [("base", ("ann", "int", ("intRange", 100, 110))), ("scale", ("ann", "int", ("intRange", 1, 3))),
                             ("value", ("ann", "int", ("depIntRangeSpan", "scale", "base"))),
                             ("other", ("ann", "int", ("depIntRangeSpan", "scale", "value")))]),
    ], 0, [2, 3, 4, 1, 5])
    b = gram.build(spec)
    g = b.extract()
    line_spec = gram.spec_sx(spec)
    rng = h.rng
    for _ in range(h.n(40, 400)):
        kind = rng.choice(["grow", "full", "pigrow"])
        d = rng.choice([2, 3])
        draws = [rng.randrange(0, 1000) for _ in range(64)]
        res, v, _ = synth.create(b, kind, d, draws)
        if res is None:
            continue
        h.agree("TreeBasedRepresentation.create_genotype", ["create", line_spec, [kind, d], draws], res)
        if res[0] == "ok":
            h.holds("TreeBasedRepresentation.create_genotype", "refinement-violated", ["prop_wt", line_spec, res[1]],
                    f"dependent refinement not evaluated against the actual sibling: {sx(res[1])[:200]}", [sx(line_spec), kind, d, draws])
    h.count("sibling-isolation-grammar")


def float_refinements(h: Harness):
    """FloatRange / FloatList fields (floats are not modelled: the range check is done here) in every representation,
    on created genotypes AND on mutated / crossed ones (operators rewrite genes with other ranges than creation uses)"""
    from linear import DSGE, GE, SGE, Stack, safe
    from geneticengine.random.sources import NativeRandomSource
    from geneticengine.representations.tree.treebased import TreeBasedRepresentation
    C = gram.ClassSpec
    spec = gram.Spec([C("A0", True, None), C("Leaf", False, 0, [("x", ("ann", "float", "floatRange")), ("k", ("ann", "int", ("intRange", 0, 3)))]),
                      C("Pick", False, 0, [("y", ("ann", "float", ("floatList", 4)))]),
                      C("Node", False, 0, [("l", ("cls", 0)), ("r", ("cls", 0)), ("z", ("ann", "float", "floatRange"))]),
                      # integer refinements wider than the 0..1024 a freshly created dynamic-SGE gene covers
                      C("Wide", False, 0, [("w", ("ann", "int", ("intRange", -3000, 3000))), ("iv", ("ann", ("tuple", "int", "int"), ("interval", 5, 10, 5000))),
                                           ("n", ("ann", "int", ("intList", [7, 70000, -9])))])], 0, [1, 2, 3, 4])
    line_spec = gram.spec_sx(spec)
    b = gram.build(spec)
    g = b.extract()
    rng = h.rng

    def bad_floats(p):
        out = []
        stack = [p]
        while stack:
            v = stack.pop()
            if type(v) in b.index:
                for (fn, ft) in spec.classes[b.index[type(v)]].fields:
                    x = getattr(v, fn)
                    if ft == ("ann", "float", "floatRange") and not (type(x) is float and -1.5 <= x <= 2.5):
                        out.append(f"{type(v).__name__}.{fn} = {x!r} is not a float in FloatRange(-1.5, 2.5)")
                    elif ft == ("ann", "float", ("floatList", 4)) and x not in (0.0, 0.5, 1.0, 1.5):
                        out.append(f"{type(v).__name__}.{fn} = {x!r} is not in FloatList([0.0, 0.5, 1.0, 1.5])")
                    stack.append(x)
            elif isinstance(v, (list, tuple)):
                stack.extend(v)
        return out

    for trial in range(h.n(12, 120)):
        shared = NativeRandomSource(rng.randrange(10**6))
        reps = [("tree", TreeBasedRepresentation(g, synth.make_decider("grow", 4, shared, g))),
                ("GE", GE(g, synth.make_decider("grow", 4, shared, g), gene_length=32)),
                ("SGE", SGE(g, synth.make_decider("grow", 4, shared, g), gene_length=32)),
                ("DynamicSGE", DSGE(g, 4))]
        for name, rep in reps:
            st, geno = safe(lambda: rep.create_genotype(shared))
            if st != "ok":
                continue
            prev = geno
            for step in range(6):
                st, p = safe(lambda: rep.genotype_to_phenotype(geno))
                if st == "ok":
                    h.count(f"float-fields:{name}")
                    h.seen(f"float:{name}:{trial}:{step}", nontrivial=True)
                    bad = bad_floats(p)
                    if bad:
                        h.fail(f"{name}.genotype_to_phenotype", "refinement-violated",
                               f"after {step} variation steps: {bad[0]} ({len(bad)} fields)", [name, trial, step])
                        break
                    c = gram.canon(p, b)
                    h.holds(f"{name}.genotype_to_phenotype", "refinement-violated", ["prop_wt", line_spec, c],
                            f"after {step} variation steps the program violates a refinement (or is ill-typed): {sx(c)[:200]}", [name, trial, step],
                            nontrivial=count_refined(sx(c)) >= 2)
                st, nxt = safe(lambda: rep.mutate(shared, geno) if step % 3 != 2 else rep.crossover(shared, geno, prev)[0])
                if st != "ok":
                    break
                prev, geno = geno, nxt


def float_edge_bounds(h: Harness):
    """FloatRange whose bounds are written as int literals beyond 2**53 (no exact float form: the nearest float lies OUTSIDE the range),
    as equal bounds, or one ulp apart, generated from the genotype-backed sources at the genes that select the ends of the range: the value
    is a float inside the range, and the handler's own validate() accepts it"""
    import sys
    from geneticengine.grammar.metahandlers.floats import FloatRange
    from geneticengine.representations.grammatical_evolution import dynamic_structured_ge as dsge
    from geneticengine.representations.grammatical_evolution.ge import ListWrapper as GEListWrapper
    from geneticengine.representations.grammatical_evolution.structured_ge import StructuredListWrapper
    from geneticengine.representations.stackgggp import ListWrapper as StackListWrapper
    b = host()
    g = b.grammar
    bounds = [(-(2**53) - 3, 2**53 + 3), (0, sys.maxsize), (0, 2**60 + 129), (-(2**53) - 1, 5), (-sys.maxsize, sys.maxsize), (-(2**60) - 129, -(2**60)),
              (0.9, 0.9), (0.7, 0.7000000000000001), (-1.5, 2.5), (3, 3)]
    genes = (0, 1, 2, 512, 1023, 1024, 1025, 2048, sys.maxsize, sys.maxsize - 1, sys.maxsize // 2, 2 * sys.maxsize)
    for lo, hi in bounds:
        mh = FloatRange(lo, hi)
        for gene in genes:
            sources = [("ge.ListWrapper", lambda: GEListWrapper([gene, gene, gene])), ("stackgggp.ListWrapper", lambda: StackListWrapper([gene, gene, gene])),
                       ("StructuredListWrapper", lambda: StructuredListWrapper({"$infrastructure": [gene, gene, gene], "float": [gene, gene]})),
                       ("GenotypeBackedSource", lambda: dsge.GenotypeBackedSource(dsge.DynamicSGEDecider(dsge.Genotype(ScriptedSource([]), {float: [gene]}), g, max_depth=5)))]
            for name, mk in sources:
                try:
                    v = mh.generate(mk(), g, float, None, {})
                except Exception as e:  # noqa: BLE001
                    h.count(f"float-edge-bounds:{name}:raises:{type(e).__name__}")
                    continue
                h.count(f"float-edge-bounds:{name}")
                h.seen(f"float-edge:{name}:{lo}:{hi}:{gene}", nontrivial=True)
                if not (type(v) is float and lo <= v <= hi):
                    h.fail("FloatRange.generate", "generated-value-violates-refinement",
                           f"FloatRange({lo}, {hi}).generate from a {name} whose genes are {gene} returned {v!r}, which is not a float inside the range", [name, lo, hi, gene])
                elif not mh.validate(v):
                    h.fail("FloatRange.validate", "validate-rejects-generated-value", f"FloatRange({lo}, {hi}).validate rejects {v!r}, a value its own generate() produced ({name})",
                           [name, lo, hi, gene])


def foreign_options(h: Harness):
    """VarRange whose options are not strings although the field is declared `str` (class labels from a dataset, as the geml
    rule-set classifier passes them): the generated value is ONE OF THE OPTIONS, as given"""
    import ctxgrammar
    from ctxgrammar import Klass
    from linear import DSGE, GE, SGE, safe
    from geneticengine.random.sources import NativeRandomSource
    from geneticengine.representations.tree.treebased import TreeBasedRepresentation
    options = ctxgrammar.LABELS
    g = ctxgrammar.labels_grammar()
    rng = h.rng

    def bad(p):
        if isinstance(p, Klass):
            return [] if any(p.value is o or (type(p.value) is type(o) and p.value == o) for o in options) else [p.value]
        return bad(p.l) + bad(p.r)
    for trial in range(h.n(5, 40)):
        r = NativeRandomSource(rng.randrange(10**6))
        for name, rep in (("tree", TreeBasedRepresentation(g, synth.make_decider("grow", 4, r, g))), ("GE", GE(g, synth.make_decider("grow", 4, r, g), gene_length=32)),
                          ("SGE", SGE(g, synth.make_decider("grow", 4, r, g), gene_length=32)), ("DynamicSGE", DSGE(g, 4))):
            st, geno = safe(lambda: rep.create_genotype(r))
            if st != "ok":
                continue
            st, p = safe(lambda: rep.genotype_to_phenotype(geno))
            if st != "ok":
                continue
            h.count(f"foreign-options:{name}")
            h.seen(f"foreign-options:{name}:{trial}", nontrivial=True)
            wrong = bad(p)
            if wrong:
                h.fail("VarRange.generate", "generated-value-violates-refinement",
                       f"VarRange({options}) on a field declared str generated {wrong[0]!r}, which is not one of its options ({name})", [name, trial])


def weighted_strings(h: Harness):
    """fixed-length weighted strings (WeightedStringHandler with a probability matrix that has ordinary rows, rows with zero entries,
    an all-zero row and a row below the chooser's resolution): every string any representation creates has one letter per row,
    all from the alphabet, never a letter of probability 0 where the row has usable weights -- and the handler's own validity
    check accepts it"""
    import wsgrammar
    from linear import DSGE, GE, SGE, safe
    from geneticengine.random.sources import NativeRandomSource
    from geneticengine.representations.tree.treebased import TreeBasedRepresentation
    g = wsgrammar.grammar()
    matrix = wsgrammar.MATRIX.copy()
    letters = ["A", "C", "G", "T"]
    rng = h.rng
    r = NativeRandomSource(rng.randrange(10**6))
    reps = [("tree", TreeBasedRepresentation(g, synth.make_decider("grow", 3, r, g))), ("GE", GE(g, synth.make_decider("grow", 3, r, g), gene_length=48)),
            ("SGE", SGE(g, synth.make_decider("grow", 3, r, g), gene_length=48)), ("DynamicSGE", DSGE(g, 3))]
    for name, rep in reps:
        for trial in range(h.n(10, 80)):
            st, geno = safe(lambda: rep.create_genotype(r))
            if st != "ok":
                continue
            if trial % 2:
                st, geno = safe(lambda: rep.mutate(r, geno))
                if st != "ok":
                    continue
            st, p = safe(lambda: rep.genotype_to_phenotype(geno))
            if st != "ok":
                continue
            todo = [p]
            while todo:
                x = todo.pop()
                if isinstance(x, wsgrammar.Join):
                    todo += [x.l, x.r]
                    continue
                s = x.s
                h.count(f"weighted-strings:{name}")
                h.seen(f"ws:{name}:{s}", nontrivial=True)
                site = f"{name}.genotype_to_phenotype" if name != "tree" else "TreeBasedRepresentation.create_genotype"
                bad = None
                if not isinstance(s, str) or len(s) != len(matrix) or any(ch not in letters for ch in s):
                    bad = f"{s!r} is not a string of {len(matrix)} letters over {letters}"
                else:
                    for pos, ch in enumerate(s):
                        row = matrix[pos]
                        if int(sum(row) * 100000) > 0 and row[letters.index(ch)] == 0:
                            bad = f"{s!r} has letter {ch!r} at position {pos}, where its probability is 0 (row {row.tolist()})"
                if bad:
                    h.fail(site, "refinement-violated", f"WeightedStringHandler field: {bad}", [name, trial, repr(s)])
                elif not wsgrammar.HANDLER.validate(s):
                    h.fail("WeightedStringHandler.validate", "validate-rejects-generated-value",
                           f"WeightedStringHandler.validate rejects {s!r}, a value its own generate() produced ({name})", [name, trial, s])
    # every draw at and around every boundary of the accumulated weights (the draws a genotype-driven source makes as readily as any
    # other: gene 0, a multiple of the row total), rows whose FIRST letters have probability 0 included
    import numpy as np
    from core import ScriptedSource
    from geneticengine.grammar.metahandlers.strings import WeightedStringHandler
    m2 = np.array([[0.0, 0.5, 0.25, 0.25], [0.0, 0.0, 1.0, 0.0], [0.25, 0.0, 0.0, 0.75], [0.5, 0.5, 0.0, 0.0], [0.125, 0.125, 0.25, 0.5]])
    h2 = WeightedStringHandler(m2, letters)
    bounds = []
    for row in m2:
        acc, t = [], 0.0
        for x in row:
            t += float(x)
            acc.append(int(t * 100000))
        bounds.append(sorted({d % acc[-1] for a in acc for d in (a - 1, a, a + 1)} | {0, acc[-1] - 1}))
    scripts = [[bs[min(k, len(bs) - 1)] for bs in bounds] for k in range(max(len(bs) for bs in bounds))]
    scripts += [[rng.choice(bs) for bs in bounds] for _ in range(h.n(40, 400))]
    for script in scripts:
        try:
            s2 = h2.generate(ScriptedSource(script), g, str, None, {})
        except Exception as e:  # noqa: BLE001
            h.fail("WeightedStringHandler.generate", "raises", f"generate raised {type(e).__name__}: {e} on draws {script}", [script])
            continue
        h.count("weighted-strings:boundary-draws")
        h.seen(f"ws:boundary:{script}", nontrivial=True)
        if isinstance(s2, str) and all(ch in letters for ch in s2):
            # level A: the model's generate (rows as numerators over 8) picks the same letters for the same draws
            h.agree("WeightedStringHandler.generate", ["ws_generate", 8, [[int(round(float(x) * 8)) for x in row] for row in m2], list(script)],
                    ["ok", [letters.index(ch) for ch in s2]], nontrivial=True)
        bad = None
        if not isinstance(s2, str) or len(s2) != len(m2) or any(ch not in letters for ch in s2):
            bad = f"{s2!r} is not a string of {len(m2)} letters over {letters}"
        else:
            for pos, ch in enumerate(s2):
                if m2[pos][letters.index(ch)] == 0:
                    bad = f"{s2!r} has letter {ch!r} at position {pos}, where its probability is 0 (row {m2[pos].tolist()}, draw {script[pos]})"
                    break
        if bad:
            h.fail("WeightedStringHandler.generate", "refinement-violated", f"WeightedStringHandler field, draws {script}: {bad}", [script, repr(s2)])
    wsgrammar.MATRIX[:] = matrix


def handed_down_values(h: Harness):
    """a dependent refinement evaluated against the actual sibling value hands a value down to the child (rec(..., initial_values=...));
    the child carries exactly that value -- 0 included -- in every representation, after mutation and crossover too"""
    import ctxgrammar
    from linear import DSGE, GE, SGE, safe
    from geneticengine.random.sources import NativeRandomSource
    from geneticengine.representations.tree.treebased import TreeBasedRepresentation
    g = ctxgrammar.levels_grammar()
    rng = h.rng
    for trial in range(h.n(6, 40)):
        r = NativeRandomSource(rng.randrange(10**6))
        reps = [("tree", TreeBasedRepresentation(g, synth.make_decider("grow", 6, r, g))), ("GE", GE(g, synth.make_decider("grow", 6, r, g), gene_length=64)),
                ("SGE", SGE(g, synth.make_decider("grow", 6, r, g), gene_length=64)), ("DynamicSGE", DSGE(g, 6))]
        for name, rep in reps:
            st, a = safe(lambda: rep.create_genotype(r))
            st2, b_ = safe(lambda: rep.create_genotype(r))
            if st != "ok" or st2 != "ok":
                continue
            genos = [a, b_]
            for op in (lambda: rep.mutate(r, a), lambda: rep.mutate(r, b_)):
                st, m = safe(op)
                if st == "ok":
                    genos.append(m)
            st, cs = safe(lambda: rep.crossover(r, a, b_))
            if st == "ok":
                genos += list(cs)
            for geno in genos:
                st, p = safe(lambda: rep.genotype_to_phenotype(geno))
                if st != "ok":
                    continue
                h.count(f"handed-down-values:{name}")
                h.seen(f"levels:{name}:{repr(p)[:70]}", nontrivial="LNest" in repr(p))
                bad = ctxgrammar.level_violations(p)
                if bad:
                    site = f"{name}.genotype_to_phenotype" if name != "tree" else "TreeBasedRepresentation.create_genotype"
                    h.fail(site, "refinement-violated", f"{bad[0]} ({len(bad)} violations) in {repr(p)[:160]}", [name, trial])
                    break


def string_operators(h: Harness):
    """the refinement's OWN variation operators (the tree representation calls them whenever a refined string field is picked): for every
    bound pair -- equal bounds included --, every valid current string and every sequence of draws, what StringSizeBetween.mutate /
    .crossover return is still inside the refinement (judged by the Lean predicate) and accepted by the handler's validate()"""
    import itertools
    import types
    from core import ScriptedSource
    b = host()
    for al in (["a"], ["a", "b"], ["x", "y", "z"]):
        for lo in range(0, 4):
            for hi in range(lo, 4):
                mh = ("strSize", lo, hi, al)
                pymh = StringSizeBetween(lo, hi, al)
                currents = ["".join(t) for n in range(lo, hi + 1) for t in itertools.product(al[:2], repeat=n)]
                for cur in currents:
                    for script in itertools.product(range(3), range(max(1, len(cur) + 1)), range(len(al))):
                        for opname in ("mutate", "crossover"):
                            if opname == "crossover" and script[0] > 1:
                                continue
                            site = f"StringSizeBetween.{opname}"
                            if opname == "mutate":
                                line = ["str_mutate", lo, hi, al, list(cur), list(script)]
                            else:
                                mate_strs = currents[:: max(1, len(currents) // 4)]
                                draws = [script[1], script[0] + script[2], script[2]]
                                line = ["str_crossover", lo, hi, [list(m) for m in mate_strs], list(cur), draws]
                            try:
                                if opname == "mutate":
                                    v = pymh.mutate(ScriptedSource(list(script)), b.grammar, None, 2, str, cur)
                                else:
                                    mates = [types.SimpleNamespace(s=m) for m in mate_strs]
                                    v = pymh.crossover(ScriptedSource(draws), b.grammar, mates, "s", str, cur)
                            except Exception as e:  # noqa: BLE001   (an operator may give up; C02 speaks about the values it returns)
                                h.count(f"StringSizeBetween.{opname}:raises:{type(e).__name__}")
                                # level A: the model gives up on exactly the same draws (an empty range handed to randint)
                                h.agree(site, line, "error", nontrivial=False)
                                continue
                            h.count(f"StringSizeBetween.{opname}:values")
                            if isinstance(v, str):
                                h.agree(site, line, ["ok", list(v)], nontrivial=v != cur)
                            c = gram.canon(v, b) if isinstance(v, str) else ["v", repr(v)]
                            h.holds(site, "operator-value-violates-refinement", ["prop_sat", gram.mh_sx(mh), [], c],
                                    f"StringSizeBetween({lo}, {hi}, {al}).{opname} of {cur!r} with draws {list(script)} returned {v!r}, which violates "
                                    f"{lo} <= len <= {hi} over the alphabet", [lo, hi, al, cur, list(script), opname], nontrivial=v != cur)
                            if isinstance(v, str) and lo <= len(v) <= hi and not pymh.validate(v):
                                h.fail(f"StringSizeBetween.validate", "validate-rejects-generated-value",
                                       f"StringSizeBetween({lo}, {hi}, {al}).validate rejects {v!r}, returned by its own {opname}", [lo, hi, al, cur, list(script)])


def run(h: Harness):
    boxes(h)
    string_operators(h)
    float_lists(h)
    long_derivations(h)
    weighted_strings(h)
    handed_down_values(h)
    float_refinements(h)
    float_edge_bounds(h)
    foreign_options(h)
    sibling_isolation(h)
    # a refinement re-declared on an already used class (the documented `Cls.__init__.__annotations__[f] = ...` idiom):
    # the next grammar must generate from the NEW refinement
    import props.c01 as c01
    c01.retarget_scenario(h, h.rng)
    programs(h)
