"""C15 -- population size is invariant across generations and step compositions.

Implementation side (all real code from /repo): `ParallelStep.compute_ranges`, every built-in
step's `apply` on list / `Population` / one-shot-iterator inputs, step compositions to depth 3,
`EvaluateStep`, the initialisers (`StandardInitializer`, `InjectInitialPopulationWrapper`,
`HalfAndHalfInitializer`, `Full/Grow/PositionIndependentGrowInitializer`), and whole
`GeneticProgramming.search()` runs observed through a `SearchRecorder`.
Model side: lean/GEVerif/Model/Steps.lean; theorems: lean/GEVerif/Props/C15.lean.
"""
from __future__ import annotations

import itertools
from abc import ABC
from dataclasses import dataclass

from core import Harness

from props import steps_common as sc
from props.steps_common import FORMS, StubRep, TwoStreamSource

from geneticengine.algorithms.gp.gp import GeneticProgramming, default_generic_programming_step
from geneticengine.algorithms.gp.operators.combinators import ExclusiveParallelStep, IdentityStep, ParallelStep
from geneticengine.algorithms.gp.operators.evaluation import EvaluateStep
from geneticengine.algorithms.gp.operators.initializers import HalfAndHalfInitializer, StandardInitializer
from geneticengine.algorithms.gp.population import Population
from geneticengine.algorithms.gp.structure import PopulationInitializer
from geneticengine.evaluation.budget import SearchBudget
from geneticengine.evaluation.recorder import SearchRecorder
from geneticengine.evaluation.sequential import SequentialEvaluator
from geneticengine.evaluation.tracker import MultiObjectiveProgressTracker, SingleObjectiveProgressTracker
from geneticengine.grammar.grammar import extract_grammar
from geneticengine.problems import SingleObjectiveProblem
from geneticengine.random.sources import NativeRandomSource
from geneticengine.representations.tree.initializations import MaxDepthDecider
from geneticengine.representations.tree.operators import (
    FullInitializer,
    GrowInitializer,
    InjectInitialPopulationWrapper,
    PositionIndependentGrowInitializer,
)
from geneticengine.representations.tree.treebased import TreeBasedRepresentation
from geneticengine.solutions.individual import Individual

RULE = ("compute_ranges: EVERY (target 0..8 [thorough 0..12]) x weight vector over {0..3}^3 (thorough {0..4}^3, {0..3}^4, all "
        "vectors of length 1,2 over {0..4}, dyadic float weights) with input populations of the target size and of other sizes; "
        "steps: every built-in step x {list, Population, one-shot iterator} x every (len<=6, k<=len); compositions: seeded random "
        "step trees of depth<=3 over all step kinds with weights from {0..3} (zeros, over/under-shooting shares) on populations "
        "2..9 with ties and identity-duplicates; initialisers: every (k<=6, injected 0..k+2) x backup initialiser; "
        "GeneticProgramming.search with a recording SearchRecorder (stub representation under scripted draws, and the tree "
        "representation under NativeRandomSource) for population sizes 2..13. Non-trivial: target>=2 and at least two positive "
        "weights / a population of >=2 / a composition containing a combinator; distinct = distinct protocol lines")
ASSUMPTIONS = [
    "integer (and dyadic-float) weights only: for those int(round(w*n/total, 0)) is round-half-even of the exact rational (2*w*n < 2^53); other float weights are modelled as exact rationals and not compared",
    "all-zero weight vectors raise ZeroDivisionError in compute_ranges (model: error); the size theorem assumes a positive total weight",
    "the representation is a stub (genotype = (id, aggregate, components)); draws made by real representations inside mutate/crossover/create are outside this model",
    "where a mutation step lazily consumes another creating step the real float-draw / creation order is interleaved; such compositions are compared with a constant float script and masked ids of created individuals (order-insensitive observables)",
    "EvaluateStep yields its whole input whatever target_size is; SequenceStep() with no steps likewise; both are outside the size theorem's step tree (checked separately)",
    "adaptive.py / parameterless.py (time budgets, population size re-drawn on purpose) are not modelled",
    "GrowInitializer terminates (it retries until target_size individuals exist); only its count is modelled",
]


def err(x):
    return "error" if isinstance(x, str) else x


# ----------------------------------------------------------------------------------------
# A. compute_ranges
# ----------------------------------------------------------------------------------------

def ranges_of(ws, pop_len, target):
    step = ParallelStep([IdentityStep() for _ in ws], list(ws))
    try:
        return [list(r) for r in step.compute_ranges(list(range(pop_len)), target)]
    except Exception as e:  # noqa: BLE001
        return f"error:{type(e).__name__}"


def check_ranges(h: Harness):
    targets = range(0, 13) if h.thorough else range(0, 9)
    vectors = list(itertools.product(range(4), repeat=3))
    vectors += list(itertools.product(range(5), repeat=1)) + list(itertools.product(range(5), repeat=2))
    if h.thorough:
        vectors = list(itertools.product(range(5), repeat=3)) + list(itertools.product(range(4), repeat=4)) + vectors[64:]
    vectors += [(5, 5, 90), (1, 1, 1, 1, 1), (1, 0, 0, 0, 7), (2, 3), (0, 0, 1), (3, 3, 3, 3, 3, 3)]
    for target in targets:
        for ws in vectors:
            ws = list(ws)
            for pop_len in sorted({target, target + 3}):
                rs = ranges_of(ws, pop_len, target)
                nontrivial = target >= 2 and sum(1 for w in ws if w > 0) >= 2
                h.count(f"ranges:weights={len(ws)}")
                h.agree("ParallelStep.compute_ranges", ["ranges", ws, target], err(rs), nontrivial=nontrivial,
                        replay={"weights": ws, "population": pop_len, "target": target})
                if sum(ws) == 0:
                    h.count("ranges:zero-total(error)")
                    continue
                if isinstance(rs, str):
                    h.fail("ParallelStep.compute_ranges", "raises", f"compute_ranges(weights={ws}, len={pop_len}, target={target}) raised {rs}",
                           {"weights": ws, "population": pop_len, "target": target})
                    continue
                sizes = [b - a for a, b in rs]
                h.holds("ParallelStep.compute_ranges", "sizes-not-target", ["prop_ranges", ws, target, rs],
                        f"compute_ranges(weights={ws}, population of {pop_len}, target_size={target}) = {rs}: slice sizes {sizes} "
                        f"sum to {sum(sizes)}, not {target}", {"weights": ws, "population": pop_len, "target": target}, nontrivial=nontrivial)
    # dyadic float weights: the float expression is exact, the model runs on the scaled integers
    for target in (3, 5, 8):
        for ws in itertools.product(range(4), repeat=3):
            if sum(ws) == 0:
                continue
            fw = [w / 4 for w in ws]
            step = ParallelStep([IdentityStep() for _ in ws], fw)
            try:
                rs = [list(r) for r in step.compute_ranges(list(range(target)), target)]
            except Exception as e:  # noqa: BLE001
                rs = f"error:{type(e).__name__}"
            h.count("ranges:dyadic-float")
            h.agree("ParallelStep.compute_ranges", ["ranges", list(ws), target], err(rs), replay={"weights": fw, "target": target})
    h.exhaustive = True


# ----------------------------------------------------------------------------------------
# B/C. steps and compositions
# ----------------------------------------------------------------------------------------

SITE = {"identity": "IdentityStep", "elitism": "ElitismStep", "novelty": "NoveltyStep", "tournament": "TournamentSelection",
        "lexicase": "LexicaseSelection", "mutation": "GenericMutationStep", "crossover": "GenericCrossoverStep",
        "seq": "SequenceStep", "par": "ParallelStep", "xpar": "ExclusiveParallelStep"}


def site_of(s) -> str:
    return SITE[s if isinstance(s, str) else s[0]] + ".apply"


def run_case(h: Harness, step, form, triples, k, mins, ints, floats, tag, step_obj=None):
    """one application of a step tree: level A (individuals) and level B (count)."""
    ncomps = len(mins)
    rep = StubRep(ncomps)
    problem = sc.make_problem(mins)
    inds = sc.make_pop(rep, triples)
    amb = sc.ambiguous(step)
    if amb:
        floats = [floats[0] if floats else 0] * 64
    src = TwoStreamSource(ints, floats)
    res = sc.run_step(step_obj if step_obj is not None else sc.real_step(step), problem, rep, src, sc.as_form(form, inds, problem), k)
    replay = {"step": sc.step_str(step), "form": form, "population": sc.enc_triples(triples), "k": k, "minimize": mins,
              "ints": ints, "floats": floats[:8]}
    nontrivial = len(triples) >= 2 and k >= 1
    h.count(f"{tag}:{form}")
    h.count("compare:masked-ids" if amb else "compare:full")
    out = "error" if isinstance(res, str) else sc.mask_pop(sc.enc_pop(res), amb)
    h.agree(site_of(step), ["apply", sc.step_sx(step), form, sc.enc_triples(triples), k, ints, floats, ncomps, amb], out,
            nontrivial=nontrivial, replay=replay)
    if len(triples) >= k:
        if isinstance(res, str):
            h.fail(site_of(step), "raises", f"{sc.step_str(step)}.apply on a {form} of {len(triples)} individuals, target_size={k}: {res}", replay)
        else:
            h.holds(site_of(step), "wrong-count", ["prop_count", k, len(res)],
                    f"{sc.step_str(step)}.apply on a {form} of {len(triples)} individuals, target_size={k}, yielded {len(res)} individuals",
                    replay, nontrivial=nontrivial)
    return res


def single_steps(n, mins):
    yield "identity"
    yield "elitism"
    yield "novelty"
    for ts in sorted({1, 2, n, n + 2}):
        for wr in (False, True):
            yield ("tournament", ts, wr)
    yield ("lexicase", mins, False)
    yield ("lexicase", mins, True)
    for m in (0, 500, 1001):
        yield ("mutation", m)
        yield ("crossover", m)


def check_single_steps(h: Harness):
    rng = h.rng
    for n in range(0, (8 if h.thorough else 7)):
        for rep_i in range(h.n(1, 4)):
            mins = [rng.random() < 0.5 for _ in range(rng.choice([1, 2, 3]))]
            triples = sc.gen_triples(rng, n, len(mins), dup=False)
            for step in single_steps(n, mins):
                for k in range(0, n + 1):
                    for form in FORMS:
                        ints = [rng.randrange(0, 12) for _ in range(40)]
                        floats = [rng.randrange(0, 1000) for _ in range(20)]
                        run_case(h, step, form, triples, k, mins, ints, floats, "single")
    # outside the precondition (target_size above the population): the model predicts the outcome too
    for n in (1, 2, 3):
        mins = [False, True]
        triples = sc.gen_triples(rng, n, 2, dup=False)
        for step in ["identity", "elitism", "novelty", ("tournament", 2, False), ("tournament", 2, True), ("mutation", 1001),
                     ("crossover", 1001), ("lexicase", mins, False)]:
            for k in (n + 1, n + 3):
                ints = [rng.randrange(0, 12) for _ in range(40)]
                run_case(h, step, "list", triples, k, mins, ints, [0] * 8, "beyond-population")


CORPUS_STEPS = [
    # the defects of the pinned tree, as step trees (population size, form) -- replayed first on every run
    (("par", ["identity", "identity", "identity"], [1, 1, 0]), 3),
    (("par", ["elitism", "novelty", ("mutation", 1001)], [1, 1, 0]), 3),
    (("xpar", [("mutation", 1001), ("crossover", 1001), "identity"], [1, 1, 0]), 3),
    (("par", ["elitism", "novelty", ("seq", [("tournament", 5, False), ("crossover", 10), ("mutation", 901)])], [5, 5, 90]), 10),
    (("par", ["elitism", "novelty", ("seq", [("tournament", 5, False), ("crossover", 10), ("mutation", 901)])], [5, 5, 90]), 7),
    (("par", ["elitism", ("tournament", 1, False)], [1, 2]), 6),
    (("seq", [("tournament", 1, False), "elitism"]), 5),
    (("seq", [("mutation", 500), ("tournament", 2, True), "novelty", ("tournament", 2, False)]), 4),
    (("par", [("par", ["identity", "novelty"], [1, 1]), ("xpar", ["elitism", ("mutation", 0)], [1, 3])], [2, 3]), 9),
    (("seq", [("lexicase", [False, True], False), ("xpar", [("mutation", 1001), ("crossover", 1001)], [1, 1])]), 6),
]


def check_compositions(h: Harness):
    rng = h.rng
    cases = []
    for step, n in CORPUS_STEPS:
        for form in FORMS:
            cases.append((step, n, n, form, [False, True]))
    for _ in range(h.n(1200, 60000)):
        mins = [rng.random() < 0.5 for _ in range(rng.choice([1, 2, 3]))]
        step = sc.gen_step(rng, rng.choice([1, 2, 2, 3, 3]), mins)
        n = rng.randint(2, 9)
        k = n if rng.random() < 0.7 else rng.randint(0, n)
        cases.append((step, n, k, rng.choice(FORMS), mins))
    for step, n, k, form, mins in cases:
        triples = sc.gen_triples(rng, n, len(mins))
        ints = [rng.randrange(0, 30) for _ in range(120)]
        floats = [rng.randrange(0, 1000) for _ in range(60)]
        h.count(f"composition:depth={sc.depth(step)}")
        for kd in sc.kinds(step):
            h.count(f"composition:has-{kd}")
        run_case(h, step, form, triples, k, mins, ints, floats, "composition")


def check_reuse(h: Harness):
    """the SAME step object applied again with another target size / population (a population-size sweep, a
    sub-step placed in two slices): every application is judged like a first one (the model is stateless)"""
    rng = h.rng
    for _ in range(h.n(150, 4000)):
        mins = [rng.random() < 0.5 for _ in range(rng.choice([1, 2]))]
        step = sc.gen_step(rng, rng.choice([1, 2, 2, 3]), mins)
        obj = sc.real_step(step)
        for app in range(3):
            n = rng.randint(2, 12)
            k = n if rng.random() < 0.6 else rng.randint(0, n)
            triples = sc.gen_triples(rng, n, len(mins))
            ints = [rng.randrange(0, 30) for _ in range(120)]
            floats = [rng.randrange(0, 1000) for _ in range(60)]
            run_case(h, step, rng.choice(FORMS), triples, k, mins, ints, floats, f"reuse:application-{app + 1}", step_obj=obj)


def check_unordered_fitness_and_parallel(h: Harness):
    """populations the model cannot rank (a NaN aggregate / NaN objectives: fitness functions do return NaN) and steps
    driven by the ParallelEvaluator (duplicate objects in the population): only the COUNT is judged here"""
    import warnings
    from geneticengine.evaluation.parallel import ParallelEvaluator
    from geneticengine.problems import MultiObjectiveProblem
    warnings.filterwarnings("ignore", category=RuntimeWarning)   # numpy: median of an all-NaN slice (epsilon-lexicase)
    rng = h.rng
    nan = float("nan")
    steps = [("elitism", "elitism"), ("novelty", "novelty"), ("tournament(2,False)", ("tournament", 2, False)), ("tournament(3,True)", ("tournament", 3, True)),
             ("lexicase", ("lexicase", [False, True], False)), ("lexicase-eps", ("lexicase", [False, True], True)),
             ("par[elitism,seq[tournament,mutation]]", ("par", ["elitism", ("seq", [("tournament", 2, False), ("mutation", 1001)])], [1, 1])),
             ("seq[tournament,elitism]", ("seq", [("tournament", 2, False), "elitism"])),
             ("xpar[elitism,crossover]", ("xpar", ["elitism", ("crossover", 1001)], [1, 2]))]
    for trial in range(h.n(40, 400)):
        n = rng.randint(2, 10)
        rep = StubRep(2)
        # aggregate = default aggregate of the components; some components (hence aggregates) are NaN
        comps = [[rng.choice([0.0, 1.0, 2.0, nan, nan]), rng.choice([0.0, 1.0, 2.0, 3.0, nan])] for _ in range(n)]
        if trial % 5 == 0:
            comps = [[nan, nan] for _ in range(n)]
        problem = MultiObjectiveProblem([False, True], lambda p: list(p[2]))
        inds = [Individual((i, 0, tuple(c)), rep) for i, c in enumerate(comps)]
        for sname, s_ in steps:
            k = rng.choice([1, 2, n // 2, n - 1, n])
            k = max(0, min(k, n))
            form = rng.choice(FORMS)
            res = sc.run_step(sc.real_step(s_), problem, rep, TwoStreamSource([rng.randrange(0, 50) for _ in range(200)], [rng.randrange(0, 1000) for _ in range(100)]),
                              sc.as_form(form, inds, problem), k)
            site = site_of(s_)
            replay = {"step": sname, "components": [[repr(x) for x in c] for c in comps], "k": k, "form": form}
            h.count("nan-fitness:" + sname)
            h.seen(f"nan:{trial}:{sname}:{k}:{form}", nontrivial=n >= 2 and k >= 1)
            if isinstance(res, str):
                h.fail(site, "raises", f"{sname}.apply on a {form} of {n} individuals with components {replay['components']} (NaN objectives), target_size={k}: {res}", replay)
            else:
                h.holds(site, "wrong-count", ["prop_count", k, len(res)],
                        f"{sname}.apply on a {form} of {n} individuals some of whose fitness values are NaN, target_size={k}, yielded {len(res)}", replay)
    # the parallel evaluator inside steps; the population holds the same OBJECT more than once (a tournament's output)
    for trial in range(h.n(3, 12)):
        rep = StubRep(1)
        problem = sc.make_problem([False])
        base = sc.make_pop(rep, [(i, rng.randint(0, 5), [rng.randint(0, 3)]) for i in range(3)])
        pop = base + base if trial % 2 == 0 else [base[0], base[1], base[0], base[2], base[1], base[0]]
        for sname, s_ in (("elitism", "elitism"), ("seq[tournament,elitism]", ("seq", [("tournament", 2, False), "elitism"])),
                          ("par[elitism,novelty]", ("par", ["elitism", "novelty"], [2, 1]))):
            k = len(pop)
            try:
                res = list(sc.real_step(s_).apply(problem, ParallelEvaluator(), rep, TwoStreamSource([rng.randrange(0, 50) for _ in range(100)], []), list(pop), k, 1))
            except Exception as e:  # noqa: BLE001
                res = f"error:{type(e).__name__}"
            replay = {"step": sname, "population_ids": [i.genotype[0] for i in pop], "k": k, "evaluator": "ParallelEvaluator"}
            h.count("parallel-evaluator:" + sname)
            h.seen(f"par-ev:{trial}:{sname}", nontrivial=True)
            if isinstance(res, str):
                h.fail(site_of(s_), "raises", f"{sname}.apply with the ParallelEvaluator on objects {replay['population_ids']}, target_size={k}: {res}", replay)
            else:
                h.holds(site_of(s_), "wrong-count", ["prop_count", k, len(res)],
                        f"{sname}.apply with the ParallelEvaluator on a population that holds the same objects twice ({replay['population_ids']}), "
                        f"target_size={k}, yielded {len(res)}", replay)


def check_evaluate_step(h: Harness):
    rng = h.rng
    for n in range(0, 6):
        for form in FORMS:
            mins = [False]
            rep = StubRep(1)
            problem = sc.make_problem(mins)
            triples = sc.gen_triples(rng, n, 1, dup=False)
            inds = sc.make_pop(rep, triples)
            res = sc.run_step(EvaluateStep(), problem, rep, TwoStreamSource([]), sc.as_form(form, inds, problem), n)
            h.count(f"evaluate:{form}")
            h.agree("EvaluateStep.apply", ["evaluate", form, sc.enc_triples(triples)], "error" if isinstance(res, str) else sc.enc_pop(res),
                    nontrivial=n >= 2)
            if isinstance(res, str):
                h.fail("EvaluateStep.apply", "raises", f"EvaluateStep.apply on a {form} of {n}: {res}", {"form": form, "n": n})
            else:
                h.holds("EvaluateStep.apply", "wrong-count", ["prop_count", n, len(res)],
                        f"EvaluateStep.apply on a {form} of {n} individuals, target_size={n}, yielded {len(res)} individuals",
                        {"form": form, "n": n}, nontrivial=n >= 2)


# ----------------------------------------------------------------------------------------
# D. initialisers
# ----------------------------------------------------------------------------------------

def real_init(ini, programs):
    k = ini if isinstance(ini, str) else ini[0]
    if k == "standard":
        return StandardInitializer()
    if k == "full":
        return FullInitializer(2)
    if k == "grow":
        return GrowInitializer()
    if k == "pigrow":
        return PositionIndependentGrowInitializer(2)
    if k == "inject":
        return InjectInitialPopulationWrapper(list(programs[: ini[1]]), real_init(ini[2], programs[ini[1]:]))
    if k == "half":
        return HalfAndHalfInitializer(real_init(ini[1], programs), real_init(ini[2], programs))
    raise ValueError(ini)


def init_sx(ini):
    if isinstance(ini, str):
        return ini
    if ini[0] == "inject":
        return ["inject", ini[1], init_sx(ini[2])]
    return ["half", init_sx(ini[1]), init_sx(ini[2])]


def init_site(ini):
    k = ini if isinstance(ini, str) else ini[0]
    return {"standard": "StandardInitializer", "full": "FullInitializer", "grow": "GrowInitializer",
            "pigrow": "PositionIndependentGrowInitializer", "inject": "InjectInitialPopulationWrapper",
            "half": "HalfAndHalfInitializer"}[k] + ".initialize"


def deep_program(start, depth):
    """a program of the steps_common tree grammar with `depth` nested grammar nodes"""
    below = depth - {sc.Root: 0, sc.Top: 1, sc.Top3: 2}[start]
    t = sc.Leaf(1)
    for j in range(max(0, below - 1)):
        t = sc.Node(t, sc.Leaf(j)) if j % 2 == 0 else sc.Node(sc.Leaf(j), t)
    if start is sc.Top:
        return sc.Top(t)
    if start is sc.Top3:
        return sc.Top3(sc.Top(t))
    return t


def check_population_sizes(h: Harness):
    """a Population holds exactly the individuals it was built from, for every size -- also well beyond any internal batch size"""
    rep = StubRep(1)
    problem = sc.make_problem([False])
    for n in [0, 1, 2, 63, 64, 65, 127, 128, 129, 255, 256, 257, 300, 383, 384, 385, 511, 512, 513, 777, 1024, 1025]:
        for ev in ("sequential",):
            inds = [Individual((i, i % 7, (i % 5,)), rep) for i in range(n)]
            tracker = MultiObjectiveProgressTracker(problem, SequentialEvaluator())
            try:
                got = list(Population(iter(inds), tracker, 0))
            except Exception as e:  # noqa: BLE001
                h.fail("Population.__init__", "raises", f"Population of {n} individuals: {type(e).__name__}: {e}", {"n": n})
                continue
            h.count("population-sizes")
            h.seen(f"population:{n}", nontrivial=n >= 2)
            h.holds("Population.__init__", "wrong-count", ["prop_count", n, len(got)],
                    f"Population built from {n} individuals holds {len(got)}", {"n": n}, nontrivial=n >= 2)
            if [id(x) for x in got] != [id(x) for x in inds] or any(not x.has_fitness(problem) for x in got):
                h.fail("Population.__init__", "not-the-given-individuals", f"Population built from {n} individuals: other individuals, another "
                       f"order, or unevaluated members", {"n": n})


def check_population_object_read_again(h: Harness):
    """a Population object is a collection: counted, looped over, or handed to one step, it can be handed to a step (again) and the step
    still yields exactly target_size individuals -- all of them members of that population"""
    from geneticengine.algorithms.gp.operators.elitism import ElitismStep
    from geneticengine.algorithms.gp.operators.novelty import NoveltyStep
    from geneticengine.algorithms.gp.operators.selection import TournamentSelection
    rng = h.rng
    rep = StubRep(1)
    problem = sc.make_problem([False])
    for trial in range(h.n(30, 200)):
        n = rng.randint(2, 9)
        inds = [Individual((i, rng.randint(0, 5), (rng.randint(0, 5),)), rep) for i in range(n)]
        pop = sc.as_form("population", inds, problem)
        before = rng.choice(["len(list(pop))", "for-loop", "a step", "nothing"])
        if before == "len(list(pop))":
            len(list(pop))
        elif before == "for-loop":
            for _ in pop:
                pass
        elif before == "a step":
            sc.run_step(ElitismStep(), problem, rep, NativeRandomSource(1), pop, 1)
        for sname, mk in (("ElitismStep", ElitismStep), ("TournamentSelection(2)", lambda: TournamentSelection(2, with_replacement=True)),
                          ("ParallelStep([Elitism, Tournament], [1, 2])", lambda: ParallelStep([ElitismStep(), TournamentSelection(2, with_replacement=True)], [1, 2]))):
            k = rng.randint(1, n)
            res = sc.run_step(mk(), problem, rep, NativeRandomSource(rng.randrange(10**6)), pop, k)
            h.count(f"population-object-read-again:{before}")
            h.seen(f"population-again:{trial}:{sname}:{before}:{n}:{k}", nontrivial=before != "nothing")
            replay = {"n": n, "k": k, "step": sname, "before": before}
            if isinstance(res, str):
                h.fail("Population.__iter__", "raises", f"{sname}.apply on a Population object of {n} individuals (read before: {before}), target_size={k}: {res}", replay)
                break
            h.holds("Population.__iter__", "wrong-count", ["prop_count", k, len(res)],
                    f"{sname}.apply on a Population object of {n} individuals that had been read before ({before}; then by the steps before this one), "
                    f"target_size={k}, yielded {len(res)} individuals", replay, nontrivial=True)
            if any(not any(x is i for i in inds) for x in res):
                h.fail("Population.__iter__", "not-the-given-individuals", f"{sname}.apply on a Population object yielded an individual that is not a member", replay)


def check_large_targets(h: Harness):
    """target sizes well beyond the small exhaustive tier (258, 300, 513, 1000: what population_size=300 hands a 90 % crossover slice):
    every step yields exactly what it is asked for"""
    from geneticengine.algorithms.gp.operators.crossover import GenericCrossoverStep
    from geneticengine.algorithms.gp.operators.elitism import ElitismStep
    from geneticengine.algorithms.gp.operators.mutation import GenericMutationStep
    from geneticengine.algorithms.gp.operators.novelty import NoveltyStep
    from geneticengine.algorithms.gp.operators.selection import TournamentSelection
    from geneticengine.algorithms.gp.operators.combinators import SequenceStep
    rng = h.rng
    rep = StubRep(1)
    problem = sc.make_problem([False])
    steps = [("crossover(0)", lambda: GenericCrossoverStep(0.0)), ("crossover(1)", lambda: GenericCrossoverStep(1.0)), ("crossover(0.5)", lambda: GenericCrossoverStep(0.5)),
             ("mutation(0.5)", lambda: GenericMutationStep(0.5)), ("tournament(3)", lambda: TournamentSelection(3, with_replacement=True)), ("elitism", ElitismStep),
             ("novelty", NoveltyStep), ("default", default_generic_programming_step),
             ("tournament;crossover(1);mutation(1)", lambda: SequenceStep(TournamentSelection(2, with_replacement=True), GenericCrossoverStep(1.0), GenericMutationStep(1.0)))]
    for k in (256, 257, 258, 259, 300, 301, 512, 513, 1000) if not h.thorough else tuple(range(250, 270)) + (300, 301, 400, 512, 513, 1000, 1001, 2048):
        inds = [Individual((i, rng.randint(0, 9), (rng.randint(0, 9),)), rep) for i in range(k)]
        for sname, mk in steps:
            res = sc.run_step(mk(), problem, rep, NativeRandomSource(rng.randrange(10**6)), list(inds), k)
            h.count("large-targets")
            h.seen(f"large-target:{sname}:{k}", nontrivial=True)
            replay = {"step": sname, "n": k, "k": k}
            if isinstance(res, str):
                h.fail(f"{sname}.apply", "raises", f"{sname}.apply on {k} individuals, target_size={k}: {res}", replay)
                continue
            h.holds(f"{sname}.apply", "wrong-count", ["prop_count", k, len(res)],
                    f"{sname}.apply on a list of {k} individuals, target_size={k}, yielded {len(res)} individuals", replay, nontrivial=True)


def check_cooperative_gp(h: Harness):
    """CooperativeGP evolves two species in turn, each by a genetic-programming run with ITS configured population size: every
    generation of species k's runs -- what the step receives, what it is asked for and what it yields -- has population{k}_size
    individuals"""
    from geneticengine.algorithms.gp.cooperativegp import CooperativeGP
    from geneticengine.algorithms.gp.structure import GeneticStep
    from geneticengine.evaluation.budget import EvaluationBudget

    class Tap(GeneticStep):
        def __init__(self, inner, log):
            self.inner, self.log = inner, log

        def iterate(self, problem, evaluator, representation, random, population, target_size, generation):
            pop = list(population)
            out = list(self.inner.apply(problem, evaluator, representation, random, iter(pop), target_size, generation))
            self.log.append((len(pop), target_size, len(out)))
            yield from out

    rng = h.rng
    for (n1, n2) in [(5, 8), (9, 4), (6, 6), (3, 11)]:
        g, r, rep1 = sc.tree_setup(rng.randrange(1000))
        _, _, rep2 = sc.tree_setup(rng.randrange(1000))
        rep2 = TreeBasedRepresentation(g, MaxDepthDecider(r, g, 4))
        logs = ([], [])
        desc = f"CooperativeGP(population1_size={n1}, population2_size={n2}, coevolutions=2)"
        replay = {"population1_size": n1, "population2_size": n2}
        try:
            co = CooperativeGP(g, g, lambda a, b_: float(sc.count_nodes(a) - sc.count_nodes(b_)), rep1, rep2, population1_size=n1, population2_size=n2,
                               coevolutions=2, random=r,
                               kwargs1={"budget": EvaluationBudget(4 * n1), "step": Tap(default_generic_programming_step(), logs[0])},
                               kwargs2={"budget": EvaluationBudget(4 * n2), "step": Tap(default_generic_programming_step(), logs[1])})
            co.search()
        except Exception as e:  # noqa: BLE001
            h.fail("CooperativeGP.search", "raises", f"{desc}: {type(e).__name__}: {e}"[:300], replay)
            continue
        h.count("cooperative-gp-runs")
        h.seen(f"cooperative:{n1}:{n2}", nontrivial=True)
        for species, (n, log) in enumerate(zip((n1, n2), logs), start=1):
            if not log:
                h.fail("CooperativeGP.search", "generation-size", f"{desc}: species {species} never ran a generation", replay)
                continue
            for (got, asked, made) in log:
                h.holds("CooperativeGP.search", "generation-size", ["prop_gen_counts", n, [got, asked, made]],
                        f"{desc}: a generation of species {species} (configured with {n} individuals) received {got}, was asked for {asked} and produced {made}", replay)


def check_time_budgets(h: Harness):
    """a time budget decides WHEN the search stops, not how large its generations are: every generation of a run that a TimeBudget
    (alone or inside AnyOf) ends -- the last one included -- has the configured population size.  The clock is the evaluation
    counter (a tracker whose get_elapsed_time() returns the number of evaluations), so that the budget expires in the middle of a
    generation deterministically."""
    from geneticengine.evaluation.budget import AnyOf, EvaluationBudget, TimeBudget
    rng = h.rng

    class EvalClock(SingleObjectiveProgressTracker):
        def get_elapsed_time(self) -> float:
            return float(self.get_number_evaluations())

    for n, limit, wrap in [(6, 15, False), (10, 25, False), (7, 10, True), (5, 12, True), (8, 8, False), (9, 31, True)]:
        g, r, rep = sc.tree_setup(rng.randrange(1000))
        problem = SingleObjectiveProblem(lambda p: float(sc.count_nodes(p)))
        rec = sc.GenRecorder(limit=2000)
        tracker = EvalClock(problem, SequentialEvaluator(), recorders=[rec])
        budget = AnyOf(EvaluationBudget(10 * limit), TimeBudget(limit)) if wrap else TimeBudget(limit)
        desc = f"GeneticProgramming(population_size={n}, budget={'AnyOf(EvaluationBudget, ' if wrap else ''}TimeBudget({limit}){')' if wrap else ''}) on the evaluation clock"
        try:
            GeneticProgramming(problem=problem, budget=budget, representation=rep, random=r, tracker=tracker, population_size=n).search()
            counts = [len(x) for x in rec.generations()]
        except Exception as e:  # noqa: BLE001
            h.fail("GeneticProgramming.search", "raises", f"{desc}: {type(e).__name__}: {e}"[:300], {"n": n, "limit": limit})
            continue
        h.count("time-budget-runs")
        h.seen(f"time-budget:{n}:{limit}:{wrap}", nontrivial=len(counts) >= 2)
        h.holds("GeneticProgramming.search", "generation-size", ["prop_gen_counts", n, counts],
                f"{desc}: individuals per generation {counts}", {"n": n, "limit": limit, "anyof": wrap})


def check_initialisers(h: Harness):
    for setup, tag in ((sc.tree_setup(h.seed), ""), (sc.tree_setup_tight(h.seed), ":limit=minimum=2"), (sc.tree_setup_tight(h.seed, sc.Top3), ":limit=minimum=3")):
        check_initialisers_on(h, setup, tag)


def check_initialisers_on(h: Harness, setup, tag):
    g, r, rep = setup
    problem = SingleObjectiveProblem(lambda p: 0.0)
    backups = ["standard", "full", "grow", "pigrow", ("half", "grow", "full"), ("half", "standard", ("half", "full", "grow")),
               ("inject", 1, "standard"), ("inject", 3, ("half", "grow", "full"))]
    inits = list(backups)
    kmax = 7 if h.thorough else 6
    for b in backups:
        for n in range(0, kmax + 3):
            inits.append(("inject", n, b))
    for ini in inits:
        for k in range(0, kmax + 1):
            if not isinstance(ini, str) and ini[0] == "inject" and ini[1] > k + 2:
                continue
            programs = [rep.create_genotype(r) if i % 2 == 0 else Individual(rep.create_genotype(r), rep) for i in range(16)]
            if k % 2 == 1:
                # some of the user's programs are DEEPER than the representation's depth limit (they come from an earlier run with
                # another limit, or were written by hand): they are injected like any other
                for i in range(0, 16, 3):
                    deep = deep_program(g.starting_symbol, rep.decider.max_depth + 1 + i % 2)
                    programs[i] = deep if i % 2 == 0 else Individual(deep, rep)
                h.count("init:injected-programs-deeper-than-the-limit")
            ids = {}
            for i, p in enumerate(programs):
                ids[id(p)] = i
            try:
                out = list(real_init(ini, programs).initialize(problem, rep, r, k))
            except Exception as e:  # noqa: BLE001
                out = f"error:{type(e).__name__}"
            replay = {"initializer": str(init_sx(ini)), "target_size": k}
            nontrivial = k >= 2
            h.count(f"init:{ini if isinstance(ini, str) else ini[0]}{tag}")
            if isinstance(out, str):
                h.agree(init_site(ini), ["init", init_sx(ini), k], "error", nontrivial=nontrivial, replay=replay)
                h.fail(init_site(ini), "raises", f"{init_sx(ini)}.initialize(target_size={k}) raised {out}", replay)
                continue
            origins = []
            inner_offset = 0
            for ind in out:
                if not isinstance(ind, Individual):
                    origins.append("foreign")
                elif id(ind) in ids:
                    origins.append(f"i{ids[id(ind)]}")
                elif id(ind.genotype) in ids:
                    origins.append(f"i{ids[id(ind.genotype)]}")
                else:
                    origins.append("c")
            # a nested inject wrapper numbers its own programs from 0 (it received the tail of `programs`)
            origins = renumber(ini, origins)
            h.agree(init_site(ini), ["init", init_sx(ini), k], origins, nontrivial=nontrivial, replay=replay)
            h.holds(init_site(ini), "wrong-count", ["prop_count", k, len(out)],
                    f"{init_sx(ini)}.initialize(target_size={k}) yielded {len(out)} individuals", replay, nontrivial=nontrivial)


def renumber(ini, origins):
    """the model numbers the programs of every inject wrapper from 0; the harness hands a nested
    wrapper the programs after those of the outer one."""
    if isinstance(ini, str) or ini[0] != "inject":
        return origins
    outer = ini[1]
    out = []
    for o in origins:
        if o.startswith("i") and int(o[1:]) >= outer:
            out.append(f"i{int(o[1:]) - outer}")
        else:
            out.append(o)
    return out


# ----------------------------------------------------------------------------------------
# E. whole GP runs
# ----------------------------------------------------------------------------------------

def check_gp_stub(h: Harness):
    """GeneticProgramming.search with the stub representation under scripted draws: the model
    reproduces every generation."""
    rng = h.rng
    runs = [(sc.default_step_tree(), n) for n in (2, 3, 7, 10, 13, 20)]
    for _ in range(h.n(120, 5000)):
        mins = [False, True]
        step = sc.gen_step(rng, rng.choice([1, 2, 3]), mins)
        runs.append((step, rng.randint(2, 11)))
    for step, n in runs:
        mins = [False, True]
        gens = rng.choice([1, 2, 3, 5])
        rep = StubRep(2)
        problem = sc.make_problem(mins)
        triples = sc.gen_triples(rng, n, 2, dup=False)
        inds = sc.make_pop(rep, triples)
        amb = sc.ambiguous(step)
        ints = [rng.randrange(0, 30) for _ in range(100 * gens)]
        floats = [rng.randrange(0, 1000)] * (40 * gens) if amb else [rng.randrange(0, 1000) for _ in range(40 * gens)]
        src = TwoStreamSource(ints, floats)
        rec = sc.GenRecorder(limit=4 * (gens + 1) * n + 100)
        tracker = MultiObjectiveProgressTracker(problem, SequentialEvaluator(), recorders=[rec])
        gp = GeneticProgramming(problem=problem, budget=sc.Generations(gens), representation=rep, random=src, tracker=tracker,
                                population_size=n, population_initializer=sc.Given(inds), step=sc.real_step(step))
        replay = {"step": sc.step_str(step), "population_size": n, "generations": gens, "population": sc.enc_triples(triples),
                  "ints": ints[:40], "floats": floats[:8]}
        try:
            gp.search()
            res = [sc.mask_pop(sc.enc_pop(g), amb) for g in rec.generations()]
            counts = [len(g) for g in rec.generations()]
        except Exception as e:  # noqa: BLE001
            res = "error"
            counts = f"error:{type(e).__name__}"
        h.count("gp-stub:runs")
        h.count("gp-stub:" + ("masked-ids" if amb else "full"))
        h.agree("GeneticProgramming.search", ["gp", sc.step_sx(step), n, gens, sc.enc_triples(triples), ints, floats, 2, amb], res,
                nontrivial=True, replay=replay)
        if isinstance(counts, str):
            h.fail("GeneticProgramming.search", "raises", f"search() with step {sc.step_str(step)}, population_size={n}: {counts}", replay)
        else:
            h.holds("GeneticProgramming.search", "generation-size", ["prop_gen_counts", n, counts],
                    f"search() with step {sc.step_str(step)}, population_size={n}: individuals per generation {counts}", replay)


def check_gp_tree(h: Harness):
    """GeneticProgramming.search with the real tree representation and NativeRandomSource; only the
    per-generation counts are compared with the model (they do not depend on the draws)."""
    rng = h.rng
    sizes = list(range(2, 14)) if h.thorough else [2, 3, 5, 10, 13]
    configs = []
    for n in sizes:
        configs.append((None, n, "standard"))
    # large populations (beyond any batch size an evaluator or Population might use internally)
    for n, ini in ((257, "standard"), (300, "inject"), (513, "half")) if not h.thorough else ((257, "standard"), (300, "inject"), (513, "half"), (1025, "standard"), (383, "pigrow")):
        configs.append((None, n, ini))
        configs.append((("par", ["elitism", "novelty", ("seq", [("tournament", 2, False), ("mutation", 1001)])], [1, 1, 8]), n + 2, ini))
    for _ in range(h.n(8, 300)):
        step = sc.gen_step(rng, rng.choice([1, 2, 3]), None)
        if "lexicase" in sc.kinds(step):
            continue
        configs.append((step, rng.randint(2, 12), rng.choice(["standard", "half", "inject", "pigrow"])))
    for step, n, ini in configs:
        g, r, rep = sc.tree_setup(rng.randrange(1000))
        gens = h.n(3, 8) if n < 200 else 2
        problem = SingleObjectiveProblem(lambda p: float(sc.count_nodes(p)), minimize=rng.random() < 0.5)
        rec = sc.GenRecorder(limit=4 * (gens + 1) * n + 100)
        tracker = SingleObjectiveProgressTracker(problem, SequentialEvaluator(), recorders=[rec])
        tree = sc.default_step_tree() if step is None else step
        real = default_generic_programming_step() if step is None else sc.real_step(step)
        if ini == "standard":
            init = StandardInitializer()
        elif ini == "half":
            init = HalfAndHalfInitializer(GrowInitializer(), FullInitializer(2))
        elif ini == "pigrow":
            init = PositionIndependentGrowInitializer(2)
        else:
            init = InjectInitialPopulationWrapper([rep.create_genotype(r) for _ in range(rng.randint(0, n + 1))], GrowInitializer())
        replay = {"step": sc.step_str(tree), "population_size": n, "initializer": ini, "generations": gens}
        gp = GeneticProgramming(problem=problem, budget=sc.Generations(gens), representation=rep, random=r, tracker=tracker,
                                population_size=n, population_initializer=init, step=real)
        try:
            gp.search()
            counts = [len(x) for x in rec.generations()]
        except Exception as e:  # noqa: BLE001
            counts = f"error:{type(e).__name__}:{e}"[:120]
        h.count("gp-tree:runs")
        if isinstance(counts, str):
            h.fail("GeneticProgramming.search", "raises", f"search() [tree representation, initializer {ini}] with step "
                   f"{sc.step_str(tree)}, population_size={n}: {counts}", replay)
            continue
        h.agree("GeneticProgramming.search", ["gp_sizes", sc.step_sx(tree), n, gens, 1], counts, replay=replay)
        h.holds("GeneticProgramming.search", "generation-size", ["prop_gen_counts", n, counts],
                f"search() [tree representation, initializer {ini}] with step {sc.step_str(tree)}, population_size={n}: "
                f"individuals per generation {counts}", replay)


def check_adaptive_steps(h: Harness):
    """the adaptive variants of the built-in steps (geneticengine/algorithms/gp/adaptive.py: a parallel step whose weights are fed back
    from the slices' successes, mutation / crossover steps that re-draw their probability) are steps like any other: asked for n they
    yield n, generation after generation, while the weights drift.  (The size adjustment of AdaptiveGeneticProgramming re-draws the
    population size on purpose and is left out.)"""
    from geneticengine.algorithms.gp.adaptive import FeedbackParallelStep, GenericAdaptiveCrossoverStep, GenericAdaptiveMutationStep
    from geneticengine.algorithms.gp.operators.combinators import SequenceStep
    from geneticengine.algorithms.gp.operators.elitism import ElitismStep
    from geneticengine.algorithms.gp.operators.novelty import NoveltyStep
    from geneticengine.algorithms.gp.operators.selection import TournamentSelection
    rng = h.rng
    sizes = [10, 13, 14, 30, 7, 11, 18, 22] if not h.thorough else [2, 3, 5, 6, 7, 9, 10, 11, 13, 14, 15, 21, 30, 102]
    for n in sizes:
        for trial in range(h.n(4, 8)):
            g, r, rep = sc.tree_setup(rng.randrange(1000))
            gens = h.n(10, 14) if n < 100 else 4
            minimize = rng.random() < 0.5
            problem = SingleObjectiveProblem(lambda p: float(sc.count_nodes(p)), minimize=minimize)
            rec = sc.GenRecorder(limit=6 * (gens + 1) * n + 100)
            tracker = SingleObjectiveProgressTracker(problem, SequentialEvaluator(), recorders=[rec])
            t = rng.randint(2, max(2, min(n, 5)))
            step = FeedbackParallelStep(tracker, [ElitismStep(), NoveltyStep(),
                                                  SequenceStep(TournamentSelection(t), GenericAdaptiveMutationStep(r.random_float(0.0, 1.0))),
                                                  SequenceStep(TournamentSelection(t), GenericAdaptiveCrossoverStep(r.random_float(0.0, 1.0)))],
                                        weights=4 * [n * 1.0])
            desc = f"feedback-par[elitism,novelty,seq[tournament({t}),adaptive-mutation],seq[tournament({t}),adaptive-crossover]] weights 4x{n}.0"
            replay = {"step": desc, "population_size": n, "generations": gens, "minimize": minimize}
            gp = GeneticProgramming(problem=problem, budget=sc.Generations(gens), representation=rep, random=r, tracker=tracker,
                                    population_size=n, population_initializer=StandardInitializer(), step=step)
            try:
                gp.search()
                counts = [len(x) for x in rec.generations()]
            except Exception as e:  # noqa: BLE001
                h.fail("FeedbackParallelStep.apply", "raises", f"search() with step {desc}, population_size={n}: {type(e).__name__}: {e}"[:300], replay)
                continue
            h.count("adaptive-steps:runs")
            h.holds("FeedbackParallelStep.apply", "generation-size", ["prop_gen_counts", n, counts],
                    f"search() with step {desc}, population_size={n}: individuals per generation {counts}; weights at the end {step.weights}", replay)


def check_shared_step_objects(h: Harness):
    """ONE step object standing at several places of a composition (the same mutation step twice in a sequence, the same selection in
    two branches): every place of the composition is an activation of its own -- asked for k, the composition yields k"""
    from geneticengine.algorithms.gp.operators.combinators import SequenceStep
    from geneticengine.algorithms.gp.operators.crossover import GenericCrossoverStep
    from geneticengine.algorithms.gp.operators.elitism import ElitismStep
    from geneticengine.algorithms.gp.operators.mutation import GenericMutationStep
    from geneticengine.algorithms.gp.operators.novelty import NoveltyStep
    from geneticengine.algorithms.gp.operators.selection import TournamentSelection
    rng = h.rng
    for trial in range(h.n(6, 40)):
        g, r, rep = sc.tree_setup(rng.randrange(1000))
        problem = SingleObjectiveProblem(lambda p: float(sc.count_nodes(p)), minimize=False)
        m = GenericMutationStep(rng.choice([1, 0.5]))
        c = GenericCrossoverStep(rng.choice([1, 0.5]))
        t = TournamentSelection(2)
        nov = NoveltyStep()
        comps = [("seq[m,m]", SequenceStep(m, m)), ("seq[tournament,m,crossover,m]", SequenceStep(TournamentSelection(3), m, GenericCrossoverStep(0.5), m)),
                 ("seq[t,c,t,c]", SequenceStep(t, c, t, c)), ("seq[nov,m,nov]", SequenceStep(nov, m, nov)),
                 ("par[elitism,novelty,seq[t,m,m]]", ParallelStep([ElitismStep(), nov, SequenceStep(t, m, m)], [1, 1, 8])),
                 ("par[seq[t,m],seq[t,m]]", ParallelStep([SequenceStep(t, m), SequenceStep(t, m)], [1, 1])),
                 ("xpar[m,m,c]", ExclusiveParallelStep([m, m, c], [1, 1, 2]))]
        for name, step in comps:
            n = rng.randint(4, 12)
            k = rng.randint(2, n)
            pop = [Individual(rep.create_genotype(r), rep) for _ in range(n)]
            form = rng.choice(["list", "iterator"])
            try:
                out = list(step.apply(problem, SequentialEvaluator(), rep, r, pop if form == "list" else iter(pop), k, 0))
            except Exception as e:  # noqa: BLE001
                h.fail("SequenceStep.apply", "raises", f"{name} (one step object at several places) asked for {k} of {n} ({form}): {type(e).__name__}: {e}", [name, n, k])
                continue
            h.count("shared-step-objects")
            h.seen(f"shared-step:{name}:{n}:{k}:{form}", nontrivial=True)
            if len(out) != k:
                h.fail("SequenceStep.apply" if name.startswith("seq") else "ParallelStep.apply", "wrong-count",
                       f"{name} (m, c, t, nov: ONE step object each, standing at several places) asked for {k} individuals of a population of {n} "
                       f"(given as {form}) yielded {len(out)}", [name, n, k, form])


def run(h: Harness):
    check_ranges(h)
    check_compositions(h)
    check_reuse(h)
    check_unordered_fitness_and_parallel(h)
    check_single_steps(h)
    check_evaluate_step(h)
    check_initialisers(h)
    check_population_sizes(h)
    check_population_object_read_again(h)
    check_large_targets(h)
    check_cooperative_gp(h)
    check_time_budgets(h)
    check_gp_stub(h)
    check_gp_tree(h)
    check_adaptive_steps(h)
    check_shared_step_objects(h)
