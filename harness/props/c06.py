"""C06 -- crossover recombines parental material; point mutation is local.

Implementation: Representation.crossover / mutate of the five representations, driven by a
scripted source.  Model: lean/GEVerif/Model/Linear.lean (genotype operators) and TreeOps.lean
(tree crossover as the code is; subtree-recombination specification `isRecombination`).
"""
from __future__ import annotations

import sys
import warnings

import gram
import linear
import synth
from core import Harness, ScriptedSource, sx
from linear import DSGE, GE, SGE, Stack, safe

from geneticengine.representations.tree.treebased import TreeBasedRepresentation
from geneticengine.representations.grammatical_evolution import dynamic_structured_ge as dsge_mod
from geneticengine.representations.grammatical_evolution import ge as ge_mod
from geneticengine.representations.grammatical_evolution import structured_ge as sge_mod
from geneticengine.representations import stackgggp as stack_mod

RULE = ("parents created by the library for generated grammars; operator draws from a scripted source; GE / stack gene "
        "lengths 1..64 (thorough ..512), SGE / dSGE genotypes with 1..6 keys; tree crossover on parents of depth <= min+3; "
        "non-trivial = parents differ; distinct = distinct (operator, parents, script)")
ASSUMPTIONS = [
    "gene values are compared as exact integers",
]


def linear_ops(h: Harness, rng):
    # (lengths beyond the default of 256 too: "at most one gene" does not depend on how long the genotype is)
    lens = [1, 2, 3, 8, 64, 512, 1024] + ([256, 257, 4096] if h.thorough else [])
    for L in lens:
        for _ in range(h.n(8, 60)):
            for name, mod, cls, top, cut in (("GE", ge_mod, GE, sys.maxsize, L - 1), ("Stack", stack_mod, Stack, 10000, 255)):
                rep = cls.__new__(cls)
                rep.gene_length = L
                rep.grammar = None
                src = ScriptedSource([rng.randrange(0, 10**6) for _ in range(2 * L + 4)])
                p1 = rep.create_genotype(src)
                p2 = rep.create_genotype(src)
                draws = [rng.randrange(0, 10**6) for _ in range(3)]
                st, m = safe(lambda: rep.mutate(ScriptedSource(draws), p1))
                site = f"{name}.mutate"
                if st == "ok":
                    h.agree(site, ["lin_mutate", L, top, list(p1.dna), draws], ["ok", list(m.dna)])
                    h.holds(site, "mutation-not-local", ["prop_mutate_one", list(p1.dna), list(m.dna)],
                            f"mutation changed more than one gene or the length (L={L})", [name, list(p1.dna), draws])
                else:
                    h.agree(site, ["lin_mutate", L, top, list(p1.dna), draws], ["err", m])
                st, cs = safe(lambda: rep.crossover(ScriptedSource(draws), p1, p2))
                site = f"{name}.crossover"
                if st == "ok":
                    c1, c2 = cs
                    h.agree(site, ["lin_crossover", cut, list(p1.dna), list(p2.dna), draws], ["ok", [list(c1.dna), list(c2.dna)]])
                    for c, (a, b) in ((c1, (p1, p2)), (c2, (p2, p1))):
                        h.holds(site, "gene-not-from-parents-at-locus", ["prop_locus", list(a.dna), list(b.dna), list(c.dna)],
                                f"child gene not from a parent at the same locus (L={L})", [name, list(p1.dna), list(p2.dna), draws])
                        if len(c.dna) != L:
                            h.fail(site, "length-not-preserved", f"child length {len(c.dna)} != {L}", [name, L, draws])


def mutation_step_ops(h: Harness, rng):
    """point mutation as the SEARCH applies it: the individuals leaving GenericMutationStep(1) differ from the individuals that
    entered it, position by position, in at most one gene and have the same length -- also when the representation's mapping can
    fail for some genotypes (stack-based mapping of short genomes)"""
    import signal
    import pargrammar
    from geneticengine.algorithms.gp.operators.mutation import GenericMutationStep
    from geneticengine.evaluation.sequential import SequentialEvaluator
    from geneticengine.problems import SingleObjectiveProblem
    from geneticengine.random.sources import NativeRandomSource
    from geneticengine.solutions.individual import Individual
    g = pargrammar.grammar()
    problem = SingleObjectiveProblem(lambda p: 0.0)

    def alarm(signum, frame):
        raise TimeoutError()
    shared = NativeRandomSource(1)
    for name, mk in (("Stack", lambda L: Stack(g, gene_length=L)), ("GE", lambda L: GE(g, synth.make_decider("grow", 4, shared, g), gene_length=L)),
                     ("SGE", lambda L: SGE(g, synth.make_decider("grow", 4, shared, g), gene_length=L))):
        for L in (20, 24, 32):
            rep = mk(L)
            r = NativeRandomSource(rng.randrange(10**6))
            parents = [Individual(rep.create_genotype(r), rep) for _ in range(h.n(30, 150))]
            before = [geno_flat(i.genotype) for i in parents]
            old = signal.signal(signal.SIGALRM, alarm)
            signal.alarm(60)
            try:
                out = list(GenericMutationStep(1).apply(problem, SequentialEvaluator(), rep, r, list(parents), len(parents), 0))
            except TimeoutError:
                h.fail(f"{name}:GenericMutationStep", "raises", f"GenericMutationStep(1) on {len(parents)} {name} genotypes of length {L} did not return within 60 s", [name, L])
                continue
            except Exception as e:  # noqa: BLE001
                h.fail(f"{name}:GenericMutationStep", "raises", f"GenericMutationStep(1) on {name} genotypes of length {L}: {type(e).__name__}: {e}", [name, L])
                continue
            finally:
                signal.alarm(0)
                signal.signal(signal.SIGALRM, old)
            h.count(f"mutation-step:{name}")
            for j, (b0, o) in enumerate(zip(before, out)):
                a = geno_flat(o.genotype)
                h.seen(f"mutation-step:{name}:{L}:{j}:{hash(tuple(a)) % 9973}", nontrivial=True)
                if len(a) != len(b0):
                    h.fail(f"{name}:GenericMutationStep", "mutation-changes-shape", f"{name} (gene length {L}): individual #{j} left the step with {len(a)} genes, "
                           f"it entered with {len(b0)}", [name, L, j])
                    break
                diff = [k for k in range(len(a)) if a[k] != b0[k]]
                if len(diff) > 1:
                    h.fail(f"{name}:GenericMutationStep", "mutation-changes-more-than-one-gene",
                           f"{name} (gene length {L}): individual #{j} left GenericMutationStep(1) differing from the individual that entered in {len(diff)} genes "
                           f"(loci {diff[:8]})", [name, L, j])
                    break


def crossover_step_ops(h: Harness, rng):
    """crossover as the SEARCH applies it (GenericCrossoverStep(1)): every gene of every offspring comes from one of the two individuals
    paired at that position, at the same locus -- also when selection with repetition has placed an individual next to itself"""
    import pargrammar
    from geneticengine.algorithms.gp.operators.crossover import GenericCrossoverStep
    from geneticengine.evaluation.sequential import SequentialEvaluator
    from geneticengine.problems import SingleObjectiveProblem
    from geneticengine.random.sources import NativeRandomSource
    from geneticengine.solutions.individual import Individual
    g = pargrammar.grammar()
    problem = SingleObjectiveProblem(lambda p: 0.0)
    shared = NativeRandomSource(1)
    for name, mk in (("GE", lambda: GE(g, synth.make_decider("grow", 4, shared, g), gene_length=24)), ("Stack", lambda: Stack(g, gene_length=300)),
                     ("SGE", lambda: SGE(g, synth.make_decider("grow", 4, shared, g), gene_length=12))):
        rep = mk()
        r = NativeRandomSource(rng.randrange(10**6))
        base = [Individual(rep.create_genotype(r), rep) for _ in range(6)]
        # the step pairs position i with position i + 1 (offspring 2i and 2i + 1): some pairs are one individual twice
        pop = [base[0], base[0], base[1], base[2], base[3], base[3], base[4], base[5], base[5], base[5]]
        try:
            out = list(GenericCrossoverStep(1).apply(problem, SequentialEvaluator(), rep, r, list(pop), len(pop), 0))
        except Exception as e:  # noqa: BLE001
            h.fail(f"{name}:GenericCrossoverStep", "raises", f"GenericCrossoverStep(1) on {name} genotypes: {type(e).__name__}: {e}", [name])
            continue
        h.count(f"crossover-step:{name}")
        for j, o in enumerate(out):
            ia, ib = (j // 2) % len(pop), (j // 2) % len(pop) + 1
            pa, pb = geno_flat(pop[ia].genotype), geno_flat(pop[ib].genotype)
            a = geno_flat(o.genotype)
            h.seen(f"crossover-step:{name}:{j}:{hash(tuple(a)) % 9973}", nontrivial=True)
            if len(a) != len(pa) or any(a[k] != pa[k] and a[k] != pb[k] for k in range(len(a))):
                same = pop[ia] is pop[ib]
                h.fail(f"{name}:GenericCrossoverStep", "gene-not-from-parents-at-locus",
                       f"{name}: offspring #{j} of GenericCrossoverStep(1) has a gene that neither of the two individuals paired at its position carries at that locus"
                       + (" (the pair is ONE individual twice: its offspring are its copies)" if same else ""), [name, j])
                break


def short_population_crossover(h: Harness, rng):
    """the crossover step asked for MORE offspring than the population can pair (a population of 1 or 3, twice as many offspring): whatever it
    yields before it gives up -- or instead of giving up -- is made of genes the members of the population carry at the same locus"""
    import pargrammar
    from geneticengine.algorithms.gp.operators.crossover import GenericCrossoverStep
    from geneticengine.evaluation.sequential import SequentialEvaluator
    from geneticengine.problems import SingleObjectiveProblem
    from geneticengine.random.sources import NativeRandomSource
    from geneticengine.solutions.individual import Individual
    g = pargrammar.grammar()
    problem = SingleObjectiveProblem(lambda p: 0.0)
    shared = NativeRandomSource(1)
    for name, mk in (("GE", lambda: GE(g, synth.make_decider("grow", 4, shared, g), gene_length=24)), ("Stack", lambda: Stack(g, gene_length=300)),
                     ("SGE", lambda: SGE(g, synth.make_decider("grow", 4, shared, g), gene_length=12))):
        for npop, target in ((3, 6), (1, 2), (5, 12), (4, 4), (2, 8)):
            rep = mk()
            r = NativeRandomSource(rng.randrange(10**6))
            pop = [Individual(rep.create_genotype(r), rep) for _ in range(npop)]
            flat = [geno_flat(i.genotype) for i in pop]
            out = []
            try:
                for o in GenericCrossoverStep(1).apply(problem, SequentialEvaluator(), rep, r, list(pop), target, 0):
                    out.append(o)
            except Exception as e:  # noqa: BLE001   (giving up is an answer; C06 speaks about the offspring that exist)
                h.count(f"short-population-crossover:{name}:gave-up:{type(e).__name__}")
            h.count(f"short-population-crossover:{name}")
            h.seen(f"short-pop-crossover:{name}:{npop}:{target}", nontrivial=bool(out))
            for j, o in enumerate(out):
                a = geno_flat(o.genotype)
                bad = [k for k in range(len(a)) if not any(k < len(f) and f[k] == a[k] for f in flat)]
                if bad or not any(len(a) == len(f) for f in flat):
                    h.fail(f"{name}:GenericCrossoverStep", "gene-not-from-parents-at-locus",
                           f"{name}: GenericCrossoverStep(1) on a population of {npop} asked for {target} offspring: offspring #{j} carries {len(bad)} gene(s) "
                           f"(first at locus {bad[0] if bad else '-'}) that NO member of the population has at that locus", [name, npop, target, j])
                    break


def repeated_gene_values(h: Harness, rng):
    """genomes that hold the SAME value at several loci (after many mutations of a stack genome, whose new genes come from 0..10000; a
    hand-written or imported genome): a point mutation changes at most one locus and keeps the length; crossover is still locus-wise"""
    import pargrammar
    from geneticengine.random.sources import NativeRandomSource
    g = pargrammar.grammar()
    shared = NativeRandomSource(1)
    for name, mk in (("GE", lambda: GE(g, synth.make_decider("grow", 4, shared, g), gene_length=24)), ("Stack", lambda: Stack(g, gene_length=64))):
        rep = mk()
        for trial in range(h.n(40, 300)):
            r = NativeRandomSource(rng.randrange(10**6))
            a, b_ = rep.create_genotype(r), rep.create_genotype(r)
            vals = [rng.randrange(0, 10**6) for _ in range(rng.choice([1, 2, 3]))]
            pa = type(a)(dna=[rng.choice(vals) for _ in a.dna])
            pb = type(b_)(dna=[rng.choice(vals) for _ in b_.dna])
            st, m = safe(lambda: rep.mutate(r, pa))
            h.count(f"repeated-gene-values:{name}")
            h.seen(f"repeated-values:{name}:{trial}", nontrivial=True)
            if st == "ok":
                diff = [k for k, (x, y) in enumerate(zip(pa.dna, m.dna)) if x != y]
                if len(m.dna) != len(pa.dna) or len(diff) > 1:
                    h.fail(f"{name}.mutate", "mutation-not-local",
                           f"{name}.mutate of a genome whose genes take {len(vals)} distinct value(s): the mutant has {len(m.dna)} genes (parent {len(pa.dna)}) and "
                           f"differs from its parent at {len(diff)} loci {diff[:6]}", [name, trial, vals])
                    break
            st, cs = safe(lambda: rep.crossover(r, pa, pb))
            if st == "ok":
                for c in cs:
                    if len(c.dna) != len(pa.dna) or any(x != y and x != z for x, y, z in zip(c.dna, pa.dna, pb.dna)):
                        h.fail(f"{name}.crossover", "gene-not-from-parents-at-locus", f"{name}.crossover of two genomes with repeated gene values: a child gene "
                               f"is carried by neither parent at its locus", [name, trial, vals])
                        break


def geno_flat(genotype) -> list:
    dna = genotype.dna
    if isinstance(dna, dict):
        return [x for k in sorted(dna, key=str) for x in [str(k)] + list(dna[k])]
    return list(dna)


def structured_ops(h: Harness, rng):
    for _ in range(h.n(60, 600)):
        nkeys = rng.randint(1, 6)
        keys = ["$infrastructure"] + [f"k{i}" for i in range(nkeys - 1)]
        L = rng.choice([1, 2, 5, 16])
        mk = lambda: sge_mod.Genotype({k: [rng.randrange(0, 10**6) for _ in range(L)] for k in keys})  # noqa: E731
        p1, p2 = mk(), mk()
        rep = SGE.__new__(SGE)
        draws = [rng.randrange(0, 10**6) for _ in range(nkeys + 3)]
        st, m = safe(lambda: rep.mutate(ScriptedSource(draws), p1))
        if st == "ok":
            h.agree("SGE.mutate", ["sge_mutate", linear.sge_sx(p1.dna), draws], ["ok", linear.sge_sx(m.dna)])
            h.holds("SGE.mutate", "mutation-not-local", ["prop_sge_mutate_one", linear.sge_sx(p1.dna), linear.sge_sx(m.dna)],
                    "SGE mutation changed more than one gene or the shape", [linear.sge_sx(p1.dna), draws])
        st, cs = safe(lambda: rep.crossover(ScriptedSource(draws), p1, p2))
        if st == "ok":
            c1, c2 = cs
            h.agree("SGE.crossover", ["sge_crossover", linear.sge_sx(p1.dna), linear.sge_sx(p2.dna), draws],
                    ["ok", [linear.sge_sx(c1.dna), linear.sge_sx(c2.dna)]])
            for c in (c1, c2):
                h.holds("SGE.crossover", "gene-not-from-parents-at-locus",
                        ["prop_sge_locus", linear.sge_sx(p1.dna), linear.sge_sx(p2.dna), linear.sge_sx(c.dna)],
                        "SGE child has a gene list that is neither parent's list for that key", [linear.sge_sx(p1.dna), linear.sge_sx(p2.dna), draws])


def dsge_ops(h: Harness, rng):
    spec = gram.Spec([gram.ClassSpec("A0", True, None), gram.ClassSpec("C1", False, 0, [("x", "int")]),
                      gram.ClassSpec("C2", False, 0, [("l", ("cls", 0)), ("u", ("union", ("cls", 1), "bool"))])], 0, [1, 2])
    b = gram.build(spec)
    b.extract()
    keypool = [int, bool, float, b.classes[0], b.classes[2]]
    rep = DSGE.__new__(DSGE)
    for _ in range(h.n(60, 600)):
        def mk():
            ks = [k for k in keypool if rng.random() < 0.7]
            # (creation draws genes in 0..1024; mutation rewrites a gene with a value up to sys.maxsize)
            return dsge_mod.Genotype(ScriptedSource([]), {k: [rng.randrange(0, 1025) if rng.random() < 0.6 else rng.randrange(0, 2**62)
                                                              for _ in range(rng.randint(0, 4))] for k in ks})
        p1, p2 = mk(), mk()
        draws = [rng.randrange(0, 10**6) for _ in range(10)]
        s1, s2 = linear.dsge_sx(p1.dna, b), linear.dsge_sx(p2.dna, b)
        st, m = safe(lambda: rep.mutate(ScriptedSource(draws), p1))
        if st == "ok":
            h.agree("DynamicSGE.mutate", ["dsge_mutate", s1, draws], ["ok", linear.dsge_sx(m.dna, b)], nontrivial=bool(p1.dna))
            h.holds("DynamicSGE.mutate", "mutation-not-local", ["prop_dsge_mutate_one", s1, linear.dsge_sx(m.dna, b)],
                    "dSGE mutation changed more than one gene or the shape", [s1, draws])
        st, cs = safe(lambda: rep.crossover(ScriptedSource(draws), p1, p2))
        if st == "ok":
            c1, c2 = cs
            h.agree("DynamicSGE.crossover", ["dsge_crossover", s1, s2, draws],
                    ["ok", [linear.dsge_sx(c1.dna, b), linear.dsge_sx(c2.dna, b)]], nontrivial=bool(p1.dna))
            for c in (c1, c2):
                h.holds("DynamicSGE.crossover", "gene-not-from-parents-at-locus", ["prop_dsge_locus", s1, s2, linear.dsge_sx(c.dna, b)],
                        "dSGE child has a gene list that is neither parent's list for that key", [s1, s2, draws])


def dsge_histories(h: Harness, rng):
    """dynamic SGE over a search-like history: genotypes are created and MAPPED (mapping extends the gene lists on
    demand, in place), parents with different key sets are crossed, the children are mapped and then mutated
    repeatedly.  Every crossover and every mutation of the history is judged on snapshots taken around it."""
    from geneticengine.random.sources import NativeRandomSource
    C = gram.ClassSpec
    # a fixed grammar with many gene-bearing symbols (two abstract types, bool / int / refined fields, a union, a list):
    # parents regularly differ in the set of symbols they have genes for
    many_keys = gram.Spec([C("E", True, None), C("Cond", True, None), C("Lit", False, 0, [("v", "int")]), C("Flag", False, 0, [("b", "bool")]),
                           C("If", False, 0, [("c", ("cls", 1)), ("t", ("cls", 0)), ("e", ("cls", 0))]),
                           C("Lt", False, 1, [("l", ("cls", 0)), ("r", ("ann", "int", ("intRange", 0, 9)))]),
                           C("Not", False, 1, [("c", ("cls", 1))]), C("T", False, 1, []),
                           C("Many", False, 0, [("xs", ("ann", ("list", ("cls", 0)), ("listSize", 1, 2))), ("u", ("union", ("cls", 1), "bool"))])],
                          0, [2, 3, 4, 5, 6, 7, 8, 0, 1])
    # ... and a grammar whose Union types mention refinement objects (the gene-list key of such a field is a typing construct that
    # holds a ListSizeBetween / IntRange instance)
    r02 = ("ann", "int", ("intRange", 0, 2))
    refined_unions = gram.Spec([C("A0", True, None), C("Lit", False, 0, [("k", r02)]), C("Add", False, 0, [("l", ("cls", 0)), ("r", ("cls", 0))]),
                                C("Pick", False, 0, [("c", ("union", r02, ("cls", 1))),
                                                     ("d", ("union", ("cls", 1), ("ann", ("list", ("cls", 0)), ("listSize", 1, 2))))])], 0, [1, 2, 3])
    for it in range(h.n(12, 40) + h.n(40, 300)):
        fixed = it < h.n(12, 40)
        spec = (many_keys if it % 2 == 0 else refined_unions) if fixed else gram.productive_spec(rng, max_classes=rng.choice([4, 5, 6]), opts={"float": rng.random() < 0.5, "str": False})
        b = gram.build(spec)
        try:
            g = b.extract()
        except Exception:  # noqa: BLE001
            continue
        mind = g.get_min_tree_depth()
        if mind >= 1000000:
            continue
        rep = DSGE(g, mind + rng.choice([1, 2, 3]))
        shared = NativeRandomSource(rng.randrange(10**6))
        pool = []
        for _ in range(6):
            st, geno = safe(lambda: rep.create_genotype(shared))
            if st == "ok" and safe(lambda: rep.genotype_to_phenotype(geno))[0] == "ok":
                pool.append(geno)
        if len(pool) < 2:
            continue
        h.count("dsge-histories" + (":fixed-grammar" if fixed else ""))
        for step in range(h.n(10, 16)):
            p1, p2 = rng.sample(pool, 2)
            s1, s2 = linear.dsge_sx(p1.dna, b), linear.dsge_sx(p2.dna, b)
            st, cs = safe(lambda: rep.crossover(shared, p1, p2))
            if st != "ok":
                break
            for c in cs:
                # every symbol a child holds genes for is a symbol one of its parents holds genes for (by Python's own equality of the keys)
                foreign_keys = [k for k in c.dna if k not in p1.dna and k not in p2.dna]
                if foreign_keys:
                    h.fail("DynamicSGE.crossover", "gene-not-from-parents-at-locus",
                           f"dSGE child holds genes under {str(foreign_keys[0])[:100]}, a symbol neither parent has genes for (a copy of a parent's key that is not equal to it?)",
                           [s1, s2, step])
                    continue
                h.holds("DynamicSGE.crossover", "gene-not-from-parents-at-locus", ["prop_dsge_locus", s1, s2, linear.dsge_sx(c.dna, b)],
                        "dSGE child (parents that had been mapped) has a gene list that is neither parent's list for that key", [s1, s2, step])
                # every locus of a child has a gene list of its own: one list object under two symbols would receive the genes of both
                # as soon as the child is mapped (on-demand extension writes into it)
                lists = list(c.dna.values())
                if len({id(v) for v in lists}) < len(lists):
                    shared = [str(gram.ty_sx(gram.ty_of_py(k, b))) for k, v in c.dna.items() if sum(1 for w in lists if w is v) > 1]
                    h.fail("DynamicSGE.crossover", "gene-not-from-parents-at-locus",
                           f"dSGE child holds ONE gene list object under several symbols ({shared[:4]}): genes drawn for one of them appear at the loci of the others",
                           [s1, s2, step])
                if safe(lambda: rep.genotype_to_phenotype(c))[0] != "ok":
                    continue
                cur = c
                for k in range(3):
                    before = linear.dsge_sx(cur.dna, b)
                    st, m = safe(lambda: rep.mutate(shared, cur))
                    if st != "ok":
                        break
                    h.count("dsge-histories:mutations-of-mapped-children")
                    h.holds("DynamicSGE.mutate", "mutation-not-local", ["prop_dsge_mutate_one", before, linear.dsge_sx(m.dna, b)],
                            f"mutation #{k + 1} of a crossover child that had been mapped changed more than one gene or the shape: "
                            f"{sx(before)[:120]} -> {sx(linear.dsge_sx(m.dna, b))[:120]}", [sx(gram.spec_sx(spec)), before, step, k])
                    if linear.dsge_sx(cur.dna, b) != before:
                        h.fail("DynamicSGE.mutate", "parent-changed", "mutation changed its input genotype", [sx(gram.spec_sx(spec)), before])
                    safe(lambda: rep.genotype_to_phenotype(m))
                    cur = m
                pool.append(cur)
            pool = pool[-8:]


def tree_crossover(h: Harness, rng):
    for _ in range(h.n(60, 900)):
        spec = gram.productive_spec(rng, max_classes=rng.choice([3, 4, 6]), opts={"float": False})
        b = gram.build(spec)
        try:
            g = b.extract()
        except Exception:  # noqa: BLE001
            continue
        mind = g.get_min_tree_depth()
        if mind >= 1000000:
            continue
        d = mind + rng.choice([1, 2, 3])
        parents = []
        for _ in range(2):
            res, v, _ = synth.create(b, "grow", d, [rng.randrange(0, 1000) for _ in range(256)])
            if v is not None:
                parents.append(v)
        if len(parents) < 2:
            continue
        draws = [rng.randrange(0, 1000) for _ in range(512)]
        src = ScriptedSource(draws)
        cp = [gram.canon(p, b) for p in parents]
        line_spec = gram.spec_sx(spec)
        with warnings.catch_warnings():
            warnings.simplefilter("ignore")
            src_m = ScriptedSource(draws)
            rep_m = TreeBasedRepresentation(g, synth.make_decider("grow", d, src_m, g))
            st, m = safe(lambda: rep_m.mutate(src_m, parents[0]))
            rep = TreeBasedRepresentation(g, synth.make_decider("grow", d, src, g))
            if st == "ok":
                h.agree("TreeBasedRepresentation.mutate", ["tree_mutate", line_spec, ["grow", d], cp[0], draws], ["ok", gram.canon(m, b)])
            st, cs = safe(lambda: rep.crossover(src, parents[0], parents[1]))
        if st != "ok":
            continue
        h.agree("TreeBasedRepresentation.crossover", ["tree_crossover", line_spec, ["grow", d], cp[0], cp[1], draws],
                ["ok", [gram.canon(cs[0], b), gram.canon(cs[1], b)]])
        for c, (a, bb) in ((cs[0], (cp[0], cp[1])), (cs[1], (cp[1], cp[0]))):
            cc = gram.canon(c, b)
            h.holds("TreeBasedRepresentation.crossover", "child-not-recombination", ["prop_recomb", a, bb, cc],
                    f"child is not one parent with a single subtree replaced by a subtree of the other: child={sx(cc)[:120]} p1={sx(a)[:120]}",
                    [sx(gram.spec_sx(spec)), sx(a), sx(bb), sx(cc)], nontrivial=sx(a) != sx(bb))


def generations_corpus():
    """Expr -> Lit | Add(Expr, Expr) | Mul(Expr, Expr) with the CONCRETE start symbol Add (donors of the start type
    exist at every level) -- and the same with a list-carrying production"""
    C = gram.ClassSpec
    lit = C("Lit", False, 0, [("v", ("ann", "int", ("intRange", 0, 9)))])
    return [
        gram.Spec([C("Expr", True, None), lit, C("Add", False, 0, [("l", ("cls", 0)), ("r", ("cls", 0))]),
                   C("Mul", False, 0, [("l", ("cls", 0)), ("r", ("cls", 0))])], 2, [1, 2, 3]),
        gram.Spec([C("Expr", True, None), lit, C("Add", False, 0, [("l", ("cls", 0)), ("r", ("cls", 0))]),
                   C("Sum", False, 0, [("xs", ("ann", ("list", ("cls", 0)), ("listSize", 1, 3)))])], 2, [1, 2, 3]),
        # a concrete single-field start symbol that recurs below itself through single-child nodes only:
        # Block([Loop(Block([...]))]) with one-element lists, Prog(Call(Prog(...)))
        gram.Spec([C("Stmt", True, None), C("Assign", False, 0, [("k", ("ann", "int", ("intRange", 0, 9)))]), C("Loop", False, 0, [("body", ("cls", 3))]),
                   C("Block", False, None, [("stmts", ("ann", ("list", ("cls", 0)), ("listSize", 1, 2)))])], 3, [1, 2]),
        gram.Spec([C("Node", True, None), C("Leaf", False, 0, [("k", ("ann", "int", ("intRange", 0, 9)))]), C("Call", False, 0, [("p", ("cls", 3))]),
                   C("Prog", False, None, [("body", ("cls", 0))])], 3, [1, 2]),
        # a start class that defines __len__ (added after the classes are built): an EMPTY program is falsy
        gram.Spec([C("Stmt", True, None), C("Inc", False, 0, [("n", ("ann", "int", ("intRange", 0, 9)))]), C("Nest", False, 0, [("body", ("cls", 3))]),
                   C("Program", False, None, [("stmts", ("ann", ("list", ("cls", 0)), ("listSize", 0, 2)))])], 3, [1, 2]),
    ]


def tree_crossover_generations(h: Harness, rng):
    """CONCRETE recursive start symbol (donor subtrees exist): crossover over several generations --
    children that are themselves crossover results become parents.  Every child must be one parent
    with one subtree (here: the root) replaced by a subtree of the other parent."""
    fixed = [(spec, True) for spec in generations_corpus() for _ in range(h.n(20, 60))]
    for spec, is_corpus in fixed + [(None, False)] * h.n(25, 300):
        if spec is None:
            spec = gram.productive_spec(rng, max_classes=rng.choice([3, 4, 5]), opts={"float": False})
            if not gram.concrete_recursive_start(spec, rng):
                continue
        b = gram.build(spec)
        if spec.classes[spec.start].name == "Program":
            b.classes[spec.start].__len__ = lambda self: len(self.stmts)
        try:
            g = b.extract()
        except Exception:  # noqa: BLE001
            continue
        mind = g.get_min_tree_depth()
        if mind >= 1000000:
            continue
        d = mind + (rng.choice([3, 4]) if is_corpus else rng.choice([2, 3]))
        src = ScriptedSource([rng.randrange(0, 1000) for _ in range(120000 if is_corpus else 20000)])
        with warnings.catch_warnings():
            warnings.simplefilter("ignore")
            rep = TreeBasedRepresentation(g, synth.make_decider("grow", d, src, g))
            pool = []
            for _ in range(6 if is_corpus else 4):
                st, v = safe(lambda: rep.create_genotype(src))
                if st == "ok":
                    pool.append(v)
            if len(pool) < 2:
                continue
            h.count("concrete-start-crossover-chains" + (":corpus" if is_corpus else ""))
            for gen in range(h.n(60, 120) if is_corpus else h.n(6, 12)):
                p1, p2 = rng.choice(pool), rng.choice(pool)
                st, cs = safe(lambda: rep.crossover(src, p1, p2))
                if st != "ok":
                    break
                a, bb = gram.canon(p1, b), gram.canon(p2, b)
                for c, (x, y) in ((cs[0], (a, bb)), (cs[1], (bb, a))):
                    cc = gram.canon(c, b)
                    h.holds("TreeBasedRepresentation.crossover", "donor-available-child-not-recombination", ["prop_recomb", x, y, cc],
                            f"generation {gen}: child is not one parent with a subtree of the other (a donor of the start symbol exists): "
                            f"child={sx(cc)[:120]}", [sx(gram.spec_sx(spec)), sx(x), sx(y), sx(cc)], nontrivial=sx(x) != sx(y))
                    pool.append(c)
                pool = pool[-8:]


def foreign_length_parents(h: Harness, rng):
    """parents whose genome length is not the `gene_length` of the representation object that varies them (a warm start from a run with
    another genome length; two stack parents of different lengths): every gene of a child still comes from a parent AT THE SAME LOCUS,
    and a mutant of a genotype the operator can mutate has the parent's length and differs from it in at most one gene"""
    from linear import GE, Stack, safe
    from props import steps_common as sc
    from geneticengine.grammar.grammar import extract_grammar
    from geneticengine.random.sources import NativeRandomSource
    g = extract_grammar([sc.Leaf, sc.Node], sc.Root)
    for trial in range(h.n(40, 300)):
        r = NativeRandomSource(rng.randrange(10**6))
        la, lb = rng.choice([(300, 420), (420, 300), (256, 512), (700, 260), (300, 300)])
        sa, sb = Stack(g, gene_length=la), Stack(g, gene_length=lb)
        p1, p2 = sa.create_genotype(r), sb.create_genotype(r)
        st, kids = safe(lambda: sa.crossover(r, p1, p2))
        h.count("foreign-length:stack-crossover")
        h.seen(f"foreign-length:stack:{la}:{lb}:{trial}", nontrivial=la != lb)
        if st == "ok":
            for which, c in enumerate(kids):
                bad = [i for i, x in enumerate(c.dna) if not ((i < la and p1.dna[i] == x) or (i < lb and p2.dna[i] == x))]
                if bad or len(c.dna) not in (la, lb):
                    h.fail("Stack.crossover", "gene-not-from-parents-at-locus",
                           f"stack parents of {la} and {lb} genes: child {which + 1} has {len(c.dna)} genes, {len(bad)} of them (first at locus "
                           f"{bad[0] if bad else '-'}) are carried by neither parent at that locus", [la, lb, trial])
                    break
        # GE: a genotype LONGER than the mutating object's genome (the operator writes one locus of its own range)
        gl, pl = rng.choice([(16, 32), (24, 64), (32, 33), (16, 16)])
        ge_small = GE(g, synth.make_decider("grow", 4, r, g), gene_length=gl)
        ge_big = GE(g, synth.make_decider("grow", 4, r, g), gene_length=pl)
        parent = ge_big.create_genotype(r)
        st, m = safe(lambda: ge_small.mutate(r, parent))
        h.count("foreign-length:ge-mutate")
        if st == "ok":
            diff = sum(1 for a, b_ in zip(parent.dna, m.dna) if a != b_)
            if len(m.dna) != len(parent.dna) or diff > 1:
                h.fail("GE.mutate", "mutation-not-local",
                       f"a GE genotype of {pl} genes mutated by a representation object with gene_length={gl}: the mutant has {len(m.dna)} genes and differs "
                       f"from its parent at {diff} loci", [gl, pl, trial])


def run(h: Harness):
    tree_crossover_generations(h, h.rng)
    linear_ops(h, h.rng)
    foreign_length_parents(h, h.rng)
    mutation_step_ops(h, h.rng)
    crossover_step_ops(h, h.rng)
    short_population_crossover(h, h.rng)
    repeated_gene_values(h, h.rng)
    structured_ops(h, h.rng)
    dsge_ops(h, h.rng)
    dsge_histories(h, h.rng)
    tree_crossover(h, h.rng)
