"""Shared implementation-side helpers of the C15 / C16 / C17 checks (GP steps and initialisers).

Everything here DRIVES THE REAL LIBRARY: the steps, `Population`, `GeneticProgramming`, the
trackers and evaluators are the ones in /repo.  Only the representation and the fitness function
are stubs, chosen so that the Lean model (lean/GEVerif/Model/Steps.lean) can reproduce every
individual: a genotype is the triple `(id, aggregate, components)`; `StubRep` is the model's
`mkNovel` / `mutateInd` / `crossInd`.
"""
from __future__ import annotations

from typing import Any

from abc import ABC
from dataclasses import dataclass

from core import ScriptedSource

from geneticengine.algorithms.gp.operators.combinators import (
    ExclusiveParallelStep,
    IdentityStep,
    ParallelStep,
    SequenceStep,
)
from geneticengine.algorithms.gp.operators.crossover import GenericCrossoverStep
from geneticengine.algorithms.gp.operators.elitism import ElitismStep
from geneticengine.algorithms.gp.operators.mutation import GenericMutationStep
from geneticengine.algorithms.gp.operators.novelty import NoveltyStep
from geneticengine.algorithms.gp.operators.selection import LexicaseSelection, TournamentSelection
from geneticengine.algorithms.gp.population import Population
from geneticengine.evaluation.sequential import SequentialEvaluator
from geneticengine.evaluation.tracker import MultiObjectiveProgressTracker
from geneticengine.problems import MultiObjectiveProblem
from geneticengine.random.sources import RandomSource
from geneticengine.representations.api import (
    Representation,
    RepresentationWithCrossover,
    RepresentationWithMutation,
)
from geneticengine.solutions.individual import Individual
from geneticengine.algorithms.gp.structure import PopulationInitializer
from geneticengine.evaluation.budget import SearchBudget
from geneticengine.evaluation.recorder import SearchRecorder
from geneticengine.grammar.grammar import extract_grammar
from geneticengine.random.sources import NativeRandomSource
from geneticengine.representations.tree.initializations import MaxDepthDecider
from geneticengine.representations.tree.treebased import TreeBasedRepresentation

CREATED = 1000  # ids of individuals created by the stub representation start here


# ----------------------------------------------------------------------------------------
# random sources
# ----------------------------------------------------------------------------------------

class TwoStreamSource(ScriptedSource):
    """ScriptedSource whose `random_float` draws come from a second script, so that the integer
    draws (choice / shuffle) and the probability decisions of mutation / crossover do not
    interleave.  `choice` and `shuffle` are the library's own methods; their results are
    recorded (participants of a tournament, case order of a lexicase selection)."""

    def __init__(self, ints, floats=()):
        super().__init__(ints)
        self.floats = list(floats)
        self.fpos = 0
        self.choices: list[Any] = []
        self.shuffles: list[list] = []

    def random_float(self, min, max):  # noqa: A002
        d = self.floats[self.fpos] if self.fpos < len(self.floats) else 0
        self.fpos += 1
        return min + ((d % 1000) + 1) / 1001.0 * (max - min)

    def choice(self, choices):
        r = super().choice(choices)
        self.choices.append(r)
        return r

    def shuffle(self, lst):
        r = super().shuffle(lst)
        self.shuffles.append(list(r))
        return r


class Recording(RandomSource):
    """Wraps any source (e.g. core.ExhaustiveSource, NativeRandomSource); the derived primitives
    are the library's; records what `choice` / `shuffle` returned and the randint script."""

    def __init__(self, inner: RandomSource):
        self.inner = inner
        self.choices: list[Any] = []
        self.shuffles: list[list] = []
        self.script: list[int] = []

    def randint(self, min, max):  # noqa: A002
        v = self.inner.randint(min, max)
        self.script.append(v - min)
        return v

    def random_float(self, min, max):  # noqa: A002
        return self.inner.random_float(min, max)

    def choice(self, choices):
        r = super().choice(choices)
        self.choices.append(r)
        return r

    def shuffle(self, lst):
        r = super().shuffle(lst)
        self.shuffles.append(list(r))
        return r


# ----------------------------------------------------------------------------------------
# stub representation / problem
# ----------------------------------------------------------------------------------------

class StubRep(Representation, RepresentationWithMutation, RepresentationWithCrossover):
    """genotype = phenotype = (id, aggregate, components).  Mirrors Model/Steps.lean."""

    def __init__(self, ncomps: int):
        self.ncomps = ncomps
        self.counter = 0

    def _next(self, n=1):
        c = self.counter
        self.counter += n
        return c

    def create_genotype(self, random, **kwargs):
        c = self._next()
        return (CREATED + c, 2, tuple((j * 2 + 1) % 3 for j in range(self.ncomps)))

    def genotype_to_phenotype(self, genotype):
        return genotype

    def mutate(self, random, genotype, **kwargs):
        c = self._next()
        _, agg, comps = genotype
        return (CREATED + c, (agg * 3 + 1) % 5, tuple((x * 2 + j + 1) % 4 for j, x in enumerate(comps)))

    def crossover(self, random, parent1, parent2):
        c = self._next(2)
        return ((CREATED + c, parent1[1], parent2[2]), (CREATED + c + 1, parent2[1], parent1[2]))


def make_problem(mins: list[bool]) -> MultiObjectiveProblem:
    """aggregate and components are read off the genotype; `mins` is `problem.minimize`."""
    return MultiObjectiveProblem(
        minimize=list(mins),
        fitness_function=lambda p: list(p[2]),
        best_individual_criteria_function=lambda p: p[1],
    )


def make_pop(rep: StubRep, triples: list[tuple[int, int, list[int]]], dup_as_same_object: bool = True) -> list[Individual]:
    """Individuals for the triples; a repeated id is the SAME object (identity duplicate)."""
    by_id: dict[int, Individual] = {}
    out = []
    for (i, a, cs) in triples:
        if dup_as_same_object and i in by_id:
            out.append(by_id[i])
            continue
        ind = Individual((i, a, tuple(cs)), rep)
        by_id[i] = ind
        out.append(ind)
    return out


def enc_ind(ind: Individual) -> list:
    i, a, cs = ind.genotype
    return [i, a, list(cs)]


def enc_pop(inds) -> list:
    return [enc_ind(i) for i in inds]


def enc_triples(triples) -> list:
    return [[i, a, list(cs)] for (i, a, cs) in triples]


def mask_pop(encoded: list, mask: bool) -> list:
    if not mask:
        return encoded
    return [[CREATED if i >= CREATED else i, a, cs] for (i, a, cs) in encoded]


def impl_fitness(ind: Individual, problem) -> list:
    """[id, aggregate, components] with the fitness THE LIBRARY computed (integral floats)."""
    f = ind.get_fitness(problem)
    agg = f.maximizing_aggregate
    assert float(agg) == int(agg)
    comps = [int(c) for c in f.fitness_components]
    assert all(float(c) == int(c) for c in f.fitness_components)
    return [ind.genotype[0], int(agg), comps]


# ----------------------------------------------------------------------------------------
# step trees:  Python value <-> real step object <-> s-expression of the Lean `Step`
# ----------------------------------------------------------------------------------------
# leaf: "identity" | "elitism" | "novelty"
# ("tournament", size, with_replacement) | ("lexicase", mins, epsilon) | ("mutation", m) | ("crossover", m)
# ("seq", [steps]) | ("par", [steps], [weights]) | ("xpar", [steps], [weights])
# probabilities are m/1001 (the scripted random_float returns multiples of 1/1001, so the decision
# `v <= probability` is the exact integer comparison the model makes).

def real_step(s):
    if s == "identity":
        return IdentityStep()
    if s == "elitism":
        return ElitismStep()
    if s == "novelty":
        return NoveltyStep()
    k = s[0]
    if k == "tournament":
        return TournamentSelection(s[1], s[2])
    if k == "lexicase":
        return LexicaseSelection(epsilon=s[2])
    if k == "mutation":
        return GenericMutationStep(s[1] / 1001.0)
    if k == "crossover":
        return GenericCrossoverStep(s[1] / 1001.0)
    if k == "seq":
        return SequenceStep(*[real_step(x) for x in s[1]])
    if k == "par":
        return ParallelStep([real_step(x) for x in s[1]], list(s[2]))
    if k == "xpar":
        return ExclusiveParallelStep([real_step(x) for x in s[1]], list(s[2]))
    raise ValueError(s)


def step_sx(s):
    if isinstance(s, str):
        return s
    k = s[0]
    if k == "tournament":
        return ["tournament", s[1], bool(s[2])]
    if k == "lexicase":
        return ["lexicase", len(s[1]), [bool(b) for b in s[1]], bool(s[2])]
    if k in ("mutation", "crossover"):
        return [k, s[1]]
    if k == "seq":
        return ["seq"] + [step_sx(x) for x in s[1]]
    if k in ("par", "xpar"):
        return [k, [step_sx(x) for x in s[1]], list(s[2])]
    raise ValueError(s)


def step_str(s) -> str:
    if isinstance(s, str):
        return s
    k = s[0]
    if k == "seq":
        return "seq[" + ",".join(step_str(x) for x in s[1]) + "]"
    if k in ("par", "xpar"):
        return f"{k}[" + ",".join(step_str(x) for x in s[1]) + "]" + str(list(s[2]))
    return k + "(" + ",".join(str(x) for x in s[1:]) + ")"


def kinds(s) -> set:
    if isinstance(s, str):
        return {s}
    r = {s[0]}
    if s[0] in ("seq", "par", "xpar"):
        for x in s[1]:
            r |= kinds(x)
    return r


def depth(s) -> int:
    if isinstance(s, str) or s[0] not in ("seq", "par", "xpar"):
        return 0
    return 1 + max([depth(x) for x in s[1]] + [0])


def lazy_creation(s, input_lazy: bool) -> tuple[bool, bool]:
    """(output_lazy, ambiguous): does the step's OUTPUT generator touch the float stream / the
    creation counter while it is being pulled, and does some mutation step inside lazily consume
    such a generator (then the real, interleaved order differs from the model's eager order)."""
    if s == "identity":
        return input_lazy, False
    if s == "novelty":
        return True, False
    if s == "elitism":
        return False, False
    k = s[0]
    if k == "mutation":
        return True, input_lazy
    if k == "crossover":
        return True, False
    if k in ("tournament", "lexicase"):
        return False, False
    if k == "seq":
        lazy, amb = input_lazy, False
        for x in s[1]:
            lazy, a = lazy_creation(x, lazy)
            amb = amb or a
        return lazy, amb
    if k in ("par", "xpar"):
        out, amb = False, False
        for x in s[1]:
            o, a = lazy_creation(x, False)
            out, amb = out or o, amb or a
        return out, amb
    raise ValueError(s)


def ambiguous(s) -> bool:
    return lazy_creation(s, False)[1]


# ----------------------------------------------------------------------------------------
# running a step on the three iterable forms
# ----------------------------------------------------------------------------------------

FORMS = ("list", "population", "iterator")


def as_form(form: str, inds: list[Individual], problem):
    if form == "list":
        return list(inds)
    if form == "population":
        tracker = MultiObjectiveProgressTracker(problem, SequentialEvaluator())
        return Population(iter(inds), tracker, 0)
    if form == "iterator":
        return (i for i in inds)
    raise ValueError(form)


def run_step(step_obj, problem, rep, source, population, k):
    """list(step.apply(...)) or 'error' (any exception of the real code)."""
    try:
        return list(step_obj.apply(problem, SequentialEvaluator(), rep, source, population, k, 1))
    except Exception as e:  # noqa: BLE001
        return f"error:{type(e).__name__}"


# ----------------------------------------------------------------------------------------
# generators shared by the checks
# ----------------------------------------------------------------------------------------

def gen_triples(rng, n, ncomps, dup=True):
    """population of n individuals with ties; sometimes the same object twice."""
    out = []
    for i in range(n):
        if dup and out and rng.random() < 0.15:
            out.append(rng.choice(out))
        else:
            out.append((i, rng.randint(-2, 3), [rng.randint(0, 3) for _ in range(ncomps)]))
    return out


LEAVES = ["identity", "elitism", "novelty", "tournament", "lexicase", "mutation", "crossover"]


def gen_step(rng, d, mins):
    """random step tree of nesting depth <= d"""
    if d == 0 or rng.random() < 0.25:
        k = rng.choice(LEAVES)
        if k in ("identity", "elitism", "novelty"):
            return k
        if k == "tournament":
            return ("tournament", rng.choice([1, 2, 3, 5, 11]), rng.random() < 0.5)
        if k == "lexicase":
            return ("lexicase", mins, rng.random() < 0.3)
        return (k, rng.choice([0, 10, 500, 901, 1001]))
    k = rng.choice(["seq", "par", "par", "xpar"])
    n = rng.choice([1, 2, 2, 3, 3, 4])
    subs = [gen_step(rng, d - 1, mins) for _ in range(n)]
    if k == "seq":
        return ("seq", subs)
    ws = [rng.choice([0, 1, 1, 2, 3, 5]) for _ in range(n)]
    if sum(ws) == 0:
        ws[rng.randrange(n)] = 1
    return (k, subs, ws)



# ----------------------------------------------------------------------------------------
# whole runs: recorder, generation budget, given initial population, a small tree grammar
# ----------------------------------------------------------------------------------------

class GenRecorder(SearchRecorder):
    """records (generation, individual) for every individual a `Population` registers"""

    def __init__(self, limit: int = 20000):
        self.seen: list[tuple[int, Individual]] = []
        self.limit = limit

    def register(self, tracker, individual, problem, is_best):
        self.seen.append((individual.metadata.get("generation"), individual))
        if len(self.seen) > self.limit:
            # a step that multiplies the population (seen on the unrepaired tree) must not hang the check
            raise RuntimeError("PopulationExplosion")

    def generations(self) -> list[list[Individual]]:
        gens: dict[int, list[Individual]] = {}
        for g, ind in self.seen:
            gens.setdefault(g, []).append(ind)
        return [gens[g] for g in sorted(gens)]


class Generations(SearchBudget):
    """stop after `n` generations have been produced (is_done is called once per loop iteration)"""

    def __init__(self, n):
        self.n = n
        self.calls = 0

    def is_done(self, tracker):
        self.calls += 1
        return self.calls > self.n


class Given(PopulationInitializer):
    def __init__(self, inds):
        self.inds = inds

    def initialize(self, problem, representation, random, target_size, **kwargs):
        yield from self.inds[:target_size]


def default_step_tree():
    return ("par", ["elitism", "novelty", ("seq", [("tournament", 5, False), ("crossover", 10), ("mutation", 901)])], [5, 5, 90])


class Root(ABC):
    pass


@dataclass
class Leaf(Root):
    x: int


@dataclass
class Node(Root):
    l: Root
    r: Root


Leaf.__gengy_field_names__ = ("x",)     # (what gram.canon reads the children of a class instance from)
Node.__gengy_field_names__ = ("l", "r")

_TREE = None


@dataclass
class Top:
    """concrete start symbol: the grammar's minimum depth is 2 (Top -> Leaf)"""
    x: Root


@dataclass
class Top3:
    """minimum depth 3 (Top3 -> Top -> Leaf)"""
    t: Top


def tree_setup_tight(seed=0, start=Top):
    """a representation whose depth limit EQUALS the grammar's minimum depth (2 or 3)"""
    g = extract_grammar([Leaf, Node, Top], start)
    r = NativeRandomSource(seed)
    return g, r, TreeBasedRepresentation(g, MaxDepthDecider(r, g, g.get_min_tree_depth()))


def tree_setup(seed=0):
    g = extract_grammar([Leaf, Node], Root)
    r = NativeRandomSource(seed)
    return g, r, TreeBasedRepresentation(g, MaxDepthDecider(r, g, 4))


def count_nodes(p) -> int:
    if isinstance(p, Node):
        return 1 + count_nodes(p.l) + count_nodes(p.r)
    return 1


