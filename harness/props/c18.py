"""C18 -- random primitives honour their contracts for every random source.

Implementation side: the library's own `RandomSource` methods (inherited by the harness's
ScriptedSource, so `choice`, `choice_weighted`, `shuffle`, `pop_random`, `random_bool` are the
real code), the three genotype-backed sources, `BaseDecider.random_int`,
`DynamicSGEDecider.random_int`, and `NativeRandomSource`.
Model side: lean/GEVerif/Model/Rand.lean; theorems: lean/GEVerif/Props/C18.lean.
"""
from __future__ import annotations

import itertools
import sys
from dataclasses import dataclass
from math import log10
from abc import ABC

from core import Harness, ScriptedSource, enumerate_scripts, sx

from geneticengine.random.sources import NativeRandomSource
from geneticengine.representations.grammatical_evolution.ge import ListWrapper as GEListWrapper
from geneticengine.representations.stackgggp import ListWrapper as StackListWrapper
from geneticengine.representations.grammatical_evolution.structured_ge import StructuredListWrapper
from geneticengine.representations.grammatical_evolution import dynamic_structured_ge as dsge
from geneticengine.representations.tree.initializations import ProgressivelyTerminalDecider
from geneticengine.grammar.grammar import extract_grammar

RULE = ("corpus of boundary cases first, then cases drawn from VERIF_SEED: (lo,hi) boxes enumerated with all draws, "
        "weight vectors over dyadic denominators (float arithmetic exact there) incl. zero weights first/last/all-but-one, "
        "gene lists of every length 1..4 over {-3..3,maxsize}; a case is non-trivial when its range has more than one value / "
        "its list more than one element; distinct = distinct protocol lines")
ASSUMPTIONS = [
    "float weights are modelled as exact rationals n/den; the harness only uses dyadic denominators where IEEE arithmetic is exact",
    "round(log10(width)) in BaseDecider.random_int is computed by Python and passed to the model as the exponent bound E (the theorem holds for every E)",
    "NativeRandomSource wraps CPython's Mersenne Twister: its bounds are checked on sampled draws, not proved",
]
TRUSTED_EXTRA = ["CPython random.Random (Mersenne Twister) behind NativeRandomSource is outside the model"]


class Root(ABC):
    pass


@dataclass
class Leaf(Root):
    x: int


_G = None


def grammar():
    global _G
    if _G is None:
        _G = extract_grammar([Leaf], Root)
    return _G


def call(h: Harness, site: str, fn):
    """Run an implementation call; map exceptions to an error atom."""
    try:
        return fn()
    except Exception as e:  # noqa: BLE001
        return f"error:{type(e).__name__}"


def check_randint_sources(h: Harness):
    rng = h.rng
    # scripted (sanity of the harness source itself against the model)
    box = range(-4, 5) if h.thorough else range(-3, 4)
    for lo in box:
        for hi in box:
            if lo > hi:
                continue
            for d in range(0, hi - lo + 3):
                s = ScriptedSource([d])
                v = s.randint(lo, hi)
                h.agree("ScriptedSource.randint", ["randint_scripted", lo, hi, [d]], [v, 1], nontrivial=lo < hi)
    # genotype-backed sources: all gene lists of length 1..L over a small alphabet, all cursors
    alphabet = [-3, -1, 0, 1, 2, 7, sys.maxsize]
    L = 3 if h.thorough else 2
    # (ranges WIDER than the platform integer among them, and genes outside [0, sys.maxsize]: a gene list is whatever it is -- injected,
    # read from a file, made by another tool)
    alphabet = alphabet + [2**63 + 11]
    bounds = [(0, 0), (0, 1), (-2, 2), (3, 3), (1, sys.maxsize), (-5, -1), (0, 10), (0, sys.maxsize), (-sys.maxsize, sys.maxsize), (-2, sys.maxsize)]
    for n in range(1, L + 1):
        for dna in itertools.product(alphabet, repeat=n):
            for (lo, hi) in bounds:
                for idx in range(n):
                    for name, cls in (("ge.ListWrapper", GEListWrapper), ("stackgggp.ListWrapper", StackListWrapper)):
                        w = cls(list(dna), idx)
                        v = call(h, name, lambda: w.randint(lo, hi))
                        if isinstance(v, str):
                            h.fail(name + ".randint", "raises", f"{name}.randint({lo},{hi}) on dna={dna} raised {v}", [list(dna), idx, lo, hi])
                            continue
                        h.agree(name + ".randint", ["randint_gene", lo, hi, list(dna), idx], [v, w.index], nontrivial=lo < hi)
                        h.holds(name + ".randint", "out-of-bounds", ["prop_bounds", lo, hi, v],
                                f"{name}.randint({lo},{hi}) returned {v} for dna={dna} index={idx}", [list(dna), idx, lo, hi])
    # structured wrapper: several keys, draws on the infrastructure key and on a named key
    for _ in range(h.n(150, 1500)):
        keys = ["$infrastructure"] + [f"k{i}" for i in range(rng.randint(0, 3))]
        dna = {k: [rng.choice(alphabet) for _ in range(rng.randint(1, 4))] for k in keys}
        w = StructuredListWrapper(dna)
        idxs = {k: rng.randrange(len(dna[k])) for k in keys}
        w.indexes = dict(idxs)
        lo = rng.randint(-5, 5)
        hi = lo + rng.choice([0, 0, 1, 2, 9, 1000, sys.maxsize])
        key = rng.choice(keys)
        v = call(h, "sge", lambda: w.randint(lo, hi, key) if key != "$infrastructure" else w.randint(lo, hi))
        if isinstance(v, str):
            h.fail("StructuredListWrapper.randint", "raises", f"raised {v}", [dna, idxs, lo, hi, key])
            continue
        h.agree("StructuredListWrapper.randint",
                ["randint_sge", key, lo, hi, [[k, dna[k]] for k in keys], [[k, idxs[k]] for k in keys]],
                [v, w.indexes[key]], nontrivial=lo < hi)
        h.holds("StructuredListWrapper.randint", "out-of-bounds", ["prop_bounds", lo, hi, v],
                f"StructuredListWrapper.randint({lo},{hi}) returned {v}", [dna, idxs, lo, hi, key])


def check_derived(h: Harness):
    rng = h.rng
    # choice: every list length 1..6, every draw
    for n in range(1, 7):
        for d in range(0, n + 2):
            s = ScriptedSource([d])
            v = s.choice(list(range(n)))
            h.agree("RandomSource.choice", ["choice", n, [d]], v, nontrivial=n > 1)
            h.holds("RandomSource.choice", "not-a-member", ["prop_member", n, v], f"choice over {n} options returned {v}", [n, d])
    for d in range(0, 4):
        s = ScriptedSource([d])
        v = s.random_bool()
        if type(v) is not bool:
            h.fail("RandomSource.random_bool", "not-a-bool", f"random_bool returned {v!r}", [d])
        else:
            h.agree("RandomSource.random_bool", ["random_bool", [d]], v)
    # shuffle: all scripts for lists up to 4 (5 thorough)
    for n in range(0, (6 if h.thorough else 5)):
        xs = list(range(10, 10 + n))
        for script, res in enumerate_scripts(lambda src: src.shuffle(list(xs))):
            h.agree("RandomSource.shuffle", ["shuffle", xs, script], res, nontrivial=n > 1)
            h.holds("RandomSource.shuffle", "not-a-permutation", ["prop_perm", xs, res], f"shuffle({xs}) -> {res}", [xs, script])
    # duplicates
    for xs in ([1, 1, 2], [5, 5, 5, 5], [1, 2, 1, 2]):
        for script, res in enumerate_scripts(lambda src: src.shuffle(list(xs))):
            h.agree("RandomSource.shuffle", ["shuffle", xs, script], res)
            h.holds("RandomSource.shuffle", "not-a-permutation", ["prop_perm", xs, res], f"shuffle({xs}) -> {res}", [xs, script])
    # pop_random: all draws for lists up to 5
    for n in range(1, 6):
        xs = list(range(20, 20 + n))
        for d in range(0, n + 1):
            lst = list(xs)
            s = ScriptedSource([d])
            item = s.pop_random(lst)
            h.agree("RandomSource.pop_random", ["pop_random", xs, [d]], [item, lst], nontrivial=n > 1)
            h.holds("RandomSource.pop_random", "does-not-remove-returned", ["prop_pop", xs, item, lst],
                    f"pop_random({xs}) returned {item} leaving {lst}", [xs, d])
    # ... and long lists (several hundred elements: indices beyond anything an interpreter treats specially), draws at both ends
    for n in (256, 257, 258, 259, 300, 1000) if not h.thorough else (255, 256, 257, 258, 259, 260, 300, 511, 513, 1000, 5000):
        xs = list(range(1000, 1000 + n))
        for d in (0, 1, n - 2, n - 1, n, n // 2):
            lst = list(xs)
            s = ScriptedSource([d])
            try:
                item = s.pop_random(lst)
            except Exception as e:  # noqa: BLE001
                h.fail("RandomSource.pop_random", "raises", f"pop_random on a list of {n} elements, draw {d}: {type(e).__name__}: {e}; the list now has "
                       f"{len(lst)} elements", [n, d])
                continue
            h.agree("RandomSource.pop_random", ["pop_random", xs, [d]], [item, lst])
            h.holds("RandomSource.pop_random", "does-not-remove-returned", ["prop_pop", xs, item, lst],
                    f"pop_random(list of {n}) with draw {d} returned {item} leaving {len(lst)} elements", [n, d])
    h.exhaustive = True


WEIGHT_CORPUS = [
    (4, [0, 1, 3, 0]), (4, [0, 0, 4]), (2, [0, 1]), (1, [0, 0, 1, 0]), (8, [1, 0, 7]),
    (1, [1, 1, 1]), (16, [0, 16]), (4, [3, 0, 0, 1]), (1, [0, 0, 0]), (2, [0]),
]


def check_weighted(h: Harness):
    rng = h.rng
    cases = list(WEIGHT_CORPUS)
    for _ in range(h.n(60, 600)):
        den = rng.choice([1, 2, 4, 8, 16])
        k = rng.randint(1, 5)
        ns = [rng.choice([0, 0, 1, 2, 3, 5]) for _ in range(k)]
        cases.append((den, ns))
    for den, ns in cases:
        weights = [n / den for n in ns]
        total = int(sum(ns) * 100000 / den)
        draws = sorted({0, 1, total - 1, total, total + 1, total // 2} | {rng.randrange(0, total + 2) for _ in range(6)})
        given = list(weights)   # ONE list object handed to every call (as a caller holding its weights would)
        for d in draws:
            if d < 0:
                continue
            s = ScriptedSource([d])
            v = call(h, "cw", lambda: s.choice_weighted(list(range(len(ns))), given))
            if given != weights:
                h.fail("RandomSource.choice_weighted", "weights-argument-modified",
                       f"choice_weighted changed the caller's weights list {weights} -> {given} (every later choice from it follows other weights)", [den, ns, d])
                given = list(weights)
            if isinstance(v, str):
                h.fail("RandomSource.choice_weighted", "raises", f"choice_weighted(weights={weights}) raised {v}", [den, ns, d])
                continue
            h.agree("RandomSource.choice_weighted", ["choice_weighted", den, ns, [d]], v, nontrivial=len(ns) > 1)
            h.holds("RandomSource.choice_weighted", "zero-weight-option-returned", ["prop_weighted", ns, v],
                    f"choice_weighted(weights={weights}) returned option {v} for draw {d}", [den, ns, d])
    # decimal (non-dyadic) float weights, zero weights LAST: the draws at the very top of the range (level B only: float
    # summation is not modelled, the verdict "never an option of zero weight" needs no arithmetic)
    for ws in ([0.7, 0.2, 0.1, 0.0], [0.1] * 10 + [0.0], [0.3, 0.3, 0.4, 0.0, 0.0], [0.6, 0.3, 0.1, 0.0], [0.2, 0.2, 0.2, 0.2, 0.2, 0.0], [0.1, 0.2, 0.7]):
        ns = [int(round(w * 10)) for w in ws]
        top = int(sum(ws) * 100000)
        for d in sorted({0, 1, top // 2, top - 2, top - 1, top, top + 1, 99998, 99999, 100000}):
            if d < 0:
                continue
            s_ = ScriptedSource([d])
            v = call(h, "cw", lambda: s_.choice_weighted(list(range(len(ws))), list(ws)))
            h.count("choice_weighted:decimal-weights")
            if isinstance(v, str):
                h.fail("RandomSource.choice_weighted", "raises", f"choice_weighted(weights={ws}) raised {v} (draw {d})", [ws, d])
                continue
            h.holds("RandomSource.choice_weighted", "zero-weight-option-returned", ["prop_weighted", ns, v],
                    f"choice_weighted(weights={ws}) returned option {v} (weight {ws[v]}) for the underlying draw {d}", [ws, d])
    # proportionality, exhaustively over ALL draws, for tiny totals (denominator 2^17 keeps floats exact)
    den = 131072
    small = [[0, 3, 0, 5], [4, 0, 0], [0, 0, 2], [1, 1, 1, 1], [7], [0, 9, 0]]
    for _ in range(h.n(6, 60)):
        small.append([rng.choice([0, 1, 2, 3, 6]) for _ in range(rng.randint(1, 4))])
    for ns in small:
        weights = [n / den for n in ns]
        acc, run = [], 0
        for n in ns:
            run += n
            acc.append(run * 100000 // den)
        if acc[-1] == 0:
            continue
        counts = [0] * len(ns)
        nscripts = 0
        for script, res in enumerate_scripts(lambda src: src.choice_weighted(list(range(len(ns))), weights)):
            nscripts += 1
            counts[res] += 1
            h.agree("RandomSource.choice_weighted", ["choice_weighted", den, ns, script], res)
        expect = [a - b for a, b in zip(acc, [0] + acc[:-1])]
        if counts != expect:
            h.fail("RandomSource.choice_weighted", "not-proportional",
                   f"over all {nscripts} draws options were selected {counts} times, scaled weights are {expect}", [den, ns])


def check_deciders(h: Harness):
    rng = h.rng
    g = grammar()
    widths = [0, 1, 2, 999, 1000, 1001, 1002, 5000, 5001, 10**6, sys.maxsize, 2 * sys.maxsize - 1]
    los = [0, -7, 3, -(sys.maxsize - 1), -2500]
    cases = []
    for lo in los:
        for w in widths:
            cases.append((lo, lo + w))
    # odd widths whose half is a power n**e the draw can produce (1023, 1457, 1999, 4801, 8191, 13121, 19999)
    cases += [(-1000, 999), (1, 2000), (0, 1023), (-728, 729), (0, 4801), (5, 8196), (-6560, 6561), (0, 19999)]
    for lo, hi in cases:
        width = hi - lo
        E = round(log10(width)) if width > 1000 else 0
        scripts = []
        if width > 1000:
            for n in (0, 1, 2, 9, 10):
                for e in sorted({0, 1, E // 2, E - 1, E} - {-1}):
                    for b in (0, 1):
                        scripts.append([n, e, b])
            for _ in range(h.n(4, 40)):
                scripts.append([rng.randrange(11), rng.randrange(E + 1), rng.randrange(2)])
            if width < 30000:
                # all (n, e, sign) draws for the moderately wide ranges
                scripts = [[n, e, b] for n in range(11) for e in range(E + 1) for b in (0, 1)]
        else:
            scripts = [[d] for d in sorted({0, 1, width, width + 1, width // 2})]
        for sc in scripts:
            s = ScriptedSource(sc)
            dec = ProgressivelyTerminalDecider(s, g)
            v = call(h, "dec", lambda: dec.random_int(lo, hi))
            if isinstance(v, str):
                h.fail("BaseDecider.random_int", "raises", f"random_int({lo},{hi}) raised {v}", [lo, hi, sc])
                continue
            h.agree("BaseDecider.random_int", ["decider_random_int", E, lo, hi, sc], v, nontrivial=width > 0)
            h.holds("BaseDecider.random_int", "out-of-bounds", ["prop_bounds", lo, hi, v],
                    f"BaseDecider.random_int({lo},{hi}) returned {v} (script {sc})", [lo, hi, sc])
    # default bounds
    for sc in ([10, 19, 0], [10, 19, 1], [10, 18, 0], [0, 0, 0], [7, 19, 1]):
        s = ScriptedSource(sc)
        dec = ProgressivelyTerminalDecider(s, g)
        lo, hi = -(sys.maxsize - 1), sys.maxsize
        v = call(h, "dec", lambda: dec.random_int())
        E = round(log10(hi - lo))
        if isinstance(v, str):
            h.fail("BaseDecider.random_int", "raises", f"random_int() raised {v}", [lo, hi, sc])
            continue
        h.agree("BaseDecider.random_int", ["decider_random_int", E, lo, hi, sc], v)
        h.holds("BaseDecider.random_int", "out-of-bounds", ["prop_bounds", lo, hi, v],
                f"BaseDecider.random_int() [default bounds] returned {v} (script {sc})", [lo, hi, sc])
    # dynamic SGE decider
    # (creation draws genes in 0..1024, mutation rewrites a gene with a value in 0..sys.maxsize)
    # ... and a genotype written by hand or imported may hold any integer, negative ones included
    genes = [0, 1, 2, 3, 7, 128, 1023, 1024, 1025, 4096, 10**9 + 7, sys.maxsize - 1, sys.maxsize, -1, -40, -1025, -sys.maxsize]
    # the source handed to metahandlers during a dynamic-SGE mapping: bounded floats and the derived primitives
    for gene in genes:
        for lo, hi in [(0.0, 1.0), (-2.5, 2.5), (9.0, 10.0), (0.0, 0.0), (-1e6, 1e6)]:
            geno = dsge.Genotype(ScriptedSource([]), {float: [gene]})
            src = dsge.GenotypeBackedSource(dsge.DynamicSGEDecider(geno, g, max_depth=5))
            v = call(h, "dsge", lambda: src.random_float(lo, hi))
            h.seen(f"dsge-float:{gene}:{lo}:{hi}", nontrivial=lo < hi)
            h.count("GenotypeBackedSource.random_float")
            if isinstance(v, str):
                h.fail("GenotypeBackedSource.random_float", "raises", f"random_float({lo},{hi}) with gene {gene} raised {v}", [gene, lo, hi])
            elif not (isinstance(v, float) and lo <= v <= hi):
                h.fail("GenotypeBackedSource.random_float", "out-of-bounds",
                       f"the dynamic-SGE metahandler source returned random_float({lo}, {hi}) = {v!r} for gene {gene}", [gene, lo, hi])
        for lo, hi in [(0, 0), (0, 1), (-3, 3), (1, 6)]:
            geno = dsge.Genotype(ScriptedSource([]), {int: [gene, gene // 3, 5]})
            src = dsge.GenotypeBackedSource(dsge.DynamicSGEDecider(geno, g, max_depth=5))
            v = call(h, "dsge", lambda: src.randint(lo, hi))
            if isinstance(v, str):
                h.fail("GenotypeBackedSource.randint", "raises", f"randint({lo},{hi}) with gene {gene} raised {v}", [gene, lo, hi])
                continue
            h.holds("GenotypeBackedSource.randint", "out-of-bounds", ["prop_bounds", lo, hi, v],
                    f"the dynamic-SGE metahandler source returned randint({lo},{hi}) = {v} for gene {gene}", [gene, lo, hi])
            c = call(h, "dsge", lambda: src.choice(["p", "q", "r"]))
            if c not in ("p", "q", "r"):
                h.fail("GenotypeBackedSource.choice", "not-a-member", f"choice returned {c!r} for gene {gene}", [gene])
            w = call(h, "dsge", lambda: src.choice_weighted([0, 1, 2], [0.0, 0.5, 0.5]))
            if isinstance(w, str):
                h.fail("GenotypeBackedSource.choice_weighted", "raises", f"choice_weighted raised {w} for gene {gene}", [gene])
            else:
                h.holds("RandomSource.choice_weighted", "zero-weight-option-returned", ["prop_weighted", [0, 1, 1], w],
                        f"GenotypeBackedSource.choice_weighted(weights=[0, .5, .5]) returned {w} for gene {gene}", [gene])
    for lo, hi in [(0, 0), (5, 5), (0, 1), (0, 10), (-3, 3), (32, 128), (-sys.maxsize, sys.maxsize)]:
        for gene in genes + ([hi - lo] if hi - lo < 2000 else []):
            geno = dsge.Genotype(ScriptedSource([]), {int: [gene]})
            v = call(h, "dsge", lambda: dsge.DynamicSGEDecider(geno, g, max_depth=5).random_int(lo, hi))
            if isinstance(v, str):
                h.fail("DynamicSGEDecider.random_int", "raises", f"random_int({lo},{hi}) with gene {gene} raised {v}", [gene, lo, hi])
                continue
            h.agree("DynamicSGEDecider.random_int", ["dsge_random_int", gene, lo, hi], v, nontrivial=lo < hi)
            h.holds("DynamicSGEDecider.random_int", "out-of-bounds", ["prop_bounds", lo, hi, v],
                    f"DynamicSGEDecider.random_int({lo},{hi}) returned {v} for gene {gene}", [gene, lo, hi])
        # the top of the range must be reachable
        if hi - lo < 2000:
            reach = set()
            for gene in range(0, hi - lo + 2):
                geno = dsge.Genotype(ScriptedSource([]), {int: [gene]})
                v = call(h, "dsge", lambda: dsge.DynamicSGEDecider(geno, g, max_depth=5).random_int(lo, hi))
                reach.add(v)
            if hi not in reach:
                h.fail("DynamicSGEDecider.random_int", "max-unreachable", f"random_int({lo},{hi}) never returns {hi}", [lo, hi])


def check_same_genes_same_stream(h: Harness):
    """"two sources created with the same seed produce the same stream" for the genotype-backed sources: the seed is
    the gene list.  Two (three) sources over equal genes, alive at the same time and consumed one after the other,
    both created first, or alternately, must each produce the stream a source consumed alone produces."""
    rng = h.rng

    def ops_for(n):
        out = []
        for i in range(n):
            lo = rng.randint(-5, 5)
            out.append((rng.choice(["randint", "randint", "choice", "bool", "weighted", "shuffle", "normal", "normal", "float"]), lo, lo + rng.choice([0, 1, 2, 9, 1000])))
        return out

    def draw(src, op, key):
        try:
            return draw_(src, op, key)
        except Exception as e:  # noqa: BLE001   (reported below: every primitive returns a value for these arguments)
            return f"error:{type(e).__name__}: {e}"

    def draw_(src, op, key):
        kind, lo, hi = op
        if kind == "randint":
            return src.randint(lo, hi, key) if key is not None else src.randint(lo, hi)
        if kind == "choice":
            return src.choice(["p", "q", "r", "s"])
        if kind == "bool":
            return src.random_bool()
        if kind == "weighted":
            return src.choice_weighted(["a", "b", "c"], [1, 2, 1])
        if kind == "normal":
            return src.normalvariate(float(lo), 1.0 + (hi - lo))
        if kind == "float":
            return src.random_float(float(lo), float(hi) + 0.5)
        return tuple(src.shuffle([1, 2, 3, 4]))

    for _ in range(h.n(60, 600)):
        n = rng.randint(2, 6)
        genes = [rng.randrange(0, 10**6) for _ in range(n)]
        keys = ["$infrastructure", "ka", "kb"]
        sdna = {k: [rng.randrange(0, 10**6) for _ in range(rng.randint(1, 4))] for k in keys}
        makers = [("ge.ListWrapper", lambda: GEListWrapper(list(genes)), None),
                  ("stackgggp.ListWrapper", lambda: StackListWrapper(list(genes)), None),
                  ("StructuredListWrapper", lambda: StructuredListWrapper({k: list(v) for k, v in sdna.items()}), "k")]
        ops = ops_for(rng.randint(3, 10))
        for name, mk, keyed in makers:
            def keyfor(i, op):
                return rng_keys[i] if (keyed and op[0] == "randint") else None
            rng_keys = [rng.choice(["ka", "kb", "$infrastructure"]) for _ in ops]
            solo = mk()
            ref = [draw(solo, op, keyfor(i, op)) for i, op in enumerate(ops)]
            broken = [(ops[i], x) for i, x in enumerate(ref) if isinstance(x, str) and x.startswith("error:")]
            if broken:
                h.fail(name, "raises", f"{name} over the genes {genes if not keyed else sdna}: {broken[0][0][0]}{tuple(broken[0][0][1:])} raised {broken[0][1][6:]}",
                       {"genes": genes if not keyed else sdna, "ops": ops})
                continue
            for pattern in ("sequential", "both-created-first", "alternating"):
                if pattern == "sequential":
                    a = mk()
                    sa = [draw(a, op, keyfor(i, op)) for i, op in enumerate(ops)]
                    b = mk()
                    sb = [draw(b, op, keyfor(i, op)) for i, op in enumerate(ops)]
                elif pattern == "both-created-first":
                    a, b = mk(), mk()
                    sa = [draw(a, op, keyfor(i, op)) for i, op in enumerate(ops)]
                    sb = [draw(b, op, keyfor(i, op)) for i, op in enumerate(ops)]
                else:
                    a, b = mk(), mk()
                    sa, sb = [], []
                    for i, op in enumerate(ops):
                        sa.append(draw(a, op, keyfor(i, op)))
                        sb.append(draw(b, op, keyfor(i, op)))
                h.seen(f"same-genes:{name}:{pattern}:{genes}:{ops}")
                h.count(f"same-genes:{name}:{pattern}")
                if sa != ref or sb != ref:
                    which = "first" if sa != ref else "second"
                    got = sa if sa != ref else sb
                    j = next(i for i in range(len(ref)) if got[i] != ref[i])
                    h.fail(name, "same-seed-different-stream",
                           f"two {name} sources over the same genes, {pattern}: draw #{j} ({ops[j][0]}{ops[j][1:]}) of the {which} source is {got[j]!r}, "
                           f"a source consumed alone gives {ref[j]!r}", {"genes": genes if not keyed else sdna, "ops": ops, "pattern": pattern})
                    break


def check_float_bounds(h: Harness):
    """random_float(lo, hi) of the genotype-backed sources at the TOP of the range (the gene that selects the largest
    value), for bounds where lo + (hi - lo) rounds above hi in floating point"""
    pairs = [(-3.66, 0.58), (-0.55, 3.06), (-2.71, 2.02), (-1.25, 0.95), (-4.57, -1.05), (0.1, 0.3), (0.0, 1.0), (9.0, 10.0)]
    # equal and neighbouring bounds that are not short binary fractions (an interpolation computed from two separately rounded
    # products can land one ulp outside), and bounds given as int literals (the result is a float all the same)
    tight = [(0.9, 0.9), (-0.9, -0.9), (1 / 3, 1 / 3), (0.01, 0.01), (0.7, 0.7000000000000001), (-0.30000000000000004, -0.3), (0, 9), (-3, 3), (5, 5),
             # int-literal bounds beyond 2**53 that have no exact float form (the nearest float lies OUTSIDE the range)
             (0, sys.maxsize), (0, 2**60 + 129), (-(2**53) - 1, 5), (-sys.maxsize, sys.maxsize), (-(2**60) - 129, -(2**60)),
             # narrow ranges next to a bound whose nearest float is a power of two (the floats on its two sides are spaced differently)
             (sys.maxsize - 1500, sys.maxsize), (-sys.maxsize, -sys.maxsize + 1500), (2**62 - 700, 2**62 + 1), (sys.maxsize - 1024, sys.maxsize)]
    g = grammar()
    for lo, hi in pairs + tight:
        genes = (0, 1, 2, 10, 1024, 2048, sys.maxsize) if (lo, hi) in pairs else tuple(range(0, 1026)) + (2048, 2049, sys.maxsize, sys.maxsize - 1, sys.maxsize - 2, sys.maxsize // 2)
        for gene in genes:
            sources = [("ge.ListWrapper", lambda: GEListWrapper([gene, gene, gene])),
                       ("stackgggp.ListWrapper", lambda: StackListWrapper([gene, gene, gene])),
                       ("StructuredListWrapper", lambda: StructuredListWrapper({"$infrastructure": [gene, gene, gene]})),
                       ("GenotypeBackedSource", lambda: dsge.GenotypeBackedSource(dsge.DynamicSGEDecider(dsge.Genotype(ScriptedSource([]), {float: [gene]}), g, max_depth=5)))]
            for name, mk in sources:
                v = call(h, name, lambda: mk().random_float(lo, hi))
                h.seen(f"float-top:{name}:{lo}:{hi}:{gene}", nontrivial=True)
                h.count(f"float-bounds:{name}")
                if isinstance(v, str):
                    h.fail(name + ".random_float", "raises", f"{name}.random_float({lo}, {hi}) with genes {gene} raised {v}", [name, lo, hi, gene])
                elif not (isinstance(v, float) and lo <= v <= hi):
                    h.fail(name + ".random_float", "out-of-bounds", f"{name}.random_float({lo}, {hi}) = {v!r} for genes [{gene}, ...]", [name, lo, hi, gene])


def check_seed_kinds_across_processes(h: Harness):
    """"two sources created with the same seed produce the same stream" -- also when the two are created in two different interpreter
    processes (a re-run of an experiment), for every kind of seed `random.Random` accepts: ints (negative, huge), floats, strings, bytes"""
    import os
    import subprocess
    import sys
    code = ("import sys\n"
            "from geneticengine.random.sources import NativeRandomSource\n"
            "for seed in (0, 17, -3, 2**70 + 1, 2.5, 'run-1', 'a' * 40, b'worker-7'):\n"
            "    s = NativeRandomSource(seed)\n"
            "    print(repr(seed)[:20], [s.randint(-1000, 1000) for _ in range(6)], round(s.random_float(0, 1), 9), s.choice('abcdef'))\n")
    outs = []
    for hs in ("1", "2", "random"):
        env = dict(os.environ, PYTHONHASHSEED=hs, PYTHONPATH=os.environ.get("VERIF_REPO", "/repo"))
        p = subprocess.run([sys.executable, "-c", code], capture_output=True, text=True, env=env, timeout=120)
        if p.returncode != 0:
            h.fail("NativeRandomSource", "raises", f"creating sources with int / float / str / bytes seeds failed: {p.stderr.strip()[-300:]}", [hs])
            return
        outs.append(p.stdout.strip().splitlines())
    h.count("seed-kinds-across-processes")
    for i, line in enumerate(outs[0]):
        h.seen(f"seed-kind:{line[:24]}")
        for j, other in enumerate(outs[1:], 1):
            if other[i] != line:
                h.fail("NativeRandomSource", "same-seed-different-stream",
                       f"two interpreter processes, same seed: one source starts with {line!r}, the other with {other[i]!r}", [i, j])
                return


def check_native(h: Harness):
    rng = h.rng
    check_seed_kinds_across_processes(h)
    # sources created without a seed argument are created with the same (default) seed; and the fall-back of a weighted choice whose
    # weights are all zero is a draw of THE SOURCE like every other
    for trial in range(h.n(6, 40)):
        a, b = NativeRandomSource(), NativeRandomSource()
        sa = [a.randint(-1000, 1000) for _ in range(8)]
        sb = [b.randint(-1000, 1000) for _ in range(8)]
        h.seen(f"native-default-seed:{trial}", nontrivial=trial == 0)
        if sa != sb:
            h.fail("NativeRandomSource", "same-seed-different-stream", f"two sources created without a seed argument start with {sa} and {sb}", [trial])
            break
    for trial in range(h.n(20, 200)):
        seed = rng.randrange(10**6)
        n = rng.randint(2, 6)
        opts = list(range(n))
        ws = [0.0] * n if trial % 2 == 0 else [1e-9] * n
        outs = []
        for _ in range(2):
            src = NativeRandomSource(seed)
            outs.append([src.choice_weighted(opts, list(ws)) for _ in range(6)] + [src.randint(0, 99)])
        h.seen(f"native-zero-weights:{trial}")
        if outs[0] != outs[1]:
            h.fail("RandomSource.choice_weighted", "same-seed-different-stream",
                   f"two NativeRandomSource({seed}) asked six times for a weighted choice among {n} options of weights {ws[0]} each (then for one randint) "
                   f"answer {outs[0]} and {outs[1]}", [seed, n])
            break
    for seed in [0, 1, 123, rng.randrange(10**6)]:
        a, b = NativeRandomSource(seed), NativeRandomSource(seed)
        sa, sb = [], []
        for src, out in ((a, sa), (b, sb)):
            for i in range(h.n(200, 2000)):
                lo = (i * 7) % 13 - 6
                hi = lo + (i % 5) * (i % 3)
                out.append(src.randint(lo, hi))
                out.append(src.random_float(lo, hi + 0.5))
                out.append(src.choice([1, 2, 3]))
                out.append(src.choice_weighted(["a", "b", "c"], [0.0, 0.25, 0.75]))
                out.append(tuple(src.shuffle([1, 2, 3, 4])))
                out.append(src.random_bool())
                out.append(src.normalvariate(0, 1))
        h.seen(f"native-seed-{seed}")
        if sa != sb:
            h.fail("NativeRandomSource", "same-seed-different-stream", f"seed {seed}: streams differ", [seed])
        src = NativeRandomSource(seed)
        for i in range(h.n(300, 3000)):
            lo = rng.randint(-50, 50)
            hi = lo + rng.choice([0, 1, 2, 10, 10**6])
            v = src.randint(lo, hi)
            h.holds("NativeRandomSource.randint", "out-of-bounds", ["prop_bounds", lo, hi, v], f"randint({lo},{hi}) -> {v}", [seed, i])
            f = src.random_float(lo, hi)
            if not (lo <= f <= hi):
                h.fail("NativeRandomSource.random_float", "out-of-bounds", f"random_float({lo},{hi}) -> {f}", [seed, i])
            ns = [rng.choice([0, 0, 1, 3]) for _ in range(rng.randint(1, 4))]
            c = src.choice_weighted(list(range(len(ns))), [n / 4 for n in ns])
            h.holds("RandomSource.choice_weighted", "zero-weight-option-returned", ["prop_weighted", ns, c],
                    f"NativeRandomSource({seed}).choice_weighted(weights={[n / 4 for n in ns]}) returned {c}", [seed, i, ns])


def run(h: Harness):
    check_derived(h)
    check_weighted(h)
    check_randint_sources(h)
    check_deciders(h)
    check_same_genes_same_stream(h)
    check_float_bounds(h)
    check_native(h)
