"""C03 -- depth limits are respected and every feasible depth limit is usable.

Implementation: depth-limited creation (grow / full / PI-grow deciders) for every limit from
min-1 to min+4, then mutation and crossover under the same limit.
Model: lean/GEVerif/Model/Synth.lean (`createNode`, `deciderValid`).
"""
from __future__ import annotations

import warnings

import gram
import synth
from core import Harness, ScriptedSource, enumerate_scripts, sx

from geneticengine.representations.tree.treebased import TreeBasedRepresentation

RULE = ("generated productive grammars emphasising list-of-abstract fields, unions, nested abstract layers and mutual "
        "recursion x limit d in [min-1, min+4] x {grow, full, pigrow} x scripted draws, followed by mutation / crossover "
        "chains under the same limit; thorough tier adds ALL draw sequences for grammars with a small decision tree; "
        "non-trivial = limit >= grammar minimum and program has >= 2 nodes, or the limit is infeasible")
ASSUMPTIONS = [
    "CPython's recursion limit (the library sets sys.setrecursionlimit(10000) at import) is not modelled: limits of 150 / 320 (thorough: 450) are exercised in a fresh interpreter on frame-heavy chain grammars (worker, Python-side verdict); limits in the thousands are outside the explored range",
]
OPTS = {"float": False, "str": False, "ann": True}


def one(h: Harness, spec, b, g, mind, kind, d, draws):
    line_spec = gram.spec_sx(spec)
    res, v, src = synth.create(b, kind, d, draws)
    if res is None:
        return None
    site = f"create_genotype[{kind}]"
    replay = [sx(line_spec), kind, d, list(draws)]
    if v is not None and d >= mind and synth.depth_of(v, b) > d + 40:
        # far beyond the limit: reported from the independent traversal alone (the value is too deep to be worth piping)
        h.fail(site, "depth-exceeds-limit", f"[python oracle] program of depth {synth.depth_of(v, b)} under max depth {d}", replay)
        return None
    h.agree(site, ["create", line_spec, [kind, d], list(draws)], res,
            nontrivial=(d < mind) or sx(res).count("(n ") >= 2)
    h.count(f"d-min={d - mind}")
    if d < mind:
        if res != ["err", "library"]:
            h.fail(site, "infeasible-limit-not-rejected-upfront",
                   f"max depth {d} < grammar minimum {mind} gave {sx(res)[:120]}", replay)
        return None
    if res[0] != "ok":
        # grammars whose dependent refinements can raise SynthesisException have their own (open) finding
        backtracking = "depVarFrom" in sx(line_spec)
        h.fail(site, "assertion-after-synthesis-backtracking" if backtracking else "feasible-limit-fails",
               f"max depth {d} >= grammar minimum {mind} but creation failed with {res[1]}", replay)
        return None
    h.holds(site, "depth-exceeds-limit", ["prop_depth", d, res[1]], f"program deeper than {d}: {sx(res[1])[:200]}", replay)
    if synth.depth_of(v, b) > d:
        h.fail(site, "depth-exceeds-limit", f"[python oracle] program deeper than {d}", replay)
    return v


def variation(h: Harness, spec, b, g, kind, d, v, rng):
    """mutation / crossover chains under the same limit"""
    src = ScriptedSource([rng.randrange(0, 1000) for _ in range(2000)])
    with warnings.catch_warnings():
        warnings.simplefilter("ignore")
        dec = synth.make_decider(kind, d, src, g)
        rep = TreeBasedRepresentation(g, dec)
        pool = [v]
        for step in range(h.n(4, 12)):
            op = "mutate" if (rng.random() < 0.5 or len(pool) < 2) else "crossover"
            try:
                if op == "mutate":
                    out = [rep.mutate(src, rng.choice(pool))]
                else:
                    out = list(rep.crossover(src, rng.choice(pool), rng.choice(pool)))
            except RecursionError:
                return
            except Exception as e:  # noqa: BLE001
                h.fail(f"TreeBasedRepresentation.{op}[{kind}]", "feasible-limit-fails",
                       f"{op} under limit {d} raised {gram.err_kind(e)}", [sx(gram.spec_sx(spec)), kind, d, step])
                return
            for x in out:
                c = gram.canon(x, b)
                h.holds(f"TreeBasedRepresentation.{op}[{kind}]", "depth-exceeds-limit", ["prop_depth", d, c],
                        f"after {op}: program deeper than {d}: {sx(c)[:200]}", [sx(gram.spec_sx(spec)), kind, d, step])
                pool.append(x)


RETRY_WITNESS = gram.Spec([
    gram.ClassSpec("A0", True, None),
    gram.ClassSpec("P1", False, 0, [("vars", ("ann", ("list", ("ann", "str", ("varRange", ["x", "y"]))), ("listSize", 0, 1))),
                                    ("x", ("ann", "str", ("depVarFrom", "vars")))]),
    gram.ClassSpec("P2", False, 0, [("a", ("cls", 1))]),
], 0, [1, 2])


def retry_witness(h: Harness):
    """Open finding: after a production raised SynthesisException and was dropped, no remaining
    production may fit the depth budget and the decider asserts midway."""
    b = gram.build(RETRY_WITNESS)
    g = b.extract()
    mind = g.get_min_tree_depth()
    for draws in ([0, 0], [0, 0, 0, 0], [1, 0, 0, 0]):
        for kind in ("grow", "full", "pigrow"):
            one(h, RETRY_WITNESS, b, g, mind, kind, mind, draws + [0] * 16)


def dsge_limits(h: Harness, spec, b, g, mind, rng):
    """dynamic SGE takes a depth limit too: every limit >= minimum must be accepted and respected"""
    from linear import DSGE, safe
    import linear
    line_spec = gram.spec_sx(spec)
    for d in range(max(0, mind - 1), mind + 3):
        draws = [rng.randrange(0, 5000) for _ in range(300)]
        src = ScriptedSource(draws)
        rep = DSGE(g, d)
        geno = rep.create_genotype(src)
        st, p = safe(lambda: rep.genotype_to_phenotype(geno))
        if st == "skip":
            continue
        res = ["ok", gram.canon(p, b)] if st == "ok" else ["err", p]
        site = "DynamicSGE.genotype_to_phenotype"
        replay = [sx(line_spec), "dsge", d, draws[:40]]
        h.agree(site, ["map_dsge", line_spec, d, [], draws[:src.pos + 4]], [res, linear.dsge_sx(geno.dna, b), src.pos],
                nontrivial=d >= mind)
        if d < mind:
            if res != ["err", "library"]:
                h.fail(site, "infeasible-limit-not-rejected-upfront", f"max depth {d} < minimum {mind} gave {sx(res)[:100]}", replay)
        elif st != "ok":
            h.fail(site, "feasible-limit-fails", f"max depth {d} >= grammar minimum {mind} but mapping failed with {p}", replay)
        else:
            h.holds(site, "depth-exceeds-limit", ["prop_depth", d, res[1]], f"mapped program deeper than {d}", replay)


def deep_limits(h: Harness):
    """limits in the hundreds, in a FRESH interpreter: every accepted limit must be usable (no failure midway, RecursionError
    included) and respected.  Judged by the worker's own traversal (programs this deep are not piped to the model)."""
    import json
    import os
    import subprocess
    from pathlib import Path
    limits = [150, 320] if not h.thorough else [150, 320, 450]
    env = dict(os.environ)
    env["PYTHONPATH"] = os.environ.get("VERIF_REPO", "/repo")
    worker = Path(__file__).resolve().parents[1] / "workers" / "c03_deep_worker.py"
    p = subprocess.run(["/venv/bin/python", str(worker), json.dumps(limits)], capture_output=True, text=True, env=env, timeout=900)
    line = next((ln for ln in p.stdout.splitlines() if ln.startswith("C03DEEP ")), None)
    if line is None:
        from core import InfraError
        raise InfraError(f"c03 deep worker failed rc={p.returncode}: {p.stderr[-800:]}")
    for key, res in json.loads(line[len("C03DEEP "):]).items():
        gname, dname, limit = key.split("/")
        op = None
        if "+" in dname:
            dname, op = dname.split("+")
        site = "DynamicSGE.genotype_to_phenotype" if dname == "dsge" else (f"create_genotype[{dname}]" if op is None else f"TreeBasedRepresentation.{op}[{dname}]")
        h.seen("deep:" + key, nontrivial=True)
        h.count("deep-limits:" + dname)
        if "error" in res:
            h.fail(site, "feasible-limit-fails", f"{gname} grammar, max depth {limit} (minimum 1), fresh interpreter: {op or 'creation'} failed with {res['error']}", [key])
        elif res["depth"] > int(limit):
            h.fail(site, "depth-exceeds-limit", f"[python oracle] {gname} grammar: program of depth {res['depth']} under max depth {limit}", [key])


def retargeted_depths(h: Harness):
    """a field re-declared (the documented `Cls.__init__.__annotations__[f] = T` idiom) with a type of ANOTHER minimum depth
    on classes a first grammar has already used: the second grammar's minimum and its depth filters follow the new
    declaration"""
    C = gram.ClassSpec
    rng = h.rng
    for new in (("tuple", ("cls", 1), ("cls", 4)), ("cls", 4), ("ann", ("list", ("cls", 4)), ("listSize", 1, 2)), ("union", ("cls", 4), ("cls", 5))):
        spec = gram.Spec([C("A0", True, None), C("Leaf", False, 0, []), C("Box", False, 0, [("x", ("cls", 1))]),
                          C("Cell", False, None, [("c", ("cls", 2)), ("k", ("ann", "int", ("intRange", 0, 3)))]),
                          C("Mid", False, 0, [("y", ("cls", 1))]), C("Far", False, 0, [("z", ("cls", 4))])], 3, [1, 2, 4, 5])
        b = gram.build(spec)
        g = b.extract()
        for kind in ("grow", "full", "pigrow"):   # the first grammar is used (every class's arguments are looked at)
            synth.create(b, kind, g.get_min_tree_depth() + 1, [rng.randrange(0, 1000) for _ in range(32)])
        spec.classes[2].fields[0] = ("x", new)
        pt = gram.py_type(new, b.classes)
        b.classes[2].__init__.__annotations__["x"] = pt
        b.classes[2].__annotations__["x"] = pt
        gram._collect_tymap(new, pt, b.tymap)
        g = b.extract()
        mind = g.get_min_tree_depth()
        line_spec = gram.spec_sx(spec)
        h.agree("Grammar.get_min_tree_depth", ["min_depth", line_spec], mind)
        h.count("retargeted-depth-grammars")
        for d in range(max(0, mind - 2), mind + 3):
            for kind in ("grow", "full", "pigrow"):
                one(h, spec, b, g, mind, kind, d, [rng.randrange(0, 1000) for _ in range(128)])
        dsge_limits(h, spec, b, g, mind, rng)


def corpus():
    """fixed grammars whose wrapped field types have members of DIFFERENT minimum depth (a tuple needs its deepest
    component, a union its shallowest, a list its element), under abstract and concrete start symbols, in both
    depth modes -- shapes the random generator only meets by luck"""
    C = gram.ClassSpec
    base = [C("A0", True, None), C("Leaf", False, 0, []), C("Wrap", False, 0, [("e", ("cls", 1))]), C("Deep", False, 0, [("w", ("cls", 2))])]
    out = []
    for expansion in (False, True):
        for ft in (("tuple", ("cls", 1), ("cls", 2)), ("tuple", ("cls", 3), ("cls", 1)), ("tuple", ("cls", 1), ("tuple", ("cls", 2), "bool")),
                   ("union", ("cls", 2), ("cls", 1)), ("union", ("cls", 3), ("cls", 2)), ("list", ("cls", 2)),
                   ("tuple", ("cls", 0), ("cls", 3)), ("ann", ("list", ("tuple", ("cls", 1), ("cls", 2))), ("listSize", 1, 2))):
            out.append(gram.Spec(base + [C("P", False, 0, [("p", ft)])], 0, [1, 2, 3, 4], expansion))
            out.append(gram.Spec(base + [C("S", False, None, [("p", ft), ("q", ("cls", 0))])], 4, [1, 2, 3, 4], expansion))
    # a Union whose alternatives are a WRAPPED grammar type (a list of productions, a list of the recursive symbol, a bounded list, a
    # tuple) and a plain value: the wrapped alternative needs the levels of what it wraps, the plain one none
    for expansion in (False, True):
        for wrapped in (("list", ("cls", 1)), ("list", ("cls", 0)), ("ann", ("list", ("cls", 0)), ("listSize", 1, 2)), ("tuple", ("cls", 0), "int")):
            out.append(gram.Spec([C("A0", True, None), C("Lit", False, 0, [("k", ("ann", "int", ("intRange", 0, 3)))]),
                                  C("Add", False, 0, [("l", ("cls", 0)), ("r", ("cls", 0))]),
                                  C("Blk", False, 0, [("body", ("union", wrapped, "int"))])], 0, [1, 2, 3], expansion))
            out.append(gram.Spec([C("A0", True, None), C("Lit", False, 0, []), C("Blk", False, 0, [("body", ("union", "int", wrapped))])], 0, [1, 2], expansion))
    # a nested abstract layer that is recursive and whose SHALLOWEST production needs three levels (While(Guard(Cond), Stmt)), beside a leaf:
    # at limits 1 and 2 only the leaf fits, whatever phase a decider is in
    for expansion in (False, True):
        out.append(gram.Spec([C("Stmt", True, None), C("Skip", False, 0, []), C("Compound", True, 0), C("Cond", False, None, []),
                              C("Guard", False, None, [("c", ("cls", 3))]), C("While", False, 2, [("g", ("cls", 4)), ("s", ("cls", 0))]),
                              C("Seq", False, 2, [("a", ("cls", 0)), ("b", ("cls", 0)), ("g", ("cls", 4))])], 0, [1, 5, 6, 2, 3, 4], expansion))
        out.append(gram.Spec([C("E", True, None), C("Lit", False, 0, []), C("Small", False, None, [("e", ("cls", 0))]), C("Mid", False, None, [("s", ("cls", 2))]),
                              C("Big", False, 0, [("m", ("cls", 3))])], 0, [1, 4, 2, 3], expansion))
    # production weights, including weight 0 on the strictly shallowest production of a non-terminal: the depth-limited deciders do
    # not read weights, the minimum depth the grammar reports is the one creation can meet
    for expansion in (False, True):
        out.append(gram.Spec([C("A0", True, None), C("Leaf", False, 0, [], weight=0), C("Wrap", False, 0, [("e", ("cls", 0))], weight=2),
                              C("Pair", False, 0, [("l", ("cls", 0)), ("r", ("cls", 0))], weight=1)], 0, [1, 2, 3], expansion))
        out.append(gram.Spec([C("A0", True, None), C("A1", True, 0), C("Lit", False, 1, [("k", ("ann", "int", ("intRange", 0, 2)))], weight=0),
                              C("Neg", False, 1, [("e", ("cls", 0))], weight=3), C("Add", False, 0, [("l", ("cls", 0)), ("r", ("cls", 1))], weight=0.5),
                              C("S", False, None, [("a", ("cls", 0)), ("b", ("cls", 1))])], 5, [2, 3, 4, 5, 1], expansion))
    # bounded lists that MAY be empty, with concrete / abstract / refined-leaf element types, next to a leaf production: whatever the
    # analysis charges such a field, a production admitted at the last level gets no elements below the limit
    for expansion in (False, True):
        for lo, hi in ((0, 2), (0, 1), (1, 2)):
            for mh in ("listSize", "listSizeNoOps"):
                out.append(gram.Spec([C("A0", True, None), C("Leaf", False, 0, []), C("Point", False, None, [("x", ("ann", "int", ("intRange", 0, 3)))]),
                                      C("Cloud", False, 0, [("samples", ("ann", ("list", ("cls", 2)), (mh, lo, hi)))]),
                                      C("Tree", False, 0, [("kids", ("ann", ("list", ("cls", 0)), (mh, lo, hi))), ("p", ("cls", 2))])], 0, [1, 3, 4, 2], expansion))
    # a production that can fail (SynthesisException) declared AFTER a deeper one and BEFORE the leaf: whatever creation falls back
    # on when it fails at the last level must fit the limit too
    failing = [("vars", ("ann", ("list", ("ann", "str", ("varRange", ["x", "y"]))), ("listSize", 0, 1))), ("x", ("ann", "str", ("depVarFrom", "vars")))]
    for expansion in (False, True):
        out.append(gram.Spec([C("A0", True, None), C("Big", False, 0, [("l", ("cls", 0)), ("r", ("cls", 0))]), C("Quote", False, 0, [("q", ("cls", 0))]),
                              C("V", False, 0, failing), C("Leaf", False, 0, [])], 0, [1, 2, 3, 4], expansion))
    # plain lists nested in plain lists through a concrete class (Table(rows: list[Row]), Row(cells: list[A0])): more list layers than
    # abstract layers on the shallowest path
    for expansion in (True, False):
        out.append(gram.Spec([C("A0", True, None), C("Lit", False, 0, []), C("Row", False, None, [("cells", ("list", ("cls", 0)))]),
                              C("Table", False, 0, [("rows", ("list", ("cls", 2)))]),
                              C("Grid", False, 0, [("g", ("list", ("list", ("cls", 0))))])], 0, [1, 3, 4, 2], expansion))
    return out


def run(h: Harness):
    rng = h.rng
    deep_limits(h)
    retargeted_depths(h)
    retry_witness(h)
    ngr = h.n(70, 1200)
    shaped = corpus()
    for gi in range(len(shaped) + ngr):
        spec = shaped[gi] if gi < len(shaped) else gram.productive_spec(rng, max_classes=rng.choice([3, 4, 5, 7]), opts=OPTS)
        if gi < len(shaped):
            h.count("corpus-grammars")
        elif rng.random() < 0.2:
            # a CONCRETE start symbol: the first production choice happens below the root
            n = len(spec.classes)
            spec.classes.append(gram.ClassSpec(f"S{n}", False, None, [("a", ("cls", 0)), ("b", ("list", ("cls", 0)))][: rng.randint(1, 2)]))
            spec.start = n
            h.count("concrete-start-symbol")
        b = gram.build(spec)
        try:
            g = b.extract()
        except Exception:  # noqa: BLE001
            continue
        mind = g.get_min_tree_depth()
        if mind >= 1000000:
            continue
        line_spec = gram.spec_sx(spec)
        h.agree("Grammar.get_min_tree_depth", ["min_depth", line_spec], mind)
        dsge_limits(h, spec, b, g, mind, rng)
        for d in range(max(0, mind - 1), mind + 5):
            for kind in ("grow", "full", "pigrow"):
                v = None
                for _ in range(2):
                    draws = [rng.randrange(0, 1000) for _ in range(256)]
                    v = one(h, spec, b, g, mind, kind, d, draws) or v
                if v is not None and rng.random() < 0.3:
                    variation(h, spec, b, g, kind, d, v, rng)
        # exhaustive: every sequence of decisions, for grammars without unbounded draws
        if h.thorough and gi % 10 == 0:
            exhaustive(h, spec, b, g, mind)


def exhaustive(h: Harness, spec, b, g, mind):
    from geneticengine.representations.tree.treebased import TreeBasedRepresentation
    s = sx(gram.spec_sx(spec))
    if " int)" in s or "(list" in s or "bool" in s:  # unbounded / wide draws: decision tree too large
        return
    for kind in ("grow", "full", "pigrow"):
        for d in (mind, mind + 1):
            n = 0

            def make(src):
                dec = synth.make_decider(kind, d, src, g)
                return TreeBasedRepresentation(g, dec).create_genotype(src)
            try:
                for script, v in enumerate_scripts(make, limit=3000):
                    n += 1
                    if synth.depth_of(v, b) > d:
                        h.fail(f"create_genotype[{kind}]", "depth-exceeds-limit", f"[exhaustive] deeper than {d}", [s, kind, d, script])
                h.seen(f"exh:{s}:{kind}:{d}")
                h.count("exhaustive-decision-trees")
            except Exception as e:  # noqa: BLE001
                if type(e).__name__ == "InfraError":
                    continue
                h.fail(f"create_genotype[{kind}]", "feasible-limit-fails", f"[exhaustive] {gram.err_kind(e)} at limit {d}", [s, kind, d])
