"""C04 -- depth-bounded creation reaches exactly the grammar's bounded language.

For finite-choice grammars the implementation is driven under an EXHAUSTIVE scripted source (a
depth-first search over every outcome of every randint), giving the set of programs grow creation
can produce at maximum depth d; this set is compared with the model's enumeration of the bounded
language (Model/Lang.lean) -- the symmetric difference is the failing input.  Full creation: all
branches end at the limit where every abstract type is recursive; PI-grow: never leaves the
language.
"""
from __future__ import annotations

import gram
import synth
from core import Harness, InfraError, enumerate_scripts, parse_sx, sx

from geneticengine.representations.tree.treebased import TreeBasedRepresentation

RULE = ("bounded family: <= 3 abstract types, productions with <= 3 fields over bool / refined ints / names / bounded strings / "
        "bounded lists / tuples / unions / classes, all depths while the decision tree has <= LIMIT leaves (quick 4000, thorough "
        "40000); EVERY sequence of random decisions is executed; non-trivial = language with >= 3 programs; distinct = (spec, "
        "decider, depth)")
ASSUMPTIONS = [
    "finite-choice grammars only: no plain int / float / un-annotated list fields (infinite or impractically large decision trees) and no dependent refinements",
]


def fc_type(rng, abstract_ids, depth=0):
    r = rng.random()
    if depth >= 1 or r < 0.45:
        return ("cls", rng.choice(abstract_ids))
    if r < 0.55:
        return "bool"
    if r < 0.65:
        lo = rng.randint(-1, 1)
        return ("ann", "int", ("intRange", lo, lo + rng.randint(0, 2)))
    if r < 0.72:
        return ("ann", "str", ("varRange", rng.sample(["x", "y", "z"], rng.randint(1, 2))))
    if r < 0.80:
        lo = 1
        inner = fc_type(rng, abstract_ids, 1) if rng.random() < 0.6 else rng.choice(["bool", ("ann", "int", ("intRange", 0, rng.randint(0, 2)))])
        return ("ann", ("list", inner), ("listSize", lo, lo + rng.randint(0, 1)))
    if r < 0.86:
        return ("ann", ("list", fc_type(rng, abstract_ids, 1)), ("listSize", 0, 1))   # possibly empty: the known C05 finding
    if r < 0.92:
        return ("tuple", fc_type(rng, abstract_ids, 1), "bool")
    return ("union", ("cls", rng.choice(abstract_ids)), ("ann", "int", ("intList", [rng.randint(0, 3)])))


def fc_spec(rng):
    na = rng.randint(1, 3)
    classes = [gram.ClassSpec(f"A{i}", True, None if i == 0 else rng.choice([None, 0])) for i in range(na)]
    abstract_ids = list(range(na))
    considered = []
    for a in range(na):
        # a leaf production per abstract type, then 1..2 more
        classes.append(gram.ClassSpec(f"L{len(classes)}", False, a, [] if rng.random() < 0.5 else [("v", "bool")]))
        considered.append(len(classes) - 1)
        for _ in range(rng.randint(1, 2)):
            k = rng.randint(1, 3)
            classes.append(gram.ClassSpec(f"P{len(classes)}", False, a, [(f"f{j}", fc_type(rng, abstract_ids)) for j in range(k)]))
            considered.append(len(classes) - 1)
    rng.shuffle(considered)
    return gram.Spec(classes, 0, considered)


def zero_meta(c):
    if isinstance(c, list):
        if c and c[0] == "n":
            return ["n", c[1], 0, 0] + [zero_meta(x) for x in c[4:]]
        if c and c[0] == "l":
            return ["l", 0, 0] + [zero_meta(x) for x in c[3:]]
        return [zero_meta(x) for x in c]
    return c


def has_possibly_empty_list(spec) -> bool:
    s = sx(gram.spec_sx(spec))
    return "(listSize 0 " in s or "(listSizeNoOps 0 " in s


def leaves_at(c, limit_depth, d=0):
    """all branches of a program end exactly at depth limit_depth? returns set of leaf depths"""
    out = set()
    if isinstance(c, list) and c and c[0] == "n":
        kids = [x for x in c[4:] if isinstance(x, list) and x and x[0] in ("n", "l", "t")]
        sub = [leaves_at(k, limit_depth, d + 1) for k in kids]
        if not any(sub):
            return {d + 1}
        for s in sub:
            out |= s
        return out
    if isinstance(c, list) and c and c[0] in ("l", "t"):
        for k in c[(3 if c[0] == "l" else 1):]:
            out |= leaves_at(k, limit_depth, d)
        return out
    return out


def simple_recursive(spec, g, b) -> bool:
    """every abstract type has a recursive production and every field is a plain class symbol"""
    for c in spec.classes:
        for _, ft in c.fields:
            if not (isinstance(ft, tuple) and ft[0] == "cls"):
                return False
    for a, prods in g.alternatives.items():
        if not any(p in g.recursive_prods for p in prods):
            return False
    return True


def rec_spec(rng):
    na = rng.randint(1, 3)
    # (abstract types may be nested: a nested abstract type is itself an alternative of its parent)
    classes = [gram.ClassSpec(f"A{i}", True, None if i == 0 else rng.choice([None, 0, i - 1])) for i in range(na)]
    considered = []
    for a in range(na):
        if classes[a].parent is None or rng.random() < 0.5:
            classes.append(gram.ClassSpec(f"L{len(classes)}", False, a, []))
            considered.append(len(classes) - 1)
        for _ in range(rng.randint(1, 2)):
            k = rng.randint(1, 2)
            fs = [(f"f{j}", ("cls", rng.randrange(na))) for j in range(k)]
            fs[0] = ("f0", ("cls", a))
            classes.append(gram.ClassSpec(f"N{len(classes)}", False, a, fs))
            considered.append(len(classes) - 1)
    return gram.Spec(classes, 0, considered)


def all_reachable_and_productive(spec, g, b) -> bool:
    """every class of the spec can be reached from the start symbol (through alternatives and field types) and has a finite minimum
    depth in the grammar as extracted: the usable sub-grammar is then the grammar itself"""
    if any(g.distanceToTerminal[s] >= 1000000 for s in g.all_nodes):
        return False
    kids = {i: [j for j, c in enumerate(spec.classes) if c.parent == i and (c.abstract or j in spec.considered)] for i in range(len(spec.classes))}

    def mentioned(t, out):
        if isinstance(t, tuple):
            if t[0] == "cls":
                out.add(t[1])
            for x in t[1:]:
                mentioned(x, out)
    seen, todo = set(), [spec.start]
    while todo:
        i = todo.pop()
        if i in seen:
            continue
        seen.add(i)
        todo += kids[i]
        m = set()
        for _, ft in spec.classes[i].fields:
            mentioned(ft, m)
        todo += list(m)
    return all(i in seen for i in range(len(spec.classes)) if spec.classes[i].abstract or i in spec.considered)


def one(h: Harness, spec, limit, b=None, superset=None, via_usable=False):
    b = b if b is not None else gram.build(spec)
    try:
        g = b.extract()
    except Exception:  # noqa: BLE001
        return
    mind = g.get_min_tree_depth()
    if mind >= 1000000:
        return
    if via_usable:
        # programs are created from `g.usable_grammar()` (the reachable, productive part -- here: all of it): same language
        if superset is not None or not all_reachable_and_productive(spec, g, b):
            return
        import warnings
        with warnings.catch_warnings():
            warnings.simplefilter("ignore")
            try:
                g = g.usable_grammar()
            except Exception as e:  # noqa: BLE001
                h.fail("Grammar.usable_grammar", "raises", f"usable_grammar() raised {type(e).__name__} on {sx(gram.spec_sx(spec))[:200]}", [sx(gram.spec_sx(spec))])
                return
        h.count("languages-of-usable-grammars")
        if g.get_min_tree_depth() != mind:
            h.fail("Grammar.usable_grammar", "valid-program-unreachable", f"every class of the grammar is reachable and productive, yet its usable grammar has minimum "
                   f"depth {g.get_min_tree_depth()} instead of {mind}: {sx(gram.spec_sx(spec))[:200]}", [sx(gram.spec_sx(spec))])
            return
    line_spec = gram.spec_sx(spec)
    # other grammars over the same classes come into being before this one is used (a subset of the productions, the
    # usable sub-grammar): what is creatable from THIS grammar must not move
    try:
        from geneticengine.grammar.grammar import extract_grammar
        import warnings
        with warnings.catch_warnings():
            warnings.simplefilter("ignore")
            g.usable_grammar()
            if superset is not None:   # a RICHER grammar (more productions, hence smaller minimum depths) over the same classes
                extract_grammar([b.classes[i] for i in superset], b.start, spec.expansion)
            elif len(b.considered()) > 1:   # poorer ones (larger minimum depths)
                extract_grammar(b.considered()[1:], b.start, spec.expansion)
                extract_grammar(b.considered()[:-1], b.start, spec.expansion)
    except Exception:  # noqa: BLE001
        pass
    for d in range(mind, mind + 4):
        reach = {}
        for kind in ("grow", "pigrow", "full"):
            def make(src, kind=kind):
                return TreeBasedRepresentation(g, synth.make_decider(kind, d, src, g)).create_genotype(src)
            progs = set()
            n = 0
            try:
                for script, v in enumerate_scripts(make, limit=limit, lift=True):
                    n += 1
                    progs.add(sx(zero_meta(gram.canon(v, b))))
                    if n <= 120:
                        # draw by draw against the model's creation (the first decision sequences of every tree)
                        h.agree(f"create_genotype[{kind}]", ["create", line_spec, [kind, d], script], ["ok", gram.canon(v, b)])
            except InfraError:
                # the decision tree is too large to enumerate: the programs reached so far are still judged
                # for membership in the bounded language (level B); completeness is not
                h.count("decision-tree-too-large")
                for p in sorted(progs)[:40]:
                    h.holds(f"create_genotype[{kind}]", "reachable-program-outside-bounded-language", ["prop_in_language", line_spec, d, parse_sx(p)],
                            f"{kind} at depth {d} produced {p[:160]}, not a well-typed program of depth <= {d}", [sx(line_spec), d, p])
                return
            except RecursionError:
                return
            except Exception as e:  # noqa: BLE001
                h.fail(f"create_genotype[{kind}]", "creation-fails-on-some-decision-sequence",
                       f"{gram.err_kind(e)} at max depth {d} (min {mind}) for some sequence of decisions", [sx(line_spec), kind, d])
                return
            reach[kind] = progs
            h.count(f"{kind}:decision-sequences", n)
        if spec.expansion:
            # grammar-expansion depthing: the limit counts abstract expansions and containers on top of the nodes, so the reachable
            # set is a SUBSET of the node-depth-bounded language which the property describes; it is judged draw by draw against
            # the model's creation (above, every decision sequence within the limit) and for membership -- completeness with
            # respect to the node-depth language is not claimed in this mode
            h.count("expansion-mode:creation-lines-and-membership-only")
            for kind_, progs_ in reach.items():
                for p in sorted(progs_)[:40]:
                    h.holds(f"create_genotype[{kind_}]", "reachable-program-outside-bounded-language", ["prop_in_language", line_spec, d, parse_sx(p)],
                            f"{kind_} at depth {d} (expansion depthing) produced {p[:160]}, not a well-typed program of depth <= {d}", [sx(line_spec), d, p])
            continue
        # the model's enumeration of the bounded language
        h.flush()
        from core import run_driver
        try:
            out = run_driver([sx(["C04", "language", line_spec, d])], timeout=90, mem_gb=6)[0]
        except InfraError:
            # the enumerator ran out of memory / time: the language at this depth is too large to list (the depth comes from
            # the implementation's own minimum, which a change may have shifted); what was queued before is still judged
            h.count("language-too-large-to-enumerate")
            return
        if out == "not-finite-choice":
            # (dependent refinements ...): no enumerated language to compare with; what was reached is still judged for membership
            h.count("not-finite-choice")
            for kind_, progs_ in reach.items():
                for p in sorted(progs_)[:40]:
                    h.holds(f"create_genotype[{kind_}]", "reachable-program-outside-bounded-language", ["prop_in_language", line_spec, d, parse_sx(p)],
                            f"{kind_} at depth {d} produced {p[:160]}, not a well-typed program of depth <= {d}", [sx(line_spec), d, p])
            return
        lang = {sx(x) for x in parse_sx("(" + out[1:-1] + ")")} if out != "()" else set()
        h.level_a += 1
        h.seen(sx(["lang", line_spec, d]), nontrivial=len(lang) >= 3)
        h.sample({"spec": sx(line_spec), "depth": d, "language_size": len(lang), "grow_reaches": len(reach["grow"])})
        h.count("languages")
        h.count("programs-in-languages", len(lang))
        replay = [sx(line_spec), d]
        missing = sorted(lang - reach["grow"])
        extra = sorted(reach["grow"] - lang)
        if extra:
            h.fail("create_genotype[grow]", "reachable-program-outside-bounded-language",
                   f"grow at depth {d} can produce {extra[0][:160]} which is not a valid program of depth <= {d}", replay + [extra[0]])
        if missing:
            kind_f = "valid-program-unreachable-possibly-empty-list" if has_possibly_empty_list(spec) else "valid-program-unreachable"
            h.fail("create_genotype[grow]", kind_f,
                   f"{len(missing)} of {len(lang)} valid programs of depth <= {d} cannot be produced by grow, e.g. {missing[0][:160]}",
                   replay + [missing[0]])
        out_pi = sorted(reach["pigrow"] - lang)
        if out_pi:
            h.fail("create_genotype[pigrow]", "reachable-program-outside-bounded-language",
                   f"PI-grow at depth {d} leaves the bounded language: {out_pi[0][:160]}", replay + [out_pi[0]])
        out_full = sorted(reach["full"] - lang)
        if out_full:
            h.fail("create_genotype[full]", "reachable-program-outside-bounded-language",
                   f"full at depth {d} leaves the bounded language: {out_full[0][:160]}", replay + [out_full[0]])
        # full creation: where every abstract type is recursive and fields are plain symbols, FullDecider(d)
        # -- which FullInitializer(d - 1) uses -- yields exactly the programs whose branches all end at d - 1
        if simple_recursive(spec, g, b) and d - 1 >= mind:
            expected = {p for p in lang if leaves_at(parse_sx(p), d - 1) == {d - 1}}
            if expected and reach["full"] != expected:
                miss, extra_f = sorted(expected - reach["full"]), sorted(reach["full"] - expected)
                h.fail("create_genotype[full]", "full-language-mismatch",
                       f"FullDecider({d}): {len(miss)} full programs unreachable, {len(extra_f)} non-full programs reachable; e.g. {(miss + extra_f)[0][:160]}",
                       replay + [(miss + extra_f)[0]])
            h.count("full-languages-compared")
        # membership of every reachable program by the independent predicates (level B)
        for p in sorted(reach["grow"])[:40]:
            h.holds("create_genotype[grow]", "reachable-program-outside-bounded-language", ["prop_in_language", line_spec, d, parse_sx(p)],
                    f"grow at depth {d} produced {p[:160]}, not a well-typed program of depth <= {d}", replay + [p])


def corpus():
    C = gram.ClassSpec
    leaf_wrap = [C("A0", True, None), C("Leaf", False, 0, []), C("Wrap", False, 0, [("e", ("cls", 0))])]
    return [
        # union whose members have different minimum depths (only the shallow one fits at the frontier)
        gram.Spec(leaf_wrap + [C("Pick", False, 0, [("c", ("union", ("cls", 1), ("cls", 2)))])], 0, [1, 2, 3]),
        # tuple whose components have different minimum depths
        gram.Spec(leaf_wrap + [C("Pair", False, 0, [("p", ("tuple", ("cls", 1), ("cls", 2)))])], 0, [1, 2, 3]),
        # nested abstract layer with alternatives of different depth, bounded non-empty list
        gram.Spec([C("A0", True, None), C("A1", True, 0), C("L", False, 0, [("v", "bool")]), C("M", False, 1, [("x", ("cls", 0))]),
                   C("N", False, 1, []), C("Xs", False, 0, [("xs", ("ann", ("list", ("cls", 1)), ("listSize", 1, 2)))])], 0, [2, 3, 4, 5, 1]),
        # nested abstract type whose only production is recursive (Expr -> Lit | Neg | BinOp, BinOp -> Add)
        gram.Spec([C("A0", True, None), C("A1", True, 0), C("Lit", False, 0, []), C("Neg", False, 0, [("e", ("cls", 0))]),
                   C("Add", False, 1, [("l", ("cls", 0)), ("r", ("cls", 0))])], 0, [2, 3, 4]),
        # size-refined lists whose elements are refined themselves / are lists
        gram.Spec([C("A0", True, None), C("Bag", False, 0, [("xs", ("ann", ("list", ("ann", "int", ("intRange", 0, 2))), ("listSize", 1, 2)))]),
                   C("Grid", False, 0, [("rows", ("ann", ("list", ("ann", ("list", "bool"), ("listSize", 1, 1))), ("listSize", 1, 2)))])], 0, [1, 2]),
        # a list of a UNION is the production's only way back to the start symbol (recursion analysis must look inside)
        gram.Spec([C("A0", True, None), C("Lit", False, 0, []),
                   C("Call", False, 0, [("args", ("ann", ("list", ("union", ("cls", 1), ("cls", 2))), ("listSize", 1, 2)))])], 0, [1, 2]),
        # a dependent refinement next to a nested concrete production with a like-named field (not finite-choice for the
        # language enumerator: judged by the draw-by-draw creation lines and the membership predicate)
        gram.Spec([C("A0", True, None), C("Step", False, None, [("lo", ("ann", "int", ("intRange", 1, 2)))]),
                   C("Window", False, 0, [("lo", ("ann", "int", ("intRange", 0, 2))), ("step", ("cls", 1)), ("hi", ("ann", "int", ("depIntRangeLo", "lo", 3)))]),
                   C("Leaf", False, 0, [])], 0, [2, 3, 1]),
        # a refinement that depends on TWO siblings, named in the opposite order of their declaration and not alphabetically:
        # Dependent("scale,base", lambda scale, base: IntRange(base, base + scale))
        gram.Spec([C("A0", True, None), C("Leaf", False, 0, []),
                   C("Span", False, 0, [("base", ("ann", "int", ("intRange", 5, 6))), ("scale", ("ann", "int", ("intRange", 1, 2))),
                                        ("value", ("ann", "int", ("depIntRangeSpan", "scale", "base")))])], 0, [1, 2]),
        # TWO refinements that depend on a sibling of the same name and base type but compute different ranges (b in a..2 / b in 0..a)
        gram.Spec([C("A0", True, None), C("Leaf", False, 0, []),
                   C("Down", False, 0, [("a", ("ann", "int", ("intRange", 0, 1))), ("b", ("ann", "int", ("depIntRangeLo", "a", 2)))]),
                   C("Up", False, 0, [("a", ("ann", "int", ("intRange", 0, 1))), ("b", ("ann", "int", ("depIntRangeHi", 0, "a")))])], 0, [1, 2, 3]),
        # a plain list field declared BEFORE a recursive sibling, in both depth modes (what the list costs is charged to the list alone)
        gram.Spec([C("A0", True, None), C("Leaf", False, 0, []), C("Wrap", False, 0, [("e", ("cls", 0))]),
                   C("Bag", False, 0, [("items", ("list", "bool")), ("rest", ("cls", 0))])], 0, [1, 2, 3], True),
        gram.Spec([C("A0", True, None), C("Leaf", False, 0, []), C("Wrap", False, 0, [("e", ("cls", 0))]),
                   C("Bag", False, 0, [("rest", ("cls", 0)), ("items", ("list", "bool"))])], 0, [1, 2, 3], True),
        # possibly-empty list at the depth frontier (the open finding's witness)
        gram.Spec([C("A0", True, None), C("L", False, 0, []),
                   C("P", False, 0, [("xs", ("ann", ("list", ("cls", 0)), ("listSize", 0, 1))), ("k", ("ann", "int", ("intRange", 0, 1)))])], 0, [1, 2]),
        # expansion depthing (abstract hops and containers are charged), with and without production weights: weights do not
        # change what is creatable, nor the depth mode of the grammar
        gram.Spec([C("A0", True, None), C("A1", True, 0), C("L", False, 0, [("v", "bool")]), C("M", False, 1, [("x", ("cls", 0))], weight=3),
                   C("N", False, 1, []), C("Xs", False, 0, [("xs", ("ann", ("list", ("cls", 1)), ("listSize", 1, 2)))], weight=0.5)], 0, [2, 3, 4, 5, 1], True),
        gram.Spec([C("A0", True, None), C("A1", True, 0), C("L", False, 0, [("v", "bool")]), C("M", False, 1, [("x", ("cls", 0))]),
                   C("N", False, 1, []), C("Xs", False, 0, [("xs", ("ann", ("list", ("cls", 1)), ("listSize", 1, 2)))])], 0, [2, 3, 4, 5, 1], True),
        gram.Spec([C("A0", True, None), C("Lit", False, 0, [], weight=2),
                   C("Pair", False, 0, [("p", ("tuple", ("cls", 0), "bool"))], weight=1)], 0, [1, 2], True),
        # a production SWITCHED OFF by its weight (weights steer only the weight-aware decider): grow, full and PI-grow choose among
        # all productions, so it belongs to the bounded language and is reached
        gram.Spec([C("A0", True, None), C("Lit", False, 0, [("k", ("ann", "int", ("intRange", 0, 1)))], weight=3),
                   C("Neg", False, 0, [("e", ("cls", 0))], weight=0), C("Id", False, 0, [("e", ("cls", 0))], weight=1)], 0, [1, 2, 3]),
        # windows (IntervalRange: a start and an end with a length between two bounds, inside 0..top): every admissible window
        gram.Spec([C("A0", True, None), C("Leaf", False, 0, []),
                   C("Win", False, 0, [("w", ("ann", ("tuple", "int", "int"), ("interval", 1, 3, 6)))])], 0, [1, 2]),
        gram.Spec([C("A0", True, None), C("Win", False, 0, [("w", ("ann", ("tuple", "int", "int"), ("interval", 0, 2, 3))), ("e", ("cls", 0))]),
                   C("Leaf", False, 0, [("k", ("ann", "int", ("intRange", 0, 1)))])], 0, [1, 2]),
        # refined leaves
        gram.Spec([C("A0", True, None), C("K", False, 0, [("k", ("ann", "int", ("intRange", 0, 2))), ("s", ("ann", "str", ("varRange", ["x", "y"])))]),
                   C("U", False, 0, [("u", ("union", ("cls", 0), ("ann", "int", ("intList", [7, 9]))))])], 0, [1, 2]),
    ]


def mirror_languages(h: Harness, limit):
    """two grammars that differ ONLY in the order of two fields of one production (a plain list before / after a recursive sibling, in
    expansion depthing): what grow creation reaches at every limit is the same set of programs up to that swap -- what a field costs
    is charged to that field alone, not to the siblings declared after it"""
    C = gram.ClassSpec

    def spec_of(list_first: bool):
        fields = [("items", ("list", ("cls", 1))), ("rest", ("cls", 0))]       # (a list of a field-less production: only its length is drawn)
        return gram.Spec([C("A0", True, None), C("Leaf", False, 0, []), C("Wrap", False, 0, [("e", ("cls", 0))]),
                          C("Bag", False, 0, fields if list_first else fields[::-1])], 0, [1, 2, 3], True)

    def swap(c):
        if isinstance(c, list):
            c = [swap(x) for x in c]
            if c and c[0] == "n" and c[1] == 3:
                c = c[:4] + [c[5], c[4]]
        return c
    reach = {}
    for list_first in (True, False):
        spec = spec_of(list_first)
        b = gram.build(spec)
        g = b.extract()
        mind = g.get_min_tree_depth()
        for d in range(mind, mind + 3):
            def make(src, d=d, g=g):
                return TreeBasedRepresentation(g, synth.make_decider("grow", d, src, g)).create_genotype(src)
            progs = set()
            try:
                for script, v in enumerate_scripts(make, limit=limit):
                    c = zero_meta(gram.canon(v, b))
                    # (list lengths matter, their boolean contents do not: keep the set small)
                    progs.add(sx(c if list_first else swap(c)))
            except InfraError:
                progs = None
            except Exception as e:  # noqa: BLE001
                h.fail("create_genotype[grow]", "creation-fails-on-some-decision-sequence", f"{gram.err_kind(e)} at max depth {d} (list {'first' if list_first else 'last'})", [list_first, d])
                progs = None
            reach[(list_first, d - mind)] = (progs, d)
    for k in range(3):
        a, d1 = reach[(True, k)]
        b_, d2 = reach[(False, k)]
        if a is None or b_ is None:
            continue
        h.count("mirror-languages-compared")
        h.seen(f"mirror:{k}", nontrivial=len(a) > 3)
        if a != b_:
            only = sorted(b_ - a) or sorted(a - b_)
            h.fail("create_genotype[grow]", "valid-program-unreachable",
                   f"expansion depthing, max depth {d1}: with the list field declared FIRST grow reaches {len(a)} programs, with the list field declared LAST "
                   f"{len(b_)} (same programs up to the order of the two fields expected); e.g. {only[0][:160]} is reached by one only", [k, only[0]])


def retargeted(h: Harness, limit):
    """the documented way of re-parameterising a grammar (assign a new declared type to `Cls.__init__.__annotations__[f]`,
    extract again): the second grammar's bounded language is the one of the NEW declarations"""
    C = gram.ClassSpec
    spec = gram.Spec([C("A0", True, None), C("K", False, 0, [("k", ("ann", "int", ("intRange", 0, 2))), ("s", ("ann", "str", ("varRange", ["x", "y"])))]),
                      C("W", False, 0, [("e", ("cls", 0)), ("n", ("ann", "int", ("intList", [7, 9])))])], 0, [1, 2])
    b = gram.build(spec)
    g = b.extract()
    # use the first grammar (creation walks every class's declared arguments)
    from core import ScriptedSource
    src = ScriptedSource([1, 0, 1, 0, 1, 0, 0, 0])
    TreeBasedRepresentation(g, synth.make_decider("grow", 3, src, g)).create_genotype(src)
    for (ci, fn, new) in ((1, "k", ("ann", "int", ("intRange", 5, 6))), (1, "s", ("ann", "str", ("varRange", ["p"]))), (2, "n", ("ann", "int", ("intRange", 1, 2)))):
        fields = spec.classes[ci].fields
        j = next(i for i, (n_, _) in enumerate(fields) if n_ == fn)
        fields[j] = (fn, new)
        pt = gram.py_type(new, b.classes)
        b.classes[ci].__init__.__annotations__[fn] = pt
        b.classes[ci].__annotations__[fn] = pt
        gram._collect_tymap(new, pt, b.tymap)
    h.count("retargeted-grammars")
    one(h, spec, limit, b=b)


def failing_productions_stay_inside(h: Harness):
    """grammars in which the ONLY shallow production can fail (a reference needs a name in scope): where it fails and nothing else
    fits the remaining depth there is no program for that sequence of decisions (the open C03 finding) -- but whatever creation does
    return is a program of the bounded language: never deeper than the limit"""
    from linear import safe
    from geneticengine.random.sources import NativeRandomSource
    C = gram.ClassSpec
    sometimes = [("vars", ("ann", ("list", ("ann", "str", ("varRange", ["x", "y"]))), ("listSize", 0, 1))), ("x", ("ann", "str", ("depVarFrom", "vars")))]
    specs = [gram.Spec([C("A0", True, None), C("V", False, 0, sometimes), C("Neg", False, 0, [("e", ("cls", 0))])], 0, [1, 2]),
             gram.Spec([C("A0", True, None), C("V", False, 0, sometimes), C("Neg", False, 0, [("e", ("cls", 0))]),
                        C("Add", False, 0, [("l", ("cls", 0)), ("r", ("cls", 0))])], 0, [2, 1, 3])]
    rng = h.rng
    for spec in specs:
        b = gram.build(spec)
        g = b.extract()
        line_spec = gram.spec_sx(spec)
        mind = g.get_min_tree_depth()
        listed = {k.__name__: [p_.__name__ for p_ in v] for k, v in g.alternatives.items()}
        for d in range(mind, mind + 3):
            for kind in ("grow", "pigrow", "full"):
                seen = set()
                for trial in range(h.n(40, 200)):
                    r = NativeRandomSource(rng.randrange(10**6))
                    st, v = safe(lambda: TreeBasedRepresentation(g, synth.make_decider(kind, d, r, g)).create_genotype(r))
                    h.count(f"failing-production:{st}")
                    if st != "ok":
                        continue
                    p = sx(zero_meta(gram.canon(v, b)))
                    if p in seen:
                        continue
                    seen.add(p)
                    h.holds(f"create_genotype[{kind}]", "reachable-program-outside-bounded-language", ["prop_in_language", line_spec, d, parse_sx(p)],
                            f"{kind} at depth {d} on a grammar whose only shallow production can fail produced {p[:160]}, not a well-typed program of depth <= {d}",
                            [sx(line_spec), d, p])
        # ... and every production is still there to be tried by the NEXT creation: what was reachable before the failures is reachable after
        now = {k.__name__: [p_.__name__ for p_ in v] for k, v in g.alternatives.items()}
        if now != listed:
            h.fail("create_genotype[grow]", "valid-program-unreachable",
                   f"after creations in which a production failed, the grammar's rules list {now} instead of {listed}: programs using the missing production "
                   f"can no longer be created from this grammar", [sx(line_spec), "after-failures"])


def weighted_string_positions(h: Harness):
    """a refinement with parameters of its own (a WeightedStringHandler whose matrix has an all-zero row and a row below the chooser's
    resolution): what the deciders create stays inside the language the refinement describes -- one letter per row, from the alphabet"""
    import wsgrammar
    from geneticengine.random.sources import NativeRandomSource
    g = wsgrammar.grammar()
    nrows = len(wsgrammar.MATRIX)
    rng = h.rng
    for kind in ("grow", "pigrow", "full"):
        for d in (1, 2, 3):
            for trial in range(h.n(12, 80)):
                r = NativeRandomSource(rng.randrange(10**6))
                try:
                    p = TreeBasedRepresentation(g, synth.make_decider(kind, d, r, g)).create_genotype(r)
                except Exception:  # noqa: BLE001
                    continue
                h.count("weighted-string-programs")
                todo = [p]
                while todo:
                    x = todo.pop()
                    if isinstance(x, wsgrammar.Join):
                        todo += [x.l, x.r]
                        continue
                    h.seen(f"ws-lang:{kind}:{d}:{x.s}", nontrivial=True)
                    if not (isinstance(x.s, str) and len(x.s) == nrows and all(ch in "ACGT" for ch in x.s)):
                        h.fail(f"create_genotype[{kind}]", "reachable-program-outside-bounded-language",
                               f"{kind} at depth {d} produced Seq(s={x.s!r}): the string violates its refinement (the matrix has {nrows} positions over ACGT)",
                               ["weighted-string", kind, d, x.s])
                        todo = []
                        break


def wide_integer_ranges(h: Harness):
    """integer refinements wider than a thousand values (spans that are no multiple of 1000 included): every value of the range is
    reachable by some draw of the source, none outside it"""
    from core import ScriptedSource
    from geneticengine.grammar.metahandlers.ints import IntRange
    for lo, hi in ((0, 1000), (0, 1499), (-700, 803), (5, 2051), (0, 999), (10, 3010)):
        mh = IntRange(lo, hi)
        span = hi - lo + 1
        got = set()
        try:
            for d1 in range(0, span + 3):
                got.add(mh.generate(ScriptedSource([d1, d1 % 1000, d1 // 1000]), None, int, None, {}))
            for d1 in range(0, span // 1000 + 2):
                for d2 in range(0, 1000, 1):
                    got.add(mh.generate(ScriptedSource([d1, d2]), None, int, None, {}))
        except Exception as e:  # noqa: BLE001
            h.fail("IntRange.generate", "raises", f"IntRange({lo}, {hi}).generate raised {type(e).__name__}: {e}", [lo, hi])
            continue
        h.count("wide-integer-ranges")
        h.seen(f"wide-range:{lo}:{hi}", nontrivial=True)
        missing = sorted(set(range(lo, hi + 1)) - got)
        extra = sorted(got - set(range(lo, hi + 1)))
        if extra:
            h.fail("IntRange.generate", "reachable-program-outside-bounded-language", f"IntRange({lo}, {hi}) generated {extra[:3]}, outside the range", [lo, hi])
        elif missing:
            h.fail("IntRange.generate", "valid-program-unreachable", f"IntRange({lo}, {hi}): {len(missing)} of {span} values are produced by no draw of the source, "
                   f"e.g. {missing[:3]} (every single draw 0..{span + 2} and every pair of draws tried)", [lo, hi])


def run(h: Harness):
    rng = h.rng
    limit = h.n(1500, 8000)
    retargeted(h, limit)
    mirror_languages(h, limit)
    failing_productions_stay_inside(h)
    wide_integer_ranges(h)
    weighted_string_positions(h)
    for spec in corpus():
        one(h, spec, limit)
    # nested abstract layers that no field mentions (an abstract alternative of an abstract type), created from the USABLE grammar
    C = gram.ClassSpec
    r01 = ("ann", "int", ("intRange", 0, 1))
    nested = [gram.Spec([C("Expr", True, None), C("Atom", True, 0), C("Lit", False, 1, [("v", r01)]), C("Flag", False, 1, [("b", "bool")]),
                         C("Neg", False, 0, [("e", ("cls", 0))])], 0, [2, 3, 4, 1]),
              gram.Spec([C("Expr", True, None), C("Atom", True, 0), C("Deep", True, 1), C("Lit", False, 2, [("v", r01)]), C("One", False, 1, []),
                         C("Add", False, 0, [("l", ("cls", 0)), ("r", ("cls", 0))])], 0, [3, 4, 5, 1, 2])]
    for spec in nested + corpus()[:6]:
        one(h, spec, limit, via_usable=True)
    # each corpus grammar once more WITHOUT one of its productions, while the full grammar exists beside it
    import copy
    for spec in corpus():
        for drop in spec.considered[:2]:
            sub = copy.deepcopy(spec)
            sub.considered = [c for c in spec.considered if c != drop]
            one(h, sub, limit, superset=list(spec.considered))
            h.count("sub-grammar-beside-full-grammar")
    for i in range(h.n(10, 50)):
        one(h, rec_spec(rng) if i % 3 == 0 else fc_spec(rng), limit)
    h.exhaustive = True
