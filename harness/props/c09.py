"""C09 -- operators and steps never modify their inputs.

Before every public operator / step call the harness deep-snapshots every live individual:
program structure, the gengy_* metadata and synthesis context of every node, the object-sharing
graph, genes, cached phenotype and fitness store.  After the call every EARLIER snapshot must
still describe its individual (cache fills none -> some, dSGE's on-demand genotype extension and
Population's metadata['generation'] are not modifications).
Model side: the two places where the real code writes into shared structure are modelled with
explicit state and proved frame-preserving (label memoisation: Props/C09.lean via Model/Labels.lean;
dSGE extension is prefix-monotone: C07); the functional model has immutable values elsewhere.
"""
from __future__ import annotations

import warnings

import gram
import synth
from core import Harness, ScriptedSource, sx
from props import c11

from geneticengine.algorithms.gp.gp import GeneticProgramming, default_generic_programming_step
from geneticengine.algorithms.gp.operators.combinators import ExclusiveParallelStep, ParallelStep, SequenceStep
from geneticengine.algorithms.gp.operators.crossover import GenericCrossoverStep
from geneticengine.algorithms.gp.operators.elitism import ElitismStep
from geneticengine.algorithms.gp.operators.mutation import GenericMutationStep
from geneticengine.algorithms.gp.operators.novelty import NoveltyStep
from geneticengine.algorithms.gp.operators.selection import LexicaseSelection, TournamentSelection
from geneticengine.evaluation.budget import EvaluationBudget
from geneticengine.evaluation.recorder import SearchRecorder
from geneticengine.evaluation.sequential import SequentialEvaluator
from geneticengine.problems import MultiObjectiveProblem, SingleObjectiveProblem
from geneticengine.random.sources import NativeRandomSource
from geneticengine.representations.tree.treebased import TreeBasedRepresentation
from geneticengine.solutions.individual import Individual
from geneticengine.solutions.tree import GengyList

RULE = ("generated grammars x {tree, GE, SGE, dSGE, stack} x (a) operator sequences on a pool, (b) every built-in step and "
        "combinator nesting applied to evaluated populations given as list / Population, (c) GP runs of 5 (thorough 30) "
        "generations with every generation snapshotted and re-validated at the end; non-trivial = the call produced at least one "
        "individual that is not one of its inputs; distinct = distinct (configuration, seed)")
ASSUMPTIONS = [
    "Individual.metadata['generation'] is written by Population, not by an operator, and is not one of the facets the property lists",
    "cache fills (phenotype, fitness store, node labels none -> some) and dynamic SGE's on-demand extension of a genotype being mapped are not modifications; "
    "mutation and crossover steps have no reason to map their parents: on a fresh (never mapped) population they must leave every parent genotype exactly as it was",
    "object identity / sharing is observed through id(); the functional Lean model has no identity, so sharing is checked on the implementation only",
]


def node_snapshot(v, b, seen):
    """structure + per-node metadata + sharing graph (ids replaced by first-visit numbers)"""
    if type(v) in b.index or isinstance(v, GengyList):
        key = id(v)
        if key in seen:
            return ["ref", seen[key]]
        seen[key] = len(seen)
        ctx = getattr(v, "gengy_synthesis_context", None)
        meta = [getattr(v, "gengy_labeled", None), getattr(v, "gengy_nodes", None), getattr(v, "gengy_distance_to_term", None),
                getattr(v, "gengy_weighted_nodes", None),
                sorted((str(c11.key_of(b, k)), len(x)) for k, x in getattr(v, "gengy_types_this_way", {}).items()),
                None if ctx is None else (ctx.depth, ctx.expansions)]
        if isinstance(v, GengyList):
            kids = list(v)
            head = "l"
        else:
            kids = [getattr(v, n) for n in getattr(type(v), "__gengy_field_names__", ())]
            head = ["n", b.index[type(v)]]
        return [head, meta, [node_snapshot(k, b, seen) for k in kids]]
    if isinstance(v, (tuple, list)):
        return ["t", [node_snapshot(k, b, seen) for k in v]]
    return ["v", repr(v)]


def geno_snapshot(g, b):
    if hasattr(g, "dna"):
        dna = g.dna
        if isinstance(dna, dict):
            return ["dna", [(str(k), list(v)) for k, v in dna.items()]]
        return ["dna", list(dna)]
    return node_snapshot(g, b, {})


def ind_snapshot(ind: Individual, b, problem):
    fit = None
    # (read from the store itself: `has_fitness` is the library's own judgement of what counts as evaluated)
    if problem is not None and problem in getattr(ind, "fitness_store", {}):
        f = ind.fitness_store[problem]
        fit = (repr(f.maximizing_aggregate), tuple(repr(c) for c in f.fitness_components))   # (repr: NaN compares unequal to itself)
    return {"genotype": geno_snapshot(ind.genotype, b), "fitness": fit,
            "phenotype": None if ind.phenotype is None else node_snapshot(ind.phenotype, b, {})}


def still_valid(old, new, dsge: bool, mapped: bool = False):
    """old snapshot still describes the individual: equal, except permitted fills"""
    if old["fitness"] is not None and old["fitness"] != new["fitness"]:
        return "cached fitness changed"
    if old["phenotype"] is not None and old["phenotype"] != new["phenotype"]:
        return "cached phenotype changed"
    og, ng = old["genotype"], new["genotype"]
    if og == ng:
        return None
    if dsge and og[0] == "dna" and ng[0] == "dna":
        od, nd = dict(og[1]), dict(ng[1])
        if all(k in nd and nd[k][:len(v)] == v for k, v in od.items()):
            # on-demand extension is permitted only while THIS genotype is being mapped, i.e. when
            # its phenotype cache went from empty to filled since the snapshot
            if old["phenotype"] is None and (new["phenotype"] is not None or mapped):
                # (`mapped`: this is the individual the operation was mapping; a mapping that FAILS midway has extended
                # the genotype too, and leaves no phenotype behind)
                return None
            return "genes appended although this individual was not being mapped (gene lists shared with another genotype?)"
        return "genes changed (not a pure extension)"
    return "genotype changed"


class Watch:
    def __init__(self, h, b, problem, dsge, site_prefix):
        self.h, self.b, self.problem, self.dsge, self.prefix = h, b, problem, dsge, site_prefix
        self.live: list[tuple[Individual, dict]] = []

    def add(self, inds):
        known = {id(i) for i, _ in self.live}
        for i in inds:
            if id(i) not in known:
                self.live.append((i, ind_snapshot(i, self.b, self.problem)))

    def refresh(self):
        """after permitted fills (evaluation) take the snapshots again"""
        self.live = [(i, ind_snapshot(i, self.b, self.problem)) for i, _ in self.live]

    def verify(self, site, label, replay, mapped=None):
        for i, snap in self.live:
            why = still_valid(snap, ind_snapshot(i, self.b, self.problem), self.dsge, mapped=any(i is m for m in (mapped or ())))
            if why:
                self.h.fail(f"{self.prefix}{site}", "input-modified", f"{label}: {why}", replay)
                return False
        return True


def make_reps(g, mind, r):
    import linear
    from linear import DSGE, GE, SGE, Stack
    d = mind + 2
    return [("tree", TreeBasedRepresentation(g, synth.make_decider("grow", d, r, g)), False),
            ("GE", GE(g, synth.make_decider("grow", d, r, g), gene_length=32), False),
            ("SGE", SGE(g, synth.make_decider("grow", d, r, g), gene_length=16), False),
            ("DynamicSGE", DSGE(g, d), True),
            ("Stack", Stack(g, gene_length=256), False)]


STEPS = [
    ("elitism", lambda: ElitismStep()),
    ("novelty", lambda: NoveltyStep()),
    ("tournament", lambda: TournamentSelection(3)),
    ("tournament-repl", lambda: TournamentSelection(2, with_replacement=True)),
    ("mutation", lambda: GenericMutationStep(1)),
    ("mutation-half", lambda: GenericMutationStep(0.5)),
    ("crossover", lambda: GenericCrossoverStep(1)),
    ("seq", lambda: SequenceStep(TournamentSelection(2), GenericCrossoverStep(1), GenericMutationStep(1))),
    ("par", lambda: ParallelStep([ElitismStep(), NoveltyStep(), SequenceStep(TournamentSelection(2), GenericMutationStep(1))], [1, 1, 3])),
    ("xpar", lambda: ExclusiveParallelStep([ElitismStep(), GenericMutationStep(1)], [1, 2])),
    ("default", default_generic_programming_step),
    ("nested", lambda: SequenceStep(ParallelStep([ElitismStep(), SequenceStep(TournamentSelection(2), GenericCrossoverStep(1))], [1, 4]), GenericMutationStep(0.7))),
]


class GenRecorder(SearchRecorder):
    def __init__(self):
        self.by_gen: dict[int, list[Individual]] = {}

    def register(self, tracker, individual, problem, is_best):
        self.by_gen.setdefault(individual.metadata.get("generation", -1), []).append(individual)


def dsge_sharing(h: Harness):
    """dynamic SGE genotypes grow IN PLACE while they are mapped: two genotypes that share a gene list (a crossover
    that hands the same list object to several children, a mutation that copies shallowly) change together.  A fixed
    grammar with many gene-bearing symbols, long histories of crossover / mutation / mapping on a pool, every live
    genotype re-checked after every single operation."""
    from linear import DSGE, safe
    C = gram.ClassSpec
    spec = gram.Spec([C("E", True, None), C("Cond", True, None), C("Lit", False, 0, [("v", "int")]), C("Flag", False, 0, [("b", "bool")]),
                      C("If", False, 0, [("c", ("cls", 1)), ("t", ("cls", 0)), ("e", ("cls", 0))]),
                      C("Lt", False, 1, [("l", ("cls", 0)), ("r", ("ann", "int", ("intRange", 0, 9)))]),
                      C("Not", False, 1, [("c", ("cls", 1))]), C("T", False, 1, []),
                      C("Many", False, 0, [("xs", ("ann", ("list", ("cls", 0)), ("listSize", 1, 2))), ("u", ("union", ("cls", 1), "bool"))])],
                     0, [2, 3, 4, 5, 6, 7, 8, 0, 1])
    b = gram.build(spec)
    g = b.extract()
    rng = h.rng
    line = sx(gram.spec_sx(spec))
    for trial in range(h.n(10, 60)):
        seedv = rng.randrange(10**6)
        r = NativeRandomSource(seedv)
        rep = DSGE(g, g.get_min_tree_depth() + rng.choice([1, 2, 3]))
        w = Watch(h, b, None, True, "DynamicSGE:")
        pool = [Individual(rep.create_genotype(r), rep) for _ in range(4)]
        w.add(pool)
        ok = True
        for k in range(h.n(40, 80)):
            op = rng.choice(["crossover", "crossover", "map", "map", "mutate"])
            a, c = rng.choice(pool), rng.choice(pool)
            new = []
            if op == "map":
                safe(lambda: a.get_phenotype())
            elif op == "mutate":
                st, out = safe(lambda: rep.mutate(r, a.genotype))
                new = [Individual(out, rep)] if st == "ok" else []
            else:
                st, out = safe(lambda: rep.crossover(r, a.genotype, c.genotype))
                new = [Individual(x, rep) for x in out] if st == "ok" else []
            h.seen(f"dsge-sharing:{seedv}:{k}:{op}", nontrivial=bool(new))
            if not w.verify(op, f"history step {k} ({op}) on a pool of dynamic-SGE genotypes", [line, seedv, k, op]):
                ok = False
                break
            w.refresh()
            pool.extend(new)
            w.add(new)
            if len(pool) > 14:   # the oldest leave the pool but stay watched (they are still somebody's individuals)
                pool = pool[-10:]
        h.count("dsge-sharing-histories" + ("" if ok else ":violated"))


class RecSource(NativeRandomSource):
    """a native source that remembers what its last draws returned (the decisions the heap model is given)"""

    def __init__(self, seed):
        super().__init__(seed)
        self.rec: list[int] = []

    def randint(self, min, max):  # noqa: A002
        v = super().randint(min, max)
        self.rec.append(v)
        return v


def heap_histories(h: Harness):
    """LEVEL A for the gene containers: long histories of create / mutate / crossover / map on GE, stack, SGE and dynamic-SGE
    genotypes; after EVERY operation the real object graph (which list OBJECT holds which genes for which key of which genotype,
    `id()` renamed by first occurrence, every genotype ever made) must be the one `Model/Heap.lean` predicts from the decisions
    the operation drew.  The theorems of Props/C09 (no sharing ever, inputs unchanged, mapped genotypes only extended) are
    about that model; they are also evaluated here directly on the real graph, so that a failure names the operation."""
    from linear import DSGE, GE, SGE, Stack, safe
    C = gram.ClassSpec
    spec = gram.Spec([C("E", True, None), C("Cond", True, None), C("Lit", False, 0, [("v", "int")]), C("Flag", False, 0, [("b", "bool")]),
                      C("If", False, 0, [("c", ("cls", 1)), ("t", ("cls", 0)), ("e", ("cls", 0))]),
                      C("Lt", False, 1, [("l", ("cls", 0)), ("r", ("ann", "int", ("intRange", 0, 9)))]),
                      C("Not", False, 1, [("c", ("cls", 1))]), C("T", False, 1, []),
                      C("Many", False, 0, [("xs", ("ann", ("list", ("cls", 0)), ("listSize", 1, 2))), ("u", ("union", ("cls", 1), "bool"))])],
                     0, [2, 3, 4, 5, 6, 7, 8, 0, 1])
    b = gram.build(spec)
    g = b.extract()
    rng = h.rng
    mind = g.get_min_tree_depth()

    def mk(kind, r):
        with warnings.catch_warnings():
            warnings.simplefilter("ignore")
            if kind == "GE":
                return GE(g, synth.make_decider("grow", mind + 2, r, g), gene_length=rng.choice([8, 12, 40]))
            if kind == "Stack":
                return Stack(g, gene_length=rng.choice([24, 64, 300]))
            if kind == "SGE":
                return SGE(g, synth.make_decider("grow", mind + 2, r, g), gene_length=rng.choice([4, 6]))
            return DSGE(g, mind + rng.choice([1, 2, 3]))

    for kind in ("GE", "Stack", "SGE", "DynamicSGE"):
        flat = kind in ("GE", "Stack")
        site = f"{kind}:object-graph"
        for trial in range(h.n(5, 40)):
            seedv = rng.randrange(10**6)
            r = RecSource(seedv)
            rep = mk(kind, r)
            keynum: dict = {}
            genos: list = []      # every genotype object ever made (kept alive: addresses are never reused)
            ops: list = []
            dumps: list = []

            def kn(k):
                return keynum.setdefault(k, len(keynum) + 1)

            def cells(ge):
                return [(0, ge.dna)] if flat else [(kn(k), v) for k, v in ge.dna.items()]

            def graph():
                names: dict = {}
                return [[[k, names.setdefault(id(lst), len(names)), list(lst)] for k, lst in cells(ge)] for ge in genos]

            def view(ge):
                return [(k, list(lst)) for k, lst in cells(ge)]

            ok = True
            n_ops = h.n(24, 40)
            for step in range(n_ops):
                choices = ["create"] if len(genos) < 2 else ["mutate", "mutate", "crossover", "crossover", "map", "map", "create"]
                op = rng.choice(choices)
                before = [view(x) for x in genos]
                target = None
                r.rec = []
                try:
                    if op == "create":
                        ge = rep.create_genotype(r)
                        genos.append(ge)
                        ops.append(["fc", list(ge.dna)] if flat else ["sc", [[k, list(v)] for k, v in cells(ge)]])
                    elif op == "mutate":
                        gi = rng.randrange(len(genos))
                        had = [(k, len(v)) for k, v in cells(genos[gi])]
                        out = rep.mutate(r, genos[gi])
                        rec = list(r.rec)
                        genos.append(out)
                        if flat:
                            ops.append(["fm", gi, rec[0], rec[1]])
                        elif kind == "SGE":
                            ops.append(["sm", gi, [rec[0], rec[1], rec[2]]])
                        else:
                            ops.append(["sm", gi, "none" if len(rec) < 3 else [rec[0], rec[1], rec[2]]])
                            assert len(rec) in (0, 1, 3), (rec, had)
                    elif op == "crossover":
                        g1, g2 = rng.randrange(len(genos)), rng.randrange(len(genos))
                        c1, c2 = rep.crossover(r, genos[g1], genos[g2])
                        rec = list(r.rec)
                        genos.extend([c1, c2])
                        ops.append(["fx", g1, g2, rec[0]] if flat else ["sx", g1, g2, [v == 0 for v in rec]])
                    else:
                        gi = rng.randrange(len(genos))
                        target = gi
                        old = {id(k): (k, v, len(v)) for k, v in (genos[gi].dna.items() if not flat else [])}
                        safe(lambda: rep.genotype_to_phenotype(genos[gi]))
                        ext = []
                        if not flat:
                            for k, v in genos[gi].dna.items():
                                o = old.get(id(k))
                                if o is None:
                                    ext.append([kn(k), list(v)])
                                elif len(v) > o[2]:
                                    ext.append([kn(k), list(v[o[2]:])])
                        ops.append(["map", gi, ext])
                except Exception as e:  # noqa: BLE001
                    h.fail(site, "raises", f"{kind} history (seed {seedv}) step {step} ({op}) raised {type(e).__name__}: {e}", [kind, seedv, step])
                    ok = False
                    break
                dumps.append(graph())
                h.seen(f"heap:{kind}:{seedv}:{step}:{op}", nontrivial=op != "create")
                # the theorems, evaluated on the real graph
                for j, old_view in enumerate(before):
                    now = view(genos[j])
                    if j == target and kind == "DynamicSGE":
                        grown = len(now) >= len(old_view) and all(k1 == k0 and l1[: len(l0)] == l0 for (k0, l0), (k1, l1) in zip(old_view, now))
                        if not grown:
                            h.fail(site, "mapped-genotype-not-only-extended",
                                   f"{kind} history (seed {seedv}) step {step}: mapping genotype #{j} changed it from {old_view} to {now} "
                                   "(only appended genes and new keys are permitted)", [kind, seedv, step])
                            ok = False
                    elif now != old_view:
                        h.fail(site, "input-modified",
                               f"{kind} history (seed {seedv}) step {step} ({ops[-1][:3]}): genotype #{j}, which the operation was not allowed to "
                               f"write into, changed from {old_view} to {now}", [kind, seedv, step])
                        ok = False
                owners: dict = {}
                for j, ge in enumerate(genos):
                    for k, lst in cells(ge):
                        # (only where an in-place writer exists: dynamic-SGE mapping extends the lists it reads.  For GE / stack / SGE
                        # no operation writes into an existing list, so sharing there is a difference from the model -- level A below --
                        # but not by itself a failing input of the property)
                        if kind == "DynamicSGE" and id(lst) in owners and owners[id(lst)] != (j, k):
                            h.fail(site, "gene-list-shared",
                                   f"{kind} history (seed {seedv}) step {step} ({ops[-1][:3]}): ONE list object is the gene list of genotype "
                                   f"#{owners[id(lst)][0]} (key {owners[id(lst)][1]}) and of genotype #{j} (key {k}): writing to one writes to both",
                                   [kind, seedv, step])
                            ok = False
                        owners[id(lst)] = (j, k)
                if not ok:
                    break
            if ops and len(dumps) == len(ops):
                h.agree(site, ["heap_run", ops], dumps, replay=[kind, seedv])
            h.count(f"heap-histories:{kind}" + ("" if ok else ":violated"))


def class_valued_fields(h: Harness):
    """programs whose fields hold CLASSES of the grammar as plain values (`kind: Annotated[Any, VarRange([Lit, Var, Plus])]`): a class
    object is shared by every program that holds it, and by the grammar itself -- creating, mutating and crossing over programs writes
    nothing onto it (the metadata of a program lives on that program's own nodes)"""
    import ctxgrammar
    from linear import safe
    rng = h.rng
    for abc_based in (True, False):
        g, classes = ctxgrammar.kinds_grammar(abc_based=abc_based)
        r = NativeRandomSource(rng.randrange(10**6))
        rep = TreeBasedRepresentation(g, synth.make_decider("grow", 5, r, g))

        def written():
            return sorted((c.__name__, k) for c in classes for k in vars(c) if k.startswith("gengy_") and k not in ("gengy_labeled",) and not k.startswith("__"))
        first = written()
        pool = []
        for k in range(h.n(40, 300)):
            op = rng.choice(["create", "create", "mutate", "crossover"]) if len(pool) >= 2 else "create"
            if op == "create":
                st, t = safe(lambda: rep.create_genotype(r))
                new = [t] if st == "ok" else []
            elif op == "mutate":
                st, t = safe(lambda: rep.mutate(r, rng.choice(pool)))
                new = [t] if st == "ok" else []
            else:
                st, t = safe(lambda: rep.crossover(r, rng.choice(pool), rng.choice(pool)))
                new = list(t) if st == "ok" else []
            pool += new[: max(0, 12 - len(pool))]
            h.count(f"class-valued-fields:{op}")
            now = written()
            if now != first:
                extra = [x for x in now if x not in first]
                h.fail(f"tree:{op if op != 'create' else 'create_genotype'}", "input-modified",
                       f"operation #{k} ({op}) on a grammar whose programs hold classes as field values wrote {extra[:3]} onto the class objects themselves "
                       f"(shared by all programs holding them and by the grammar; abstract base {'derives from ABC' if abc_based else 'is decorated @abstract'})",
                       ["class-valued-fields", abc_based, k, op])
                break
        h.seen(f"class-valued-fields:{abc_based}", nontrivial=len(pool) >= 2)


def parallel_evaluator_steps(h: Harness):
    """the steps evaluate what they are given with the evaluator they are handed: with the PARALLEL evaluator and a pool that
    is only partly evaluated (survivors + newcomers, in several layouts), every individual that already carried a fitness
    must carry the same one afterwards"""
    import pargrammar
    from geneticengine.evaluation.parallel import ParallelEvaluator
    from linear import safe
    rng = h.rng
    _, b = pargrammar.built()
    g = pargrammar.grammar()
    layouts = [("survivors-then-newcomers", lambda n, j: j < n // 2), ("interleaved", lambda n, j: j % 2 == 0),
               ("newcomers-then-survivors", lambda n, j: j >= n // 2)]
    steps = [("elitism", lambda: ElitismStep()), ("tournament", lambda: TournamentSelection(3)),
             ("default", default_generic_programming_step)]
    for (lname, pre), (sname, mk) in zip(layouts, steps):
        seedv = rng.randrange(10**6)
        r = NativeRandomSource(seedv)
        rep = TreeBasedRepresentation(g, synth.make_decider("grow", 4, r, g))
        problem = SingleObjectiveProblem(pargrammar.ff_plain, minimize=rng.random() < 0.5)
        pool = [Individual(rep.create_genotype(r), rep) for _ in range(8)]
        ev = ParallelEvaluator()
        safe(lambda: ev.evaluate(problem, [i for j, i in enumerate(pool) if pre(len(pool), j)]))
        w = Watch(h, b, problem, False, "tree:")
        w.add(pool)
        st, out = safe(lambda: list(mk().apply(problem, ev, rep, r, list(pool), 6, 1)))
        h.count(f"parallel-evaluator-step:{sname}:{lname}:{st}")
        h.seen(f"parallel-step:{seedv}:{sname}:{lname}", nontrivial=st == "ok")
        w.verify(f"step[{sname}]", f"{sname}.apply with the ParallelEvaluator on a partly evaluated pool ({lname})", ["pargrammar", seedv, sname, lname])


def run(h: Harness):
    from geneticengine.evaluation.tracker import SingleObjectiveProgressTracker
    from linear import safe
    from props import c10
    rng = h.rng
    parallel_evaluator_steps(h)
    class_valued_fields(h)
    heap_histories(h)
    dsge_sharing(h)
    for gi in range(h.n(14, 160)):
        if gi % 4 == 1:
            # a production that can fail (SynthesisException -> the next alternative is tried): creation backtracks inside
            # mutation / crossover, in the synthesis context of the node being replaced
            spec = c10.backtracking_spec(rng)
            h.count("backtracking-grammar")
        else:
            spec = gram.productive_spec(rng, max_classes=rng.choice([3, 4, 6]), opts={"float": False})
        b = gram.build(spec)
        try:
            g = b.extract()
        except Exception:  # noqa: BLE001
            continue
        mind = g.get_min_tree_depth()
        if mind >= 1000000:
            continue
        if gi % 3 == 0 and gram.concrete_recursive_start(spec, rng):
            b = gram.build(spec)
            g = b.extract()
            mind = g.get_min_tree_depth()
            h.count("concrete-recursive-start")
        line = sx(gram.spec_sx(spec))
        problem = SingleObjectiveProblem(lambda p: float(len(repr(p)) % 23), minimize=rng.random() < 0.5)
        seedv = rng.randrange(10**6)
        r = NativeRandomSource(seedv)
        with warnings.catch_warnings():
            warnings.simplefilter("ignore")
            reps = make_reps(g, mind, r)
        for name, rep, is_dsge in reps:
            w = Watch(h, b, problem, is_dsge, f"{name}:")
            ev = SequentialEvaluator()
            # (a) operator sequence on a pool
            pool: list[Individual] = []
            for k in range(6):
                st, ge = safe(lambda: rep.create_genotype(r))
                if st == "ok":
                    pool.append(Individual(ge, rep))
            if len(pool) < 2:
                continue
            w.add(pool)
            for k in range(h.n(6, 14) * (3 if is_dsge else 1)):
                op = rng.choice(["mutate", "crossover", "map", "evaluate"] + (["crossover", "map"] if is_dsge else []))
                a, c = rng.choice(pool), rng.choice(pool)
                if op == "mutate":
                    st, out = safe(lambda: rep.mutate(r, a.genotype))
                    new = [Individual(out, rep)] if st == "ok" else []
                elif op == "crossover":
                    st, out = safe(lambda: rep.crossover(r, a.genotype, c.genotype))
                    new = [Individual(x, rep) for x in out] if st == "ok" else []
                elif op == "map":
                    st, out = safe(lambda: a.get_phenotype())
                    new = []
                    # mapping ONE individual: every other live individual is untouched (a genotype that shares a gene list
                    # with the one being mapped would grow with it), the mapped one only gains its cache / extension
                    if not w.verify("genotype_to_phenotype", f"{name}.genotype_to_phenotype of another individual", [line, name, seedv, k], mapped=[a]):
                        break
                    w.refresh()
                else:
                    st, out = safe(lambda: ev.evaluate(problem, [a, c]))
                    new = []
                    if not w.verify("evaluate", f"evaluating two individuals of a {name} pool", [line, name, seedv, k], mapped=[a, c]):
                        break
                    w.refresh()
                h.seen(f"{line}:{name}:{seedv}:op{k}:{op}", nontrivial=bool(new))
                if op in ("mutate", "crossover"):
                    if not w.verify(op, f"{name}.{op}", [line, name, seedv, k]):
                        break
                pool.extend(new[: max(0, 10 - len(pool))])
                w.add(new)
            # (a') parents whose genome was made by ANOTHER object of the same representation (other gene_length: a warm start, an injected
            # genome): whatever the operator makes of them -- a child or an error -- they come out as they went in
            if name in ("GE", "SGE", "Stack"):
                import linear as _lin
                with warnings.catch_warnings():
                    warnings.simplefilter("ignore")
                    others = {"GE": lambda n: _lin.GE(g, synth.make_decider("grow", mind + 2, r, g), gene_length=n),
                              "SGE": lambda n: _lin.SGE(g, synth.make_decider("grow", mind + 2, r, g), gene_length=n),
                              "Stack": lambda n: _lin.Stack(g, gene_length=n)}[name]
                    st, made = safe(lambda: [others(n).create_genotype(r) for n in ({"GE": (5, 12, 48), "SGE": (3, 7, 24), "Stack": (40, 100, 300)}[name])])
                if st == "ok":
                    snaps = [geno_snapshot(x, b) for x in made]
                    for j, x in enumerate(made):
                        for _ in range(3):
                            safe(lambda: rep.mutate(r, x))
                            safe(lambda: rep.crossover(r, x, made[(j + 1) % len(made)]))
                            safe(lambda: rep.crossover(r, pool[0].genotype, x))
                    h.count(f"foreign-length-parents:{name}")
                    now = [geno_snapshot(x, b) for x in made]
                    if now != snaps:
                        j = next(k for k in range(len(made)) if now[k] != snaps[k])
                        h.fail(f"{name}:mutate", "input-modified",
                               f"{name}.mutate / crossover given a parent genome made with another gene_length changed that parent: "
                               f"{len(snaps[j][1])} -> {len(now[j][1])} genes ({str(snaps[j][1])[:60]} -> {str(now[j][1])[:60]})",
                               [line, name, seedv, "foreign-length"])
                    if not w.verify("crossover", f"{name}.crossover with a foreign-length mate", [line, name, seedv, "foreign-length"]):
                        continue
            # (b0) variation steps on a FRESH population (never evaluated, never mapped -- what an initialiser or NoveltyStep hands over):
            # mutation and crossover have no business mapping their parents; under dynamic SGE a parent's genes stay exactly as they were
            fresh = []
            for k in range(5):
                st, ge = safe(lambda: rep.create_genotype(r))
                if st == "ok":
                    fresh.append(Individual(ge, rep))
            if len(fresh) >= 2:
                before = [geno_snapshot(i.genotype, b) for i in fresh]
                for sname, mk in (("mutation", lambda: GenericMutationStep(1)), ("crossover", lambda: GenericCrossoverStep(1)),
                                  ("seq[crossover,mutation]", lambda: SequenceStep(GenericCrossoverStep(1), GenericMutationStep(1)))):
                    st, out = safe(lambda: list(mk().apply(problem, ev, rep, r, list(fresh), len(fresh), 1)))
                    h.count(f"fresh-population-step:{sname}:{st}")
                    after = [geno_snapshot(i.genotype, b) for i in fresh]
                    if after != before:
                        j = next(k for k in range(len(fresh)) if after[k] != before[k])
                        h.fail(f"{name}:step[{sname}]", "input-modified",
                               f"{sname}.apply on a fresh {name} population (never evaluated, never mapped): the genotype of parent #{j} changed from "
                               f"{str(before[j])[:100]} to {str(after[j])[:100]}", [line, name, seedv, sname])
                        break
                    # ... and what becomes known about the OFFSPRING later (they are evaluated, also for a problem nobody has seen before)
                    # is knowledge about the offspring: the parents are as unevaluated as they were
                    if st == "ok":
                        had = [(i.has_fitness(problem), len(i.fitness_store)) for i in fresh]
                        probe = SingleObjectiveProblem(lambda p: float(len(repr(p)) % 29), minimize=False)
                        kids = [o for o in out if not any(o is i for i in fresh)]
                        safe(lambda: SequentialEvaluator().evaluate(probe, kids))
                        safe(lambda: SequentialEvaluator().evaluate(problem, kids))
                        now = [(i.has_fitness(problem), len(i.fitness_store)) for i in fresh]
                        if now != had:
                            j = next(k for k in range(len(fresh)) if now[k] != had[k])
                            h.fail(f"{name}:step[{sname}]", "input-modified",
                                   f"{sname}.apply on a fresh {name} population: after the OFFSPRING were evaluated (for the search's problem and for a second one), "
                                   f"parent #{j}, which nobody evaluated, holds {now[j][1]} cached fitness value(s) instead of {had[j][1]}",
                                   [line, name, seedv, sname, "offspring-evaluated"])
                            break
            # hand-written programs (built by calling the classes, not by the library: no synthesis context, no labels) as parents of the tree
            # operators: they come out of mutation / crossover as they went in
            if name == "tree":
                st, hand = safe(lambda: [gram.rebuild_plain(p.genotype, b) for p in pool[:3]])
                if st == "ok" and hand:
                    snaps = [node_snapshot(x, b, {}) for x in hand]
                    for k, x in enumerate(hand):
                        safe(lambda: rep.mutate(r, x))
                        safe(lambda: rep.crossover(r, x, hand[(k + 1) % len(hand)]))
                    h.count("hand-written-parents")
                    now = [node_snapshot(x, b, {}) for x in hand]
                    if now != snaps:
                        j = next(k for k in range(len(hand)) if now[k] != snaps[k])
                        h.fail("tree:mutate", "input-modified", f"tree.mutate / crossover of a hand-written program (no synthesis metadata) changed it: "
                               f"{sx(snaps[j])[:120]} -> {sx(now[j])[:120]}", [line, name, seedv, "hand-written"])
                    # ... and as members of a population that steps evaluate and select from (the tree representation's programs ARE its genotypes)
                    hinds = [Individual(x, rep) for x in hand]
                    for mk in (lambda: ElitismStep(), lambda: TournamentSelection(2), lambda: ParallelStep([ElitismStep(), NoveltyStep()], [1, 1])):
                        safe(lambda: list(mk().apply(problem, SequentialEvaluator(), rep, r, list(hinds), max(1, len(hinds) - 1), 1)))
                    h.count("hand-written-population")
                    now = [node_snapshot(x, b, {}) for x in hand]
                    if now != snaps:
                        j = next(k for k in range(len(hand)) if now[k] != snaps[k])
                        h.fail("tree:step[elitism]", "input-modified", f"selection steps over a population of hand-written programs (no synthesis metadata) "
                               f"wrote into them: {str(snaps[j])[:120]} -> {str(now[j])[:120]}", [line, name, seedv, "hand-written-population"])
            # (b) steps on an evaluated population
            safe(lambda: ev.evaluate(problem, pool))
            pool = [p for p in pool if p.has_fitness(problem)]
            if len(pool) < 4:
                continue
            w2 = Watch(h, b, problem, is_dsge, f"{name}:")
            w2.add(pool)
            for sname, mk in STEPS:
                if sname in ("default",) and len(pool) < 6:
                    continue
                step = mk()
                k = rng.choice([2, 3, len(pool) - 1, len(pool)])
                given = list(pool)
                st, out = safe(lambda: list(step.apply(problem, ev, rep, r, given, k, 1)))
                if [id(x) for x in given] != [id(x) for x in pool]:
                    h.fail(f"{name}:step[{sname}]", "input-population-list-modified",
                           f"{sname}.apply changed the list object it was given: {len(pool)} -> {len(given)} individuals", [line, name, seedv, sname, k])
                h.seen(f"{line}:{name}:{seedv}:step:{sname}", nontrivial=st == "ok" and any(all(o is not p for p in pool) for o in out))
                h.count(f"step:{sname}:{st}")
                w2.refresh_fitness_only = True
                # evaluation inside steps may fill fitness caches of inputs (none -> some): snapshots
                # only record what was cached before, so still_valid tolerates fills
                if not w2.verify(f"step[{sname}]", f"{sname}.apply on {name} population", [line, name, seedv, sname, k]):
                    break
            # the ranking helpers the selection steps are built on (public: custom steps, recorders and reports call them with the
            # population itself): the list they are handed keeps its order and its members
            from geneticengine.problems import helpers as _helpers
            for hname, call in (("sort_population", lambda lst: _helpers.sort_population(lst, problem)),
                                ("best_individual", lambda lst: _helpers.best_individual(lst, problem)),
                                ("is_better", lambda lst: _helpers.is_better(problem, lst[0], lst[-1]))):
                given = list(pool)
                rng.shuffle(given)
                order = [id(x) for x in given]
                st, _out = safe(lambda: call(given))
                h.count(f"helper:{hname}:{st}")
                if [id(x) for x in given] != order:
                    moved = sum(1 for x, y in zip(given, order) if id(x) != y)
                    h.fail(f"{name}:helper[{hname}]", "input-population-list-modified",
                           f"problems.helpers.{hname} re-ordered / changed the population list it was given: {moved} of {len(order)} positions "
                           f"hold another individual than before the call", [line, name, seedv, hname])
                if not w2.verify(f"helper[{hname}]", f"problems.helpers.{hname} on {name} population", [line, name, seedv, hname]):
                    break
            # (b') lexicase selection needs a multi-objective problem: same checks, plus the list container
            # (some programs have an objective that cannot be computed: NaN)
            mop = MultiObjectiveProblem([False, True], lambda p: [float(len(repr(p)) % 5), float("nan") if len(repr(p)) % 4 == 1 else float(len(repr(p)) % 3)])
            safe(lambda: ev.evaluate(mop, pool))
            mpool = [p for p in pool if p.has_fitness(mop)]
            if len(mpool) >= 3:
                w3 = Watch(h, b, mop, is_dsge, f"{name}:")
                w3.add(mpool)
                for sname, mk in (("lexicase", lambda: LexicaseSelection()),
                                  ("par[lexicase,elitism]", lambda: ParallelStep([LexicaseSelection(), ElitismStep()], [2, 1])),
                                  ("seq[lexicase,mutation]", lambda: SequenceStep(LexicaseSelection(), GenericMutationStep(1)))):
                    given = list(mpool)
                    k = rng.randint(1, len(mpool))
                    st, out = safe(lambda: list(mk().apply(mop, ev, rep, r, given, k, 1)))
                    h.seen(f"{line}:{name}:{seedv}:step:{sname}", nontrivial=st == "ok")
                    h.count(f"step:{sname}:{st}")
                    if [id(x) for x in given] != [id(x) for x in mpool]:
                        h.fail(f"{name}:step[{sname}]", "input-population-list-modified",
                               f"{sname}.apply changed the list object it was given: {len(mpool)} -> {len(given)} individuals", [line, name, seedv, sname, k])
                    if not w3.verify(f"step[{sname}]", f"{sname}.apply on {name} population", [line, name, seedv, sname, k]):
                        break
            # (b'') a fitness function that fills and returns ONE preallocated list of plain floats; some individuals are evaluated
            # before the step, the others by the step: what the first ones cached is still what it was
            scores = [0.0, 0.0, 0.0]

            def into_scores(p, scores=scores):
                n = len(repr(p))
                scores[0], scores[1], scores[2] = float(n % 23), float(n % 7) / 4, float(n % 5)
                return scores
            bop = MultiObjectiveProblem([False, True, False], into_scores)
            some = [p for j, p in enumerate(pool) if j % 2 == 0]
            safe(lambda: ev.evaluate(bop, some))
            some = [p for p in some if p.has_fitness(bop)]
            if some:
                w4 = Watch(h, b, bop, is_dsge, f"{name}:")
                w4.add(pool)
                for sname, mk in (("elitism", lambda: ElitismStep()), ("tournament", lambda: TournamentSelection(3)),
                                  ("lexicase", lambda: LexicaseSelection()),
                                  ("par[elitism,seq[tournament,mutation]]", lambda: ParallelStep([ElitismStep(), SequenceStep(TournamentSelection(2), GenericMutationStep(1))], [1, 2]))):
                    k = rng.randint(1, len(pool))
                    st, out = safe(lambda: list(mk().apply(bop, ev, rep, r, list(pool), k, 1)))
                    h.seen(f"{line}:{name}:{seedv}:buffer-step:{sname}", nontrivial=st == "ok")
                    h.count(f"buffer-step:{sname}:{st}")
                    if not w4.verify(f"step[{sname}]", f"{sname}.apply on a partly evaluated {name} population, multi-objective fitness function that fills and "
                                     "returns one preallocated list of floats", [line, name, seedv, sname, k, "reused-score-list"]):
                        break
            # (b-flaky) a fitness function that is NOT a pure function (a transient failure: NaN the first time a program is asked about, a
            # number afterwards): what an individual cached -- NaN included -- is what it keeps when steps that evaluate their input see it again
            asked: dict = {}

            def flaky(p, asked=asked):
                key = repr(p)
                asked[key] = asked.get(key, 0) + 1
                # (NaN the first time for some programs; otherwise a value -- exactly 0.0 included -- that a SECOND call would not repeat)
                return float('nan') if (asked[key] == 1 and len(key) % 2 == 1) else float((len(key) % 4) * (1 if asked[key] == 1 else 5) + (0 if asked[key] == 1 else 3))
            fproblem = SingleObjectiveProblem(flaky, minimize=False)
            safe(lambda: ev.evaluate(fproblem, pool))
            fpool = [p for p in pool if fproblem in p.fitness_store]
            if len(fpool) >= 2:
                w5 = Watch(h, b, fproblem, is_dsge, f'{name}:')
                w5.add(fpool)
                for sname, mk in (('tournament', lambda: TournamentSelection(2)), ('elitism', lambda: ElitismStep()),
                                  ('seq[tournament,mutation]', lambda: SequenceStep(TournamentSelection(2), GenericMutationStep(1)))):
                    st, out = safe(lambda: list(mk().apply(fproblem, ev, rep, r, list(fpool), rng.randint(1, len(fpool)), 1)))
                    h.count(f'flaky-fitness-step:{sname}:{st}')
                    if not w5.verify(f'step[{sname}]', f'{sname}.apply on a {name} population some of whose cached fitness values are NaN (fitness function with '
                                     'transient failures)', [line, name, seedv, sname, 'flaky-fitness']):
                        break
            # steps that ran under ANOTHER problem leave what the individuals cached for the first problem as it was
            w2.verify("step[under another problem]", f"steps applied to the {name} population under a second problem (multi-objective, lexicase)",
                      [line, name, seedv, "second-problem"])
            # (c) GP run, every generation snapshotted, all re-validated at the end
            if gi % 2 == 0:
                rec = GenRecorder()
                tracker = SingleObjectiveProgressTracker(problem, SequentialEvaluator(), recorders=[rec])
                gens = h.n(5, 30)
                psize = 6
                alg = GeneticProgramming(problem, EvaluationBudget(psize * (gens + 1)), rep, random=NativeRandomSource(seedv),
                                         tracker=tracker, population_size=psize)
                snaps = {}

                class Snap(SearchRecorder):
                    def register(self, tracker, individual, problem, is_best):
                        snaps.setdefault(id(individual), (individual, ind_snapshot(individual, b, problem)))
                tracker.recorders.append(Snap())
                st, _ = safe(lambda: alg.search())
                h.count(f"gp:{name}:{st}")
                h.seen(f"{line}:{name}:{seedv}:gp", nontrivial=len(snaps) > psize)
                for ind, snap in snaps.values():
                    why = still_valid(snap, ind_snapshot(ind, b, problem), is_dsge)
                    if why:
                        h.fail(f"{name}:GeneticProgramming.search", "input-modified",
                               f"an individual registered in generation {ind.metadata.get('generation')} was modified by later generations: {why}",
                               [line, name, seedv])
                # the same under AdaptiveGeneticProgramming (feedback on the slice weights, adaptive operator probabilities, a population size
                # that changes): its own steps look at whole populations on the way
                if name == "tree" and gi % 4 == 0:
                    from geneticengine.algorithms.gp.adaptive import AdaptiveGeneticProgramming
                    from geneticengine.evaluation.budget import AnyOf, TimeBudget
                    snaps2 = {}

                    class Snap2(SearchRecorder):
                        def register(self, tracker, individual, problem, is_best):
                            snaps2.setdefault(id(individual), (individual, ind_snapshot(individual, b, problem)))
                    mproblem = MultiObjectiveProblem([False, True], lambda p: [float(len(repr(p)) % 23), float(len(repr(p)) % 5)]) if gi % 8 == 0 else problem
                    from geneticengine.evaluation.tracker import MultiObjectiveProgressTracker
                    tcls = MultiObjectiveProgressTracker if mproblem is not problem else SingleObjectiveProgressTracker
                    tracker2 = tcls(mproblem, SequentialEvaluator(), recorders=[Snap2()])

                    def adaptive():
                        alg2 = AdaptiveGeneticProgramming(mproblem, AnyOf(EvaluationBudget(150), TimeBudget(20)), rep, NativeRandomSource(seedv), tracker2)
                        alg2.population_size = 8
                        return alg2.search()
                    st, _ = safe(adaptive)
                    h.count(f"adaptive-gp:{name}:{st}")
                    for ind, snap in snaps2.values():
                        why = still_valid(snap, ind_snapshot(ind, b, mproblem), is_dsge)
                        if why:
                            h.fail(f"{name}:AdaptiveGeneticProgramming.search", "input-modified",
                                   f"an individual registered in generation {ind.metadata.get('generation')} of an adaptive GP run was modified later: {why}",
                                   [line, name, seedv, "adaptive"])
                            break
                        break
