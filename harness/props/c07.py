"""C07 -- genotype-to-phenotype mapping is a pure function of the genotype.

Implementation: GE / SGE / dynamic SGE / stack `genotype_to_phenotype`, called repeatedly with
other draws on the shared source in between; the shared source is wrapped in a counter.
Model: lean/GEVerif/Model/Linear.lean (`mapGE`, `mapSGE`, `mapDSGE`); the stack machine is not
modelled (its purity is checked on the implementation only).
"""
from __future__ import annotations

import gram
import linear
import synth
from core import Harness, ScriptedSource, sx
from linear import DSGE, GE, SGE, CountingSource, Stack, safe

from geneticengine.random.sources import NativeRandomSource

RULE = ("generated productive grammars with and without refined fields x {GE, SGE, dSGE, stack} x genotypes obtained by "
        "create / mutate / crossover x histories of 2..4 mapping calls interleaved with other draws on the shared source; "
        "non-trivial = the mapped program has >= 2 nodes; distinct = distinct (spec, representation, genotype)")
ASSUMPTIONS = [
    "the stack machine is modelled for unweighted grammars; the canonical symbol order (sorted by str()) is taken from the implementation",
    "float values are not compared; only their presence",
]


def interleave(shared, rng):
    for _ in range(rng.randint(0, 3)):
        shared.randint(0, 10)


def check_rep(h: Harness, name, rep, spec, b, shared, rng, model_line):
    """create a genotype, vary it, map each genotype several times with draws in between"""
    site = f"{name}.genotype_to_phenotype"
    line_spec = gram.spec_sx(spec)
    st, g0 = safe(lambda: rep.create_genotype(shared))
    if st != "ok":
        return
    genos = [g0]
    st, g1 = safe(lambda: rep.mutate(shared, g0))
    if st == "ok":
        genos.append(g1)
        st, pair = safe(lambda: rep.crossover(shared, g0, g1))
        if st == "ok":
            genos.append(pair[0])

    def process(geno):
        before = shared.calls
        dna_before = snapshot(name, geno, b)
        st, p = safe(lambda: rep.genotype_to_phenotype(geno))
        if st == "skip":
            return
        first_calls = shared.calls - before
        res = ["ok", gram.canon(p, b)] if st == "ok" else ["err", p]
        text = repr(p) if st == "ok" else None    # (float values, which the canonical form hides, are compared too)
        nontrivial = sx(res).count("(n ") >= 2
        replay = [sx(line_spec), name, sx(dna_before)]
        if name != "DynamicSGE" and first_calls != 0:
            h.fail(site, "mapping-draws-from-shared-source", f"mapping advanced the shared random source by {first_calls} draws", replay)
        if model_line is not None:
            model_line(h, site, geno, dna_before, res, nontrivial, first_calls)
        else:
            h.seen(sx([name, line_spec, dna_before]), nontrivial)
        h.count(f"{name}:{res[0]}")
        # map again (several times), with other uses of the shared source in between
        for k in range(rng.randint(1, 3)):
            interleave(shared, rng)
            before = shared.calls
            st2, p2 = safe(lambda: rep.genotype_to_phenotype(geno))
            res2 = ["ok", gram.canon(p2, b)] if st2 == "ok" else ["err", p2]
            if sx(res2) != sx(res) or (st2 == "ok" and text is not None and repr(p2) != text):
                h.fail(site, "same-genotype-different-program",
                       f"mapping #{k + 2} of the same genotype gave {(sx(res2) if sx(res2) != sx(res) else repr(p2))[:160]} instead of "
                       f"{(sx(res) if sx(res2) != sx(res) else text)[:160]}", replay)
                return
            if shared.calls != before:
                h.fail(site, "mapping-draws-from-shared-source",
                       f"re-mapping an already mapped genotype advanced the shared source by {shared.calls - before} draws", replay)
                return

    for geno in genos:
        process(geno)
    # late offspring: crossover of an already MAPPED genotype with a fresh, never mapped one, in both orders (a child of dynamic SGE
    # inherits empty gene lists for the symbols its other parent never used, and must fill them for good when it is mapped)
    st, fresh = safe(lambda: rep.create_genotype(shared))
    if st == "ok":
        for a, c in ((g0, fresh), (fresh, g0)):
            st, pair = safe(lambda: rep.crossover(shared, a, c))
            if st == "ok":
                h.count(f"{name}:late-offspring")
                for child in pair:
                    process(child)


def snapshot(name, geno, b):
    if name in ("GE", "Stack"):
        return list(geno.dna)
    if name == "SGE":
        return linear.sge_sx(geno.dna)
    return linear.dsge_sx(geno.dna, b)


def decider_state_scenario(h: Harness, rng):
    """Mapping must not depend on what was mapped before: PI-grow keeps a flag on the decider object
    which the first production choice resets only when it happens at expansion 0 -- with a CONCRETE
    start symbol it never is.  One representation object, many genotypes, each mapped twice, in
    sequence."""
    C = gram.ClassSpec
    spec = gram.Spec([C("A0", True, None), C("Leaf", False, 0, [("k", ("ann", "int", ("intRange", 0, 3)))]),
                      C("Node", False, 0, [("l", ("cls", 0)), ("r", ("cls", 0))]),
                      C("S", False, None, [("a", ("cls", 0)), ("b", ("cls", 0))])], 3, [1, 2])
    b = gram.build(spec)
    g = b.extract()
    line_spec = gram.spec_sx(spec)
    for d in (3, 4, 5):
        for name, cls in (("GE", GE), ("SGE", SGE)):
            shared = CountingSource(NativeRandomSource(rng.randrange(10**6)))
            rep = cls(g, synth.make_decider("pigrow", d, shared, g), gene_length=64)
            genos = [rep.create_genotype(shared) for _ in range(h.n(10, 40))]
            first = {}
            for rnd in range(3):
                if rnd == 2:
                    # the SAME decider object also builds a few trees for a tree-based representation in between (a user who
                    # shares one decider between an initialiser and a genotype representation): what it did there is no
                    # business of the next mapping
                    from geneticengine.representations.tree.treebased import TreeBasedRepresentation
                    tb = TreeBasedRepresentation(g, rep.decider)
                    for _ in range(3):
                        safe(lambda: tb.create_genotype(shared))
                for gi, geno in enumerate(genos):
                    st, p = safe(lambda: rep.genotype_to_phenotype(geno))
                    res = sx(["ok", gram.canon(p, b)] if st == "ok" else ["err", p])
                    dna = snapshot(name, geno, b)
                    if rnd == 0:
                        first[gi] = res
                        h.agree(f"{name}.genotype_to_phenotype", ["map_ge" if name == "GE" else "map_sge", line_spec, ["pigrow", d], dna],
                                ["ok", gram.canon(p, b)] if st == "ok" else ["err", p], nontrivial=True)
                    elif res != first[gi]:
                        h.fail(f"{name}.genotype_to_phenotype", "same-genotype-different-program",
                               f"PI-grow, concrete start symbol, max depth {d}: genotype #{gi} mapped to {first[gi][:120]} first and to {res[:120]} "
                               f"after other genotypes had been mapped" + (" and the same decider object had built three trees for a tree-based representation" if rnd == 2 else ""),
                               [sx(line_spec), name, d, sx(dna)])
                        break
            h.count("decider-state-scenarios")


def persistent_handler_scenario(h: Harness, rng):
    """refinement objects that live as long as the grammar (a WeightedStringHandler with its numpy probability matrix):
    mapping the same genotype again, after other genotypes were mapped, must give the same program and leave the
    handler's matrix as it was"""
    import wsgrammar
    g = wsgrammar.grammar()
    before = wsgrammar.MATRIX.copy()
    for name, mk in (("GE", lambda s: GE(g, synth.make_decider("grow", 4, s, g), gene_length=48)),
                     ("SGE", lambda s: SGE(g, synth.make_decider("grow", 4, s, g), gene_length=48)),
                     ("DynamicSGE", lambda s: DSGE(g, 4))):
        shared = NativeRandomSource(rng.randrange(10**6))
        rep = mk(shared)
        genos = [rep.create_genotype(shared) for _ in range(h.n(6, 30))]
        first = {}
        for rnd in range(3):
            for gi, geno in enumerate(genos):
                st, p = safe(lambda: rep.genotype_to_phenotype(geno))
                res = repr(p) if st == "ok" else f"error:{p}"
                if rnd == 0:
                    first[gi] = res
                    h.seen(f"ws:{name}:{res}", nontrivial=st == "ok" and "Seq" in res)
                elif res != first[gi]:
                    h.fail(f"{name}.genotype_to_phenotype", "same-genotype-different-program",
                           f"WeightedStringHandler grammar: genotype #{gi} mapped to {first[gi][:120]} first and to {res[:120]} in round {rnd + 1}",
                           [name, gi, rnd])
                    break
        h.count("persistent-handler-scenarios")
    if not (wsgrammar.MATRIX == before).all():
        h.fail("WeightedStringHandler.generate", "refinement-object-modified",
               f"the handler's probability matrix changed while mapping: {before.tolist()} -> {wsgrammar.MATRIX.tolist()}", ["matrix"])
        wsgrammar.MATRIX[:] = before


def short_lived_genotypes_scenario(h: Harness, rng):
    """ONE long-lived representation object maps a stream of genotypes that die as soon as they were mapped (what a search does),
    so that later genotypes are allocated where earlier ones lived: each program must be the one a FRESH representation builds
    from the same genes -- determined by the genes and the grammar, not by which object carried them"""
    import gc
    from geneticengine.grammar.grammar import extract_grammar
    from props import steps_common as sc
    g = extract_grammar([sc.Leaf, sc.Node], sc.Root)    # (plain int leaves: the stack representation builds them from the genes too)
    for name, mk in (("Stack", lambda s: Stack(g, gene_length=64)), ("GE", lambda s: GE(g, synth.make_decider("grow", 4, s, g), gene_length=32)),
                     ("SGE", lambda s: SGE(g, synth.make_decider("grow", 4, s, g), gene_length=16))):
        shared = NativeRandomSource(rng.randrange(10**6))
        rep = mk(shared)
        geno = rep.create_genotype(shared)
        bad = False
        for k in range(h.n(150, 600)):
            op = rng.random()
            if op < 0.4:
                nxt = rep.create_genotype(shared)
            elif op < 0.8:
                st, nxt = safe(lambda: rep.mutate(shared, geno))
                if st != "ok":
                    nxt = rep.create_genotype(shared)
            else:
                st, pair = safe(lambda: rep.crossover(shared, geno, rep.create_genotype(shared)))
                nxt = pair[0] if st == "ok" else rep.create_genotype(shared)
            geno = nxt          # (the previous genotype dies here)
            del nxt
            if k % 7 == 0:
                gc.collect()
            st, p = safe(lambda: rep.genotype_to_phenotype(geno))
            fresh = mk(NativeRandomSource(0))
            dna_copy = type(geno)(dna=(dict((kk, list(v)) for kk, v in geno.dna.items()) if isinstance(geno.dna, dict) else list(geno.dna)))
            st2, p2 = safe(lambda: fresh.genotype_to_phenotype(dna_copy))
            a = repr(p) if st == "ok" else f"error:{p}"
            c = repr(p2) if st2 == "ok" else f"error:{p2}"
            h.seen(f"short-lived:{name}:{k}:{a[:40]}", nontrivial=st == "ok")
            if a != c:
                h.fail(f"{name}.genotype_to_phenotype", "same-genotype-different-program",
                       f"genotype #{k} of a stream mapped by one long-lived {name} representation gives {a[:120]}; a fresh representation maps the same genes to {c[:120]}",
                       [name, k, str(geno.dna)[:400]])
                bad = True
                break
        h.count(f"short-lived-genotype-streams:{name}" + (":violated" if bad else ""))


def dsge_family_scenario(h: Harness, rng):
    """a dynamic-SGE genotype is mapped, then serves as the parent of mutants and crossover offspring that are mapped too (programs
    of other shapes, reading fewer or more genes of each symbol), then is mapped again: it still gives the program it gave first"""
    C = gram.ClassSpec
    spec = gram.Spec([C("E", True, None), C("Cond", True, None), C("Lit", False, 0, [("v", "int")]), C("Flag", False, 0, [("b", "bool")]),
                      C("If", False, 0, [("c", ("cls", 1)), ("t", ("cls", 0)), ("e", ("cls", 0))]),
                      C("Lt", False, 1, [("l", ("cls", 0)), ("r", ("ann", "int", ("intRange", 0, 9)))]),
                      C("Not", False, 1, [("c", ("cls", 1))]), C("T", False, 1, []),
                      C("Many", False, 0, [("xs", ("ann", ("list", ("cls", 0)), ("listSize", 1, 2)))])], 0, [2, 3, 4, 5, 6, 7, 8, 0, 1])
    b = gram.build(spec)
    g = b.extract()
    for trial in range(h.n(12, 80)):
        shared = NativeRandomSource(rng.randrange(10**6))
        rep = DSGE(g, g.get_min_tree_depth() + rng.choice([2, 3]))
        parents = [rep.create_genotype(shared) for _ in range(3)]
        first = []
        for ge in parents:
            st, p = safe(lambda: rep.genotype_to_phenotype(ge))
            first.append(repr(p) if st == "ok" else f"error:{p}")
        bad = False
        for k in range(h.n(12, 30)):
            i = rng.randrange(len(parents))
            if rng.random() < 0.6:
                st, kids = safe(lambda: [rep.mutate(shared, parents[i])])
            else:
                st, kids = safe(lambda: list(rep.crossover(shared, parents[i], parents[(i + 1) % len(parents)])))
            if st != "ok":
                continue
            for kid in kids:
                safe(lambda: rep.genotype_to_phenotype(kid))
            j = rng.randrange(len(parents))
            st, p = safe(lambda: rep.genotype_to_phenotype(parents[j]))
            now = repr(p) if st == "ok" else f"error:{p}"
            h.seen(f"dsge-family:{trial}:{k}:{now[:40]}", nontrivial=st == "ok")
            if now != first[j]:
                h.fail("DynamicSGE.genotype_to_phenotype", "same-genotype-different-program",
                       f"dynamic-SGE genotype #{j} gave {first[j][:100]} when it was first mapped and gives {now[:100]} after {k + 1} of its offspring "
                       f"(mutants, crossover children) were made and mapped", [trial, k, j])
                bad = True
                break
        h.count("dsge-families" + (":violated" if bad else ""))


def read_only_calls_scenario(h: Harness, rng):
    """things a user does with a grammar BETWEEN two mappings that only read it -- printing it, printing its symbols, asking for its
    summary -- change nothing: the same genotype maps to the same program before and after, through the representation that mapped it
    first and through a new one"""
    import evtgrammar
    g = evtgrammar.grammar()
    shared = NativeRandomSource(rng.randrange(10**6))
    mk = {"GE": lambda: GE(g, synth.make_decider("grow", 5, shared, g), gene_length=32), "DynamicSGE": lambda: DSGE(g, 5)}
    reps = {n: f() for n, f in mk.items()}
    genos = {n: [reps[n].create_genotype(shared) for _ in range(h.n(12, 40))] for n in mk}
    first = {n: [safe(lambda: reps[n].genotype_to_phenotype(ge)) for ge in genos[n]] for n in mk}
    events = [("repr(grammar)", lambda: repr(g)), ("str() of every symbol and field type", lambda: [str(t) for t in g.get_all_mentioned_symbols()]),
              ("grammar.get_grammar_properties_summary()", lambda: g.get_grammar_properties_summary()),
              ("a structured-GE genotype created for the same grammar", lambda: SGE(g, synth.make_decider("grow", 5, shared, g), gene_length=8).create_genotype(shared))]
    for label, ev in events:
        safe(ev)
        for n in mk:
            fresh = mk[n]()
            for i, ge in enumerate(genos[n]):
                st0, p0 = first[n][i]
                a = repr(p0) if st0 == "ok" else f"error:{p0}"
                for which, rp in (("the representation that mapped it first", reps[n]), ("a new representation", fresh)):
                    st, p = safe(lambda: rp.genotype_to_phenotype(ge))
                    c = repr(p) if st == "ok" else f"error:{p}"
                    h.seen(f"read-only:{label}:{n}:{i}:{which[:5]}", nontrivial=st == "ok")
                    if a != c:
                        h.fail(f"{n}.genotype_to_phenotype", "same-genotype-different-program",
                               f"genotype #{i} mapped to {a[:100]}; after {label} it maps to {c[:100]} through {which} (same grammar object, same genes)", [n, i, label])
                        return
        h.count(f"read-only-calls:{label.split('(')[0]}")


def postponed_annotations_scenario(h: Harness, rng):
    """a grammar module written with `from __future__ import annotations`: every reading of a class's annotations builds new refinement
    objects, and types that mention them (a Union with a refined alternative) are new, unequal objects each time -- still the same
    symbols: a genotype maps to the same program every time, and a dynamic-SGE genotype that was mapped once needs no further genes"""
    import futgrammar
    g = futgrammar.grammar()
    shared = NativeRandomSource(rng.randrange(10**6))
    for name, mk in (("DynamicSGE", lambda: DSGE(g, 5)), ("GE", lambda: GE(g, synth.make_decider("grow", 5, shared, g), gene_length=48)),
                     ("SGE", lambda: SGE(g, synth.make_decider("grow", 5, shared, g), gene_length=16))):
        rep = mk()
        for i in range(h.n(20, 80)):
            st, ge = safe(lambda: rep.create_genotype(shared))
            if st != "ok":
                continue
            st1, p1 = safe(lambda: rep.genotype_to_phenotype(ge))
            keys1 = len(ge.dna) if isinstance(ge.dna, dict) else None
            genes1 = sum(len(v) for v in ge.dna.values()) if isinstance(ge.dna, dict) else None
            st2, p2 = safe(lambda: rep.genotype_to_phenotype(ge))
            a, c = (repr(p1) if st1 == "ok" else f"error:{p1}"), (repr(p2) if st2 == "ok" else f"error:{p2}")
            h.seen(f"postponed:{name}:{i}:{a[:30]}", nontrivial=st1 == "ok" and "Un(" in a)
            h.count(f"postponed-annotations:{name}")
            if a != c:
                h.fail(f"{name}.genotype_to_phenotype", "same-genotype-different-program",
                       f"grammar declared under postponed annotations: genotype #{i} maps to {a[:100]} and, mapped again, to {c[:100]}", [name, i])
                break
            if name == "DynamicSGE" and st1 == "ok" and (len(ge.dna), sum(len(v) for v in ge.dna.values())) != (keys1, genes1):
                h.fail("DynamicSGE.genotype_to_phenotype", "remapping-draws-new-genes",
                       f"grammar declared under postponed annotations: the second mapping of dynamic-SGE genotype #{i} grew it from {keys1} gene lists / "
                       f"{genes1} genes to {len(ge.dna)} / {sum(len(v) for v in ge.dna.values())}", [name, i])
                break


def grammar_events_scenario(h: Harness, rng):
    """the program of a genotype is determined by the genotype and the grammar as it IS: (1) after `Grammar.update_weights` changed
    the production weights, a representation built BEFORE the update maps a genotype to the same program as one built after it;
    (2) extracting another grammar over some of the same (unweighted) classes changes nothing for this one: the same genotype maps
    to the same program before and after"""
    from geneticengine.grammar.grammar import extract_grammar
    C = gram.ClassSpec
    # (1) weighted grammar, plain fields (the stack mapping reads the weights at every step, the progressive decider at every choice)
    spec = gram.Spec([C("A0", True, None), C("Lit", False, 0, [("k", "int")], weight=1), C("Var", False, 0, [("b", "bool")], weight=1),
                      C("Neg", False, 0, [("e", ("cls", 0))], weight=1), C("Add", False, 0, [("l", ("cls", 0)), ("r", ("cls", 0))], weight=1)], 0, [1, 2, 3, 4])
    b = gram.build(spec)
    g = b.extract()
    shared = NativeRandomSource(rng.randrange(10**6))
    mk = {"Stack": lambda: Stack(g, gene_length=128), "GE": lambda: GE(g, synth.make_decider("progressive", 4, shared, g), gene_length=64),
          "SGE": lambda: SGE(g, synth.make_decider("progressive", 4, shared, g), gene_length=32)}
    old_reps = {n: f() for n, f in mk.items()}
    genos = {n: [old_reps[n].create_genotype(shared) for _ in range(h.n(12, 60))] for n in mk}
    for n in mk:
        for ge in genos[n]:
            safe(lambda: old_reps[n].genotype_to_phenotype(ge))
    g.update_weights(1.0, {c: w for c, w in zip(b.classes, [0.0, 5.0, 0.0, 1.0, 0.0])})       # (learning: Lit and Neg gain weight)
    new_reps = {n: f() for n, f in mk.items()}
    for n in mk:
        for i, ge in enumerate(genos[n]):
            st1, p1 = safe(lambda: old_reps[n].genotype_to_phenotype(ge))
            st2, p2 = safe(lambda: new_reps[n].genotype_to_phenotype(ge))
            a, c = (repr(p1) if st1 == "ok" else f"error:{p1}"), (repr(p2) if st2 == "ok" else f"error:{p2}")
            h.seen(f"weights-updated:{n}:{i}:{a[:40]}", nontrivial=st1 == "ok")
            if a != c:
                h.fail(f"{n}.genotype_to_phenotype", "same-genotype-different-program",
                       f"after Grammar.update_weights: genotype #{i} maps to {a[:100]} through the {n} representation built before the update and to {c[:100]} "
                       f"through one built after it (same grammar object, same genes)", [n, i])
                break
        h.count(f"grammar-events:weights-updated:{n}")
    # (2) unweighted grammar with a nested abstract class; another grammar over two of its classes comes into being between two mappings
    spec = gram.Spec([C("A0", True, None), C("A1", True, 0), C("Lit", False, 1, [("k", "int")]), C("Var", False, 1, [("b", "bool")]),
                      C("Neg", False, 0, [("e", ("cls", 0))]), C("Add", False, 0, [("l", ("cls", 0)), ("r", ("cls", 1))])], 0, [2, 3, 4, 5, 1])
    b = gram.build(spec)
    g = b.extract()
    reps = {"Stack": Stack(g, gene_length=128), "GE": GE(g, synth.make_decider("progressive", 4, shared, g), gene_length=64),
            "SGE": SGE(g, synth.make_decider("progressive", 4, shared, g), gene_length=32)}
    genos = {n: [reps[n].create_genotype(shared) for _ in range(h.n(12, 60))] for n in reps}
    first = {n: [safe(lambda: reps[n].genotype_to_phenotype(ge)) for ge in genos[n]] for n in reps}
    extract_grammar([b.classes[2], b.classes[5]], b.classes[0])        # a smaller language over two of the same classes
    for n in reps:
        for i, ge in enumerate(genos[n]):
            st2, p2 = safe(lambda: reps[n].genotype_to_phenotype(ge))
            st1, p1 = first[n][i]
            a, c = (repr(p1) if st1 == "ok" else f"error:{p1}"), (repr(p2) if st2 == "ok" else f"error:{p2}")
            h.seen(f"other-grammar:{n}:{i}:{a[:40]}", nontrivial=st1 == "ok")
            if a != c:
                h.fail(f"{n}.genotype_to_phenotype", "same-genotype-different-program",
                       f"genotype #{i} mapped to {a[:100]}; after an unrelated extract_grammar() over two of the (unweighted) classes the same genotype maps to "
                       f"{c[:100]} (same representation, same grammar object)", [n, i])
                break
        h.count(f"grammar-events:other-grammar:{n}")


def tight_stack_budget_scenario(h: Harness, rng):
    """a stack representation configured so tightly (few genes, a small failure allowance) that many genomes do NOT map: whether a
    genome maps, and to what, depends on the genome and the grammar -- not on how many other mappings failed before.  Several genomes,
    three interleaved rounds, every genome the same outcome in every round"""
    from linear import Stack, safe
    from props import steps_common as sc
    from geneticengine.grammar.grammar import extract_grammar
    g = extract_grammar([sc.Leaf, sc.Node], sc.Root)
    for trial in range(h.n(12, 120)):
        gl, fl = rng.choice([(16, 2), (24, 3), (32, 5), (64, 10), (48, 4), (20, 8)])
        r = NativeRandomSource(rng.randrange(10**6))
        rep = Stack(g, gene_length=gl, failures_limit=fl)
        genos = [rep.create_genotype(r) for _ in range(7)]
        rounds = []
        for rnd in range(3):
            order = list(range(len(genos)))
            if rnd:
                rng.shuffle(order)
            out = {}
            for j in order:
                st, p = safe(lambda: rep.genotype_to_phenotype(genos[j]))
                out[j] = (st, repr(p))
            rounds.append(out)
        failed = sum(1 for j in rounds[0] if rounds[0][j][0] != "ok")
        h.count("tight-stack-budget:genomes", len(genos))
        h.count("tight-stack-budget:genomes-that-do-not-map", failed)
        h.seen(f"tight-stack:{trial}:{gl}:{fl}", nontrivial=0 < failed < len(genos))
        for j in range(len(genos)):
            outs = [rnd[j] for rnd in rounds]
            if any(o != outs[0] for o in outs):
                k = next(i for i, o in enumerate(outs) if o != outs[0])
                h.fail("Stack.genotype_to_phenotype", "same-genotype-different-program",
                       f"stack representation with gene_length={gl}, failures_limit={fl}: genome #{j} gave {outs[0][0]}:{outs[0][1][:80]} in round 1 and "
                       f"{outs[k][0]}:{outs[k][1][:80]} in round {k + 1} ({failed} of {len(genos)} genomes did not map in round 1; the rounds map all genomes, in another order)",
                       [trial, gl, fl, j])
                break


def node_valued_dependencies_scenario(h: Harness, rng):
    """a Dependent refinement that depends on a plain value AND on a node (an eq-dataclass instance): what a genotype maps to does not depend
    on which genotype was mapped just before it -- several genotypes mapped in one order, then in another, the same program each time
    (and the dependent value inside the range its own siblings dictate)"""
    import ctxgrammar
    from linear import DSGE, GE, SGE, safe
    g = ctxgrammar.registers_grammar()
    for trial in range(h.n(6, 50)):
        r = NativeRandomSource(rng.randrange(10**6))
        reps = [("GE", GE(g, synth.make_decider("grow", 3, r, g), gene_length=48)), ("SGE", SGE(g, synth.make_decider("grow", 3, r, g), gene_length=24)),
                ("DynamicSGE", DSGE(g, 3))]
        for name, rep in reps:
            genos = []
            for _ in range(8):
                st, ge = safe(lambda: rep.create_genotype(r))
                if st == "ok":
                    genos.append(ge)
            first = {}
            for j, ge in enumerate(genos):
                st, p = safe(lambda: rep.genotype_to_phenotype(ge))
                first[j] = (st, repr(p), p)
            order = list(range(len(genos)))
            rng.shuffle(order)
            h.count(f"node-valued-dependencies:{name}", len(genos))
            h.seen(f"node-deps:{name}:{trial}", nontrivial=len(genos) >= 2)
            for j in order:
                st, p = safe(lambda: rep.genotype_to_phenotype(genos[j]))
                if (st, repr(p)) != first[j][:2]:
                    h.fail(f"{name}.genotype_to_phenotype", "same-genotype-different-program",
                           f"grammar with a Dependent on (a bool, a node): genotype #{j} mapped to {first[j][1][:90]} the first time and to {repr(p)[:90]} when the "
                           f"genotypes were mapped again in the order {order}", [name, trial, j])
                    break
                if st == "ok":
                    bad = ctxgrammar.register_violations(p)
                    if bad:
                        h.fail(f"{name}.genotype_to_phenotype", "same-genotype-different-program",
                               f"grammar with a Dependent on (a bool, a node): re-mapping genotype #{j} gave {bad[0]} -- a refinement built for ANOTHER program's "
                               f"siblings", [name, trial, j, "range"])
                        break


def run(h: Harness):
    rng = h.rng
    tight_stack_budget_scenario(h, rng)
    node_valued_dependencies_scenario(h, rng)
    decider_state_scenario(h, rng)
    persistent_handler_scenario(h, rng)
    short_lived_genotypes_scenario(h, rng)
    dsge_family_scenario(h, rng)
    read_only_calls_scenario(h, rng)
    postponed_annotations_scenario(h, rng)
    grammar_events_scenario(h, rng)
    C = gram.ClassSpec
    # fixed grammars with PLAIN float / str fields (drawn through the derived primitives of the gene-backed sources)
    fixed = [gram.Spec([C("A0", True, None), C("L", False, 0, [("x", "float")]), C("N", False, 0, [("l", ("cls", 0)), ("r", ("cls", 0))])], 0, [1, 2]),
             gram.Spec([C("A0", True, None), C("M", False, 0, [("y", "float"), ("k", "int"), ("z", "float")]), C("W", False, 0, [("e", ("cls", 0)), ("f", "float")])], 0, [1, 2])]
    for gi in range(3 * len(fixed) + h.n(40, 600)):
        refined = rng.random() < 0.5
        opts = {"ann": refined, "float": rng.random() < 0.3, "str": False}
        backtracking = refined and rng.random() < 0.25
        if gi < 3 * len(fixed):
            import copy
            spec = copy.deepcopy(fixed[gi % len(fixed)])
            refined = True      # (keep the fields as declared)
            h.count("plain-float-grammar")
        elif backtracking:
            # a production that raises SynthesisException in some contexts (and is then abandoned for another one)
            import props.c10 as c10
            spec = c10.backtracking_spec(rng)
            h.count("backtracking-grammar")
        else:
            spec = gram.productive_spec(rng, max_classes=rng.choice([3, 4, 6]), opts=opts)
        if not refined:
            for c in spec.classes:
                c.fields = [(n, ("int" if isinstance(t, tuple) and t[0] == "ann" else t)) for n, t in c.fields]
        if refined and rng.random() < 0.5:
            # refinements whose range a single dSGE gene (0..1024) cannot cover
            for c in spec.classes:
                c.fields = [(n, (("ann", "int", ("intRange", rng.choice([0, 1, -70000]), rng.choice([5000, 65535, 10**6])))
                                 if (isinstance(t, tuple) and t[0] == "ann" and t[1] == "int" and rng.random() < 0.6) else t))
                            for n, t in c.fields]
            h.count("wide-refined-ranges")
        if rng.random() < 0.25:
            # a CONCRETE start symbol: decider state (PI-grow's flag) is then not reset by the first choice
            n = len(spec.classes)
            spec.classes.append(gram.ClassSpec(f"S{n}", False, None, [("a", ("cls", 0)), ("b", ("cls", 0))][: rng.randint(1, 2)]))
            spec.start = n
            h.count("concrete-start-symbol")
        b = gram.build(spec)
        try:
            g = b.extract()
        except Exception:  # noqa: BLE001
            continue
        mind = g.get_min_tree_depth()
        if mind >= 1000000:
            continue
        if refined and rng.random() < 0.35:
            # the grammar object has a history: the classes were used by a first grammar, then refinements were re-declared
            # in place and the grammar extracted again -- mapping depends on genotype and (this) grammar alone
            changed = False
            synth.create(b, "grow", mind + 2, [rng.randrange(0, 1000) for _ in range(64)])
            for ci, c in enumerate(spec.classes):
                for fn, ft in list(c.fields):
                    if isinstance(ft, tuple) and ft[0] == "ann" and ft[1] == "int" and ft[2][0] == "intRange":
                        gram.retarget(b, ci, fn, ("ann", "int", ("intRange", ft[2][1] + 100, ft[2][2] + 150)))
                        changed = True
            if changed:
                try:
                    g = b.extract()
                except Exception:  # noqa: BLE001
                    continue
                h.count("retargeted-grammar")
                # the same genes mapped under an IDENTICAL grammar without a history (freshly built classes) give the same program
                b2 = gram.build(spec)
                try:
                    g2 = b2.extract()
                except Exception:  # noqa: BLE001
                    g2 = None
                if g2 is not None:
                    for _ in range(6):
                        dna = [rng.randrange(0, 10**6) for _ in range(32)]
                        outs = []
                        for (bb, gg) in ((b, g), (b2, g2)):
                            src0 = NativeRandomSource(1)
                            rep0 = GE(gg, synth.make_decider("grow", mind + 2, src0, gg), gene_length=32)
                            st, p = safe(lambda: rep0.genotype_to_phenotype(type(rep0.create_genotype(src0))(dna=list(dna))))
                            outs.append(sx(["ok", gram.canon(p, bb)] if st == "ok" else ["err", p]))
                        if outs[0] != outs[1]:
                            h.fail("GE.genotype_to_phenotype", "same-genotype-different-program",
                                   f"genes {dna[:6]}... map to {outs[0][:120]} under the re-extracted grammar and to {outs[1][:120]} under an identical "
                                   f"grammar built from fresh classes", [sx(gram.spec_sx(spec)), dna])
                            break
        h.count("refined-grammar" if refined else "unrefined-grammar")
        line_spec = gram.spec_sx(spec)
        d = mind + rng.choice([1, 2, 3, 4])
        kind = rng.choice(["grow", "full", "pigrow", "pigrow"])
        seedv = rng.randrange(10**6)

        # GE / SGE: the decider is constructed with the shared source, as in the library's tests
        for name, cls, glen in (("GE", GE, rng.choice([8, 32, 64])), ("SGE", SGE, rng.choice([8, 32]))):
            shared = CountingSource(NativeRandomSource(seedv))
            dec = synth.make_decider(kind, d, shared, g)
            rep = cls(g, dec, gene_length=glen)

            def ml(h, site, geno, dna, res, nontrivial, first_calls, name=name):
                op = "map_ge" if name == "GE" else "map_sge"
                h.agree(site, [op, line_spec, [kind, d], dna], res, nontrivial=nontrivial)
            check_rep(h, name, rep, spec, b, shared, rng, ml)

        # dynamic SGE: scripted shared source so the model can replay the on-demand extension
        draws = [rng.randrange(0, 5000) for _ in range(400)]
        shared = CountingSource(ScriptedSource(draws))
        rep = DSGE(g, d)

        def ml_dsge(h, site, geno, dna, res, nontrivial, first_calls):
            inner: ScriptedSource = shared.inner
            start = inner.pos - first_calls
            h.agree(site, ["map_dsge", line_spec, d, dna, inner.draws[start:start + first_calls + 8]],
                    [res, linear.dsge_sx(geno.dna, b), first_calls], nontrivial=nontrivial)
        check_rep(h, "DynamicSGE", rep, spec, b, shared, rng, ml_dsge)

        # stack-based: the symbol order (sorted by str) is handed to the model
        shared = CountingSource(NativeRandomSource(seedv))
        rep = Stack(g, gene_length=rng.choice([64, 256]))
        degenerate = any(g.distanceToTerminal[s] >= 1000000 for s in g.all_nodes)
        try:
            try:
                from geneticengine.representations.stackgggp import ordered_symbols
                syms = ordered_symbols(g)
            except ImportError:
                syms = sorted(g.get_all_mentioned_symbols(), key=str)
            order = [gram.ty_sx(b.spec_ty(t)) for t in syms]
            if len({sx(o) for o in order}) < len(order):
                # two refinement OBJECTS with equal parameters (the same refined type written in two fields) are two symbols -- two
                # stacks -- for the implementation and one for the model, which identifies a symbol with its type: not compared
                order = None
                h.count("stack:twin-refinements-not-compared-with-the-model")
        except Exception:  # noqa: BLE001
            order = None

        declared_limit = rep.failures_limit     # (as configured: the model is told what the user set, not what the object holds later)

        def ml_stack(h, site, geno, dna, res, nontrivial, first_calls):
            h.agree(site, ["map_stack", line_spec, order, declared_limit, dna], res, nontrivial=nontrivial)
        check_rep(h, "Stack", rep, spec, b, shared, rng, ml_stack if (order is not None and not degenerate) else None)
