"""Shared implementation-side machinery for C12 / C13 / C14: a representation whose genotype
carries a scripted fitness key (so any history of fitness values can be forced through the REAL
trackers, evaluators and search loops), recorders and budgets that spy on the real objects, and
fitness functions that log their invocations (in memory, or to a file so that the worker
processes of ParallelEvaluator are counted too).
"""
from __future__ import annotations

import os
import time
from typing import Any, Callable

from geneticengine.evaluation.budget import SearchBudget
from geneticengine.evaluation.recorder import SearchRecorder
from geneticengine.problems import MultiObjectiveProblem, Problem, SingleObjectiveProblem
from geneticengine.representations.api import (
    Representation,
    RepresentationWithCrossover,
    RepresentationWithMutation,
)
from geneticengine.solutions.individual import Individual


class CheckCap(Exception):
    """Raised by SpyBudget after too many budget checks: the search would not terminate."""


class ScriptRep(Representation, RepresentationWithMutation, RepresentationWithCrossover):
    """Genotype = phenotype = (uid, key).  `uid` numbers the genotypes in creation order, `key` is
    the next element of `keys` (cycled) -- whatever the fitness function makes of it."""

    def __init__(self, keys):
        self.keys = list(keys)
        self.n = 0

    def _new(self):
        k = self.n
        self.n += 1
        return (k, self.keys[k % len(self.keys)])

    def create_genotype(self, random, **kwargs):
        return self._new()

    def genotype_to_phenotype(self, genotype):
        return genotype

    def mutate(self, random, genotype, **kwargs):
        return self._new()

    def crossover(self, random, parent1, parent2):
        return (self._new(), self._new())


class MutationOnlyRep(Representation, RepresentationWithMutation):
    def __init__(self, keys):
        self.inner = ScriptRep(keys)

    def create_genotype(self, random, **kwargs):
        return self.inner._new()

    def genotype_to_phenotype(self, genotype):
        return genotype

    def mutate(self, random, genotype, **kwargs):
        return self.inner._new()


class ByProgram(tuple):
    """genotype (uid, key) that compares by the PROGRAM (key) alone, the way tree genotypes compare structurally; the uid
    is the harness's bookkeeping"""

    def __eq__(self, other):
        return isinstance(other, tuple) and len(other) == 2 and self[1] == other[1]

    def __ne__(self, other):
        return not self.__eq__(other)

    def __hash__(self):
        return hash(self[1])


class StructuralRep(ScriptRep):
    """ScriptRep whose genotypes compare structurally: with a single key the search space holds exactly one program
    (every mutation re-draws what was already there, every crossover swaps equal material)"""

    def _new(self):
        return ByProgram(super()._new())


class Ph(tuple):
    """a phenotype whose pretty-printer does not tell programs apart (a user's `__str__` that abbreviates)"""

    def __str__(self):
        return "<program>"


class LossyStrRep(ScriptRep):
    def genotype_to_phenotype(self, genotype):
        return Ph(genotype)


def mk_ind(uid: int, key: Any, rep: Representation | None = None) -> Individual:
    return Individual(genotype=(uid, key), representation=rep or ScriptRep([0]))


def uid(ind: Individual) -> int:
    return ind.genotype[0]


def as_int(x: float) -> int:
    """fitness floats used by the harness are integer-valued; carry them exactly"""
    i = int(round(x))
    assert float(i) == float(x), f"non-integral fitness {x!r}"
    return i


class Recording(SearchRecorder):
    """Records every register() call: (uid, Fitness, is_best, counter, best uid(s) at that time)."""

    def __init__(self):
        self.rows: list[dict] = []

    def register(self, tracker: Any, individual: Individual, problem: Problem, is_best: bool):
        f = individual.get_fitness(problem)
        row = {
            "uid": uid(individual),
            "agg": f.maximizing_aggregate,
            "comps": list(f.fitness_components),
            "is_best": is_best,
            "count": tracker.get_number_evaluations(),
        }
        if hasattr(tracker, "get_best_individuals"):
            row["front"] = [uid(i) for i in tracker.get_best_individuals()]
        b = tracker.get_best_individual()
        row["best"] = None if b is None else uid(b)
        self.rows.append(row)


class SpyBudget(SearchBudget):
    """Wraps a real budget: records, at every check, the evaluator's counter, how many
    registrations the recorder has seen, and the best individual's first component; raises
    CheckCap after `cap` checks so that a non-terminating search becomes an observation."""

    def __init__(self, inner: SearchBudget, rec: Recording, cap: int):
        self.inner, self.rec, self.cap = inner, rec, cap
        self.checks: list[dict] = []

    def is_done(self, tracker):
        b = tracker.get_best_individual()
        comp = None
        if b is not None:
            comp = b.get_fitness(tracker.get_problem()).fitness_components[0]
        self.checks.append({"count": tracker.get_number_evaluations(), "regs": len(self.rec.rows), "comp": comp})
        done = self.inner.is_done(tracker)
        if not done and len(self.checks) > self.cap:
            raise CheckCap()
        return done


class MemLog:
    """In-process invocation log."""

    def __init__(self):
        self.entries: list[tuple[int, int]] = []

    def add(self, tag: int, u: int):
        self.entries.append((tag, u))

    def read(self):
        return list(self.entries)


class FileLog:
    """Append-only invocation log on disk (O_APPEND, one short line per call): survives the
    process boundary of ParallelEvaluator's workers."""

    def __init__(self, path: str):
        self.path = path
        open(path, "w").close()

    def add(self, tag: int, u: int):
        fd = os.open(self.path, os.O_WRONLY | os.O_APPEND)
        try:
            os.write(fd, f"{tag} {u}\n".encode())
        finally:
            os.close(fd)

    def read(self):
        out = []
        with open(self.path) as f:
            for line in f:
                a, b = line.split()
                out.append((int(a), int(b)))
        return out


def logging_ff(log, tag: int, table: Callable[[Any], Any], delays: dict[int, float] | None = None):
    """fitness function phenotype=(uid,key) -> table(key); logs (tag, uid) on every invocation;
    optional per-individual delay (perturbs the order in which pool workers complete)."""

    def ff(ph):
        u, key = ph
        if delays:
            d = delays.get(u, 0.0)
            if d:
                time.sleep(d)
        log.add(tag, u)
        return table(key)

    return ff
