"""C11 -- per-node size and depth metadata matches the actual program structure.

Implementation: the `gengy_*` attributes on every node / GengyList of programs created by the
tree deciders and after mutation / crossover.  Model: lean/GEVerif/Model/Labels.lean.
"""
from __future__ import annotations

import warnings

import gram
import synth
from core import Harness, ScriptedSource, sx

from geneticengine.representations.tree.treebased import TreeBasedRepresentation
from geneticengine.solutions.tree import GengyList

RULE = ("programs created by every tree decider on generated productive grammars (lists of nodes, nested lists, tuples of "
        "nodes, unions), then 1..k mutations / crossovers; every node and list of every program is compared; tree-depth mode "
        "only (expansion_depthing=False); non-trivial = program with a list or tuple containing a node, or >= 3 nodes")
ASSUMPTIONS = [
    "expansion-depthing mode (abstract_dist_to_t adjustments) is not modelled for labels; the harness uses tree-depth mode",
    "label convention: terminals = base values and field-less class instances (labels 0), containers transparent (DESIGN.md C11)",
]

BASEKEY = {int: "int", float: "float", str: "str", bool: "bool", tuple: "tuple", GengyList: "list"}


def key_of(b, t):
    if t in BASEKEY:
        return BASEKEY[t]
    if t in b.index:
        return ["cls", b.index[t]]
    return "other"


def key_idx(k):
    if isinstance(k, str):
        return {"int": 0, "float": 1, "str": 2, "bool": 3, "tuple": 4, "list": 5, "other": 1000000}[k]
    return 6 + k[1]


def labels_of(v, b):
    """Pre-order list of the labels stored on every node / GengyList."""
    out = []

    def lab(x):
        try:
            tw = x.gengy_types_this_way
            counts = sorted(([key_of(b, k), len(vs)] for k, vs in tw.items() if len(vs) > 0), key=lambda p: key_idx(p[0]))
            return [x.gengy_nodes, x.gengy_distance_to_term, x.gengy_weighted_nodes, counts]
        except AttributeError:
            return ["x", "nolabel"]

    def walk(x):
        if type(x) in b.index:
            out.append(lab(x))
            for n in getattr(type(x), "__gengy_field_names__", ()):
                walk(getattr(x, n))
        elif isinstance(x, GengyList):
            out.append(lab(x))
            for e in x:
                walk(e)
        elif isinstance(x, (tuple, list)):
            for e in x:
                walk(e)

    walk(v)
    return out


def check_labels(h: Harness, site, spec, b, v):
    line_spec = gram.spec_sx(spec)
    c = gram.canon(v, b)
    s = sx(c)
    labs = labels_of(v, b)
    nontrivial = ("(l " in s and "(n " in s) or s.count("(n ") >= 3 or "(t (n" in s
    h.agree(site, ["labels", line_spec, c], labs, nontrivial=nontrivial)
    h.holds(site, "labels-differ-from-structure", ["prop_labels", line_spec, c, labs],
            f"gengy_* metadata differs from an independent traversal of {s[:240]}", [sx(line_spec), s])
    # the type index of the root lists the nodes of each type in the order a traversal meets them (the node itself, then its fields in
    # declaration order, containers element by element): the operators pick "the i-th node of type T" by position
    if type(v) in b.index and isinstance(getattr(v, "gengy_types_this_way", None), dict):
        order: dict = {}

        def pre(x):
            if isinstance(x, (list, tuple)):
                for e in x:
                    pre(e)
            elif type(x) in b.index:
                order.setdefault(type(x), []).append(id(x))
                for n_ in getattr(type(x), "__gengy_field_names__", ()):
                    pre(getattr(x, n_, None))
        pre(v)
        for t, objs in v.gengy_types_this_way.items():
            if t in b.index and sorted(id(o) for o in objs) == sorted(order.get(t, [])) and [id(o) for o in objs] != order.get(t, []):
                h.fail(site, "labels-differ-from-structure",
                       f"the type index of the root lists the {len(objs)} {t.__name__} nodes of the program in another order than a traversal meets them "
                       f"(positions {[order[t].index(id(o)) for o in objs][:8]}): {s[:160]}", [sx(line_spec), s, "order"])
                break
    # the type index of the root lists OBJECTS: exactly the production instances of THIS program (by identity, not by equality)
    if type(v) in b.index and isinstance(getattr(v, "gengy_types_this_way", None), dict):
        mine, todo = {}, [v]
        while todo:
            x = todo.pop()
            if isinstance(x, (list, tuple)):
                todo += list(x)
            elif type(x) in b.index:
                mine[id(x)] = x
                todo += [getattr(x, n_, None) for n_ in getattr(type(x), "__gengy_field_names__", ())]
        for t, objs in v.gengy_types_this_way.items():
            if t not in b.index:
                continue
            strangers = [o for o in objs if id(o) not in mine]
            if strangers:
                h.fail(site, "labels-differ-from-structure",
                       f"the type index of the root lists {len(strangers)} {t.__name__} object(s) that are not part of this program "
                       f"(an equal-looking node of another program?): {s[:160]}", [sx(line_spec), s])
                break
        else:
            listed = {id(o) for t, objs in v.gengy_types_this_way.items() if t in b.index for o in objs}
            missing = [x for i_, x in mine.items() if i_ not in listed]
            if missing:
                h.fail(site, "labels-differ-from-structure",
                       f"the type index of the root does not list {len(missing)} production instance(s) of its own program, e.g. a {type(missing[0]).__name__}: {s[:160]}",
                       [sx(line_spec), s])


def check_mapped_programs(h: Harness, spec, b, g, mind, rng):
    """programs built from linear / structured genotypes (GE, SGE, dynamic SGE, stack) are programs the
    library creates too"""
    from linear import DSGE, GE, SGE, Stack, safe
    from geneticengine.random.sources import NativeRandomSource
    d = mind + rng.choice([1, 2, 3])
    shared = NativeRandomSource(rng.randrange(10**6))
    reps = [("GE", GE(g, synth.make_decider("grow", d, shared, g), gene_length=32)),
            ("SGE", SGE(g, synth.make_decider("grow", d, shared, g), gene_length=32)),
            ("DynamicSGE", DSGE(g, d)), ("Stack", Stack(g, gene_length=128))]
    for name, rep in reps:
        st, geno = safe(lambda: rep.create_genotype(shared))
        if st != "ok":
            continue
        for op in ("create", "mutate"):
            if op == "mutate":
                st, geno = safe(lambda: rep.mutate(shared, geno))
                if st != "ok":
                    break
            st, p = safe(lambda: rep.genotype_to_phenotype(geno))
            if st != "ok":
                continue
            h.count(f"mapped:{name}")
            site = f"{name}.genotype_to_phenotype"
            if type(p) in b.index and not hasattr(p, "gengy_nodes"):
                h.fail(site, "program-carries-no-metadata", f"the program {sx(gram.canon(p, b))[:160]} carries no gengy_nodes / gengy_distance_to_term / "
                       "gengy_weighted_nodes / gengy_types_this_way at all", [sx(gram.spec_sx(spec)), name])
                continue
            check_labels(h, site, spec, b, p)


def stack_lists_of_abstract_elements(h: Harness):
    """the stack representation on a CONCRETE start symbol that needs a list of an abstract element type (Expr > Num > Lit: the elements
    sit two abstract expansions below their declared type), in both depth modes: lists -- non-empty ones included -- and everything above
    them carry the counts a traversal gives"""
    from linear import Stack, safe
    from geneticengine.random.sources import NativeRandomSource
    C = gram.ClassSpec
    rng = h.rng
    for expansion in (True, False):
        spec = gram.Spec([C("Expr", True, None), C("Num", True, 0), C("Lit", False, 1, [("v", ("ann", "int", ("intRange", 0, 9)))]),
                          C("Neg", False, 0, [("e", ("cls", 0))]),
                          C("Block", False, None, [("xs", ("list", ("cls", 0))), ("k", ("ann", "int", ("intRange", 0, 3)))])], 4, [2, 3, 4, 1], expansion)
        b = gram.build(spec)
        g = b.extract()
        rep = Stack(g, gene_length=256)
        nonempty = 0
        for trial in range(h.n(40, 300)):
            r = NativeRandomSource(rng.randrange(10**6))
            st, geno = safe(lambda: rep.create_genotype(r))
            if st != "ok":
                continue
            st, p = safe(lambda: rep.genotype_to_phenotype(geno))
            if st != "ok":
                continue
            h.count("stack-lists-of-abstract-elements")
            nonempty += bool(getattr(p, "xs", None))
            check_labels(h, "Stack.genotype_to_phenotype", spec, b, p)
        h.seen(f"stack-lists:{expansion}", nontrivial=nonempty > 0)
        h.count("stack-lists-of-abstract-elements:non-empty", nonempty)


def context_programs(h: Harness):
    from geneticengine.random.sources import NativeRandomSource
    from geneticengine.representations.tree.initializations import MaxDepthDecider, PositionIndependentGrowDecider
    import ctxgrammar
    spec, b = ctxgrammar.make()
    g = b.grammar
    for seed in range(h.n(12, 120)):
        r = NativeRandomSource(seed)
        for mk in (MaxDepthDecider, PositionIndependentGrowDecider):
            rep = TreeBasedRepresentation(g, mk(r, g, 5))
            try:
                el = rep.create_genotype(r)
                progs = [("create_genotype[context-grammar]", el)]
                for _ in range(2):
                    progs.append(("TreeBasedRepresentation.mutate[context-grammar]", rep.mutate(r, el)))
            except Exception as e:  # noqa: BLE001
                h.count("context-grammar-error:" + type(e).__name__)
                continue
            for site, p in progs:
                c = gram.canon(p, b)
                s = sx(c)
                labs = labels_of(p, b)
                h.holds(site, "labels-differ-from-structure", ["prop_labels", gram.spec_sx(spec), c, labs],
                        f"gengy_* metadata differs from an independent traversal of {s[:240]} (context-passing grammar)", [seed, s],
                        nontrivial="(l " in s and s.count("(n ") >= 2)
                h.count("context-grammar-programs")


def palette_programs(h: Harness):
    """programs whose leaves are objects the user supplied (VarRange over instances of a terminal class): the same object can
    occur several times in one program, and the per-node type index lists one entry per OCCURRENCE, as a traversal does (and
    as the node counts do)"""
    import ctxgrammar
    from geneticengine.random.sources import NativeRandomSource
    from geneticengine.representations.tree.initializations import FullDecider, MaxDepthDecider
    for expansion in (False, True):
        for seed in range(h.n(10, 60)):
            g, classes = ctxgrammar.palette_grammar(expansion)
            r = NativeRandomSource(seed)
            rep = TreeBasedRepresentation(g, (FullDecider if seed % 2 else MaxDepthDecider)(r, g, g.get_min_tree_depth() + 2))
            try:
                progs = [rep.create_genotype(r)]
                progs.append(rep.mutate(r, progs[0]))
            except Exception as e:  # noqa: BLE001
                h.count("palette-grammar-error:" + type(e).__name__)
                continue
            for p in progs:
                want = ctxgrammar.palette_counts(p, classes)
                have = {k: len(v) for k, v in p.gengy_types_this_way.items()}
                h.count("palette-programs")
                h.seen(f"palette:{expansion}:{seed}:{repr(p)[:60]}", nontrivial=want.get(ctxgrammar.Colour, 0) >= 3)
                bad = [(k.__name__, have.get(k, 0), n) for k, n in want.items() if have.get(k, 0) != n]
                if bad:
                    h.fail("create_genotype[palette-grammar]", "labels-differ-from-structure",
                           f"{repr(p)[:160]}: the type index of the root lists {bad[0][1]} entries for {bad[0][0]}, a traversal finds {bad[0][2]} occurrences "
                           f"(expansion_depthing={expansion})", [expansion, seed])
                    break


def kinds_programs(h: Harness):
    """programs that hold CLASSES of the grammar as plain values (IsA(what, kind=<one of the productions>)): a class object in a
    field is a leaf like an int; every production instance of every program -- also of the programs created AFTER such a value was
    first used -- carries the size / depth / weighted size of its structure"""
    import ctxgrammar
    from geneticengine.random.sources import NativeRandomSource
    from geneticengine.representations.tree.initializations import FullDecider, MaxDepthDecider
    for seed in range(h.n(8, 50)):
        g, classes = ctxgrammar.kinds_grammar(abc_based=seed % 3 == 0)   # (for ABC-derived classes type(cls) is ABCMeta, not `type`)
        r = NativeRandomSource(seed)
        rep = TreeBasedRepresentation(g, (FullDecider if seed % 2 else MaxDepthDecider)(r, g, 4))
        progs = []
        try:
            for _ in range(6):
                progs.append(rep.create_genotype(r))
            progs.append(rep.mutate(r, progs[0]))
            progs += list(rep.crossover(r, progs[1], progs[2]))
        except Exception as e:  # noqa: BLE001
            h.fail("create_genotype[kinds-grammar]", "raises", f"creating programs that hold classes as values raised {type(e).__name__}: {e}"[:300], [seed])
            continue
        for p in progs:
            out = []
            ctxgrammar.kinds_measure(p, classes, out)
            h.count("kinds-programs")
            h.seen(f"kinds:{seed}:{repr(p)[:60]}", nontrivial="QIsA" in repr(p))
            bad = None
            for node, want in out:
                have = tuple(getattr(node, a, None) for a in ("gengy_nodes", "gengy_distance_to_term", "gengy_weighted_nodes"))
                if have != want:
                    bad = (node, have, want)
                    break
            if bad:
                h.fail("create_genotype[kinds-grammar]", "labels-differ-from-structure",
                       f"{repr(bad[0])[:120]} carries (nodes, depth, weighted)={bad[1]}, its structure has {bad[2]} (in {repr(p)[:120]})", [seed])
                break


def corpus():
    """fixed witnesses: a layered abstract hierarchy (Expr > Atom > Const > Lit) whose upper class types fields, plain and
    size-refined lists, tuples and unions of it -- in both depth modes"""
    C = gram.ClassSpec
    out = []
    for expansion in (True, False):
        # concrete recursive start symbol (tree crossover grafts donor subtrees of the start type), one production switched off
        out.append(gram.Spec([C("Expr", True, None), C("Lit", False, 0, [("v", ("ann", "int", ("intRange", 0, 9)))]),
                              C("Add", False, 0, [("l", ("cls", 0)), ("r", ("cls", 0))]), C("Mul", False, 0, [("l", ("cls", 0)), ("r", ("cls", 0))], weight=0),
                              C("Neg", False, 0, [("e", ("cls", 0))], weight=3)], 2, [1, 2, 3, 4], expansion))
        out.append(gram.Spec([C("Expr", True, None), C("Atom", True, 0), C("Const", True, 1), C("Lit", False, 2, [("v", ("ann", "int", ("intRange", 0, 9)))]),
                              C("Neg", False, 0, [("arg", ("cls", 0))]), C("Seq", False, 0, [("xs", ("list", ("cls", 0)))]),
                              C("Pair", False, 1, [("p", ("tuple", ("cls", 0), ("cls", 2)))]),
                              C("Bag", False, 0, [("ys", ("ann", ("list", ("cls", 1)), ("listSize", 1, 2))), ("u", ("union", ("cls", 2), "bool"))]),
                              C("Shelf", False, 0, [("zs", ("ann", ("list", ("cls", 0)), ("listSizeNoOps", 1, 2)))])],
                             0, [3, 4, 5, 6, 7, 8, 0, 1, 2], expansion))
    # siblings that reach equally far down but cost different numbers of abstract expansions (a field of a CONCRETE type next to a
    # field of an abstract type two levels above the same class), in expansion depthing
    out.append(gram.Spec([C("Expr", True, None), C("Atom", True, 0), C("Lit", False, 1, [("v", ("ann", "int", ("intRange", 0, 9)))]),
                          C("Neg", False, 0, [("e", ("cls", 0))]), C("Scale", False, 0, [("k", ("cls", 2)), ("e", ("cls", 0))]),
                          C("Elacs", False, 0, [("e", ("cls", 0)), ("k", ("cls", 2))])], 0, [2, 3, 4, 5, 1], True))
    # containers sitting DIRECTLY inside a tuple (a bounded list and a plain list as components of a tuple-typed field), both depth modes
    for expansion in (True, False):
        out.append(gram.Spec([C("Expr", True, None), C("Lit", False, 0, [("v", ("ann", "int", ("intRange", 0, 9)))]), C("Neg", False, 0, [("e", ("cls", 0))]),
                              C("Block", False, 0, [("body", ("tuple", ("ann", ("list", ("cls", 0)), ("listSize", 1, 2)), "int"))]),
                              C("Zip", False, 0, [("cols", ("tuple", ("list", ("cls", 1)), ("tuple", ("cls", 0), "bool")))])], 0, [1, 2, 3, 4], expansion))
    return out


def exercise(h: Harness, spec, rng, b=None):
    if True:
        b = b if b is not None else gram.build(spec)
        try:
            g = b.extract()
        except Exception:  # noqa: BLE001
            return
        mind = g.get_min_tree_depth()
        if mind >= 1000000:
            return
        if rng.random() < 0.4:
            check_mapped_programs(h, spec, b, g, mind, rng)
        for _ in range(3):
            kind = rng.choice(["grow", "full", "pigrow", "progressive"])
            depth = mind + rng.choice([0, 1, 2, 3])
            draws = [rng.randrange(0, 1000) for _ in range(128)]
            res, v, src = synth.create(b, kind, depth, draws)
            if v is None:
                continue
            h.count("created")
            check_labels(h, f"create_genotype[{kind}]", spec, b, v)
            # variation: programs reached by mutation / crossover must not carry stale values
            src2 = ScriptedSource([rng.randrange(0, 1000) for _ in range(256)])
            try:
                with warnings.catch_warnings():
                    warnings.simplefilter("ignore")
                    dec = synth.make_decider("grow", depth + 1, src2, g)
                    rep = TreeBasedRepresentation(g, dec)
                    m = rep.mutate(src2, v)
                    c1, c2 = rep.crossover(src2, v, m)
            except Exception as e:  # noqa: BLE001
                h.count("variation-error:" + type(e).__name__)
                continue
            for name, x in (("mutate", m), ("crossover", c1), ("crossover", c2)):
                check_labels(h, f"TreeBasedRepresentation.{name}", spec, b, x)
            # the parents (both served as donors of crossover material) must still be correctly labelled afterwards
            check_labels(h, "parent-after-variation", spec, b, v)
            check_labels(h, "parent-after-variation", spec, b, m)
            # a decider that was built from ANOTHER grammar object over the same classes (the other depth-counting mode, or the
            # usable sub-grammar, which is always in node mode): the programs of a representation carry the labels of the
            # representation's grammar
            if rng.random() < 0.35:
                from geneticengine.grammar.grammar import extract_grammar
                src3 = ScriptedSource([rng.randrange(0, 1000) for _ in range(256)])
                try:
                    with warnings.catch_warnings():
                        warnings.simplefilter("ignore")
                        g_other = extract_grammar(b.considered(), b.start, not spec.expansion) if rng.random() < 0.7 else g.usable_grammar()
                        rep2 = TreeBasedRepresentation(g, synth.make_decider(rng.choice(["grow", "pigrow"]), depth + 3, src3, g_other))
                        made = [rep2.create_genotype(src3)]
                        made.append(rep2.mutate(src3, v))
                        made += list(rep2.crossover(src3, v, made[0]))
                except Exception as e:  # noqa: BLE001
                    h.count("foreign-decider-error:" + type(e).__name__)
                    continue
                h.count("foreign-decider")
                for x in made:
                    check_labels(h, "TreeBasedRepresentation[decider of another grammar object]", spec, b, x)


def run(h: Harness):
    rng = h.rng
    context_programs(h)
    stack_lists_of_abstract_elements(h)
    palette_programs(h)
    kinds_programs(h)
    for spec in corpus():
        for _ in range(h.n(6, 20)):
            exercise(h, spec, rng)
        h.count("corpus-grammars")
    # real dataclasses with attributes that are not constructor parameters (before and after the parameters): not children
    import dcgrammar
    for considered, start in dcgrammar.GRAMMARS:
        for expansion in (False, True):
            spec, b = gram.reflect(considered, start, expansion)
            for _ in range(h.n(3, 12)):
                exercise(h, spec, rng, b=b)
            h.count("dataclass-grammars-with-non-constructor-attributes")
    for gi in range(h.n(150, 3000)):
        # a third of the grammars count depth by grammar expansion (extract_grammar(..., expansion_depthing=True))
        expansion = rng.random() < 0.33
        spec = gram.productive_spec(rng, max_classes=rng.choice([3, 4, 6]), opts={"float": False}, expansion=expansion)
        h.count("depth-mode:expansion" if expansion else "depth-mode:nodes")
        if gi % 4 == 1 and gram.concrete_recursive_start(spec, rng):
            h.count("concrete-recursive-start")       # tree crossover then finds donor subtrees of the start type
        if gi % 3 == 2:
            # some productions are switched off (weight 0) or weighted: deciders that ignore weights still build them
            for c in spec.classes:
                if not c.abstract and c.parent is not None and rng.random() < 0.4:
                    c.weight = rng.choice([0, 0, 2, 0.5])
            for a in range(len(spec.classes)):
                kids = [c for i, c in enumerate(spec.classes) if c.parent == a and (i in spec.considered or c.abstract)]
                if kids and all(c.weight is not None and c.weight == 0 for c in kids):
                    kids[0].weight = 1
            h.count("weighted-grammar")
        exercise(h, spec, rng)
