"""C14 -- searches terminate and stop at the first budget check after the budget is met.

Implementation side: the four real search algorithms (RandomSearch, HC, OnePlusOne,
GeneticProgramming with several step compositions) run with the real EvaluationBudget,
TargetFitness and AnyOf, each wrapped in a spy budget that records the evaluator's counter and the
best fitness at EVERY budget check (and raises after a cap of checks, so that a search that would
never return becomes an observation instead of a hang).  A recording SearchRecorder splits the
individuals handed to the tracker into the loop's iterations.
Model side: lean/GEVerif/Model/Eval.lean (`search`, `Algo`); theorems: lean/GEVerif/Props/C14.lean.
"""
from __future__ import annotations

import json
import os

from core import Harness

from props.eval_common import CheckCap, MutationOnlyRep, Recording, ScriptRep, SpyBudget, StructuralRep, uid

from geneticengine.algorithms.gp.gp import GeneticProgramming, default_generic_programming_step
from geneticengine.algorithms.gp.operators.combinators import ExclusiveParallelStep, ParallelStep, SequenceStep
from geneticengine.algorithms.gp.operators.crossover import GenericCrossoverStep
from geneticengine.algorithms.gp.operators.elitism import ElitismStep
from geneticengine.algorithms.gp.operators.mutation import GenericMutationStep
from geneticengine.algorithms.gp.operators.novelty import NoveltyStep
from geneticengine.algorithms.gp.operators.selection import TournamentSelection
from geneticengine.algorithms.hill_climbing import HC
from geneticengine.algorithms.one_plus_one import OnePlusOne
from geneticengine.algorithms.random_search import RandomSearch
from geneticengine.evaluation.budget import AnyOf, EvaluationBudget, SearchBudget, TargetFitness
from geneticengine.evaluation.sequential import SequentialEvaluator
from geneticengine.evaluation.tracker import MultiObjectiveProgressTracker, SingleObjectiveProgressTracker
from geneticengine.problems import MultiObjectiveProblem, SingleObjectiveProblem
from geneticengine.random.sources import NativeRandomSource

RULE = ("EvaluationBudget(n) for every n in 1..20 (thorough 1..40) x RandomSearch, OnePlusOne, HC with every neighbourhood size "
        "1..6 (thorough 1..12), GeneticProgramming with every population size 1..6 (thorough 1..12) and the step compositions "
        "default / elitism|novelty / tournament;crossover;mutation / novelty / mutation;tournament (progressing) and ElitismStep() / "
        "TournamentSelection(2) alone (non-progressing); plateau / improving / random fitness landscapes; single- (both directions) "
        "and multi-objective trackers; then TargetFitness and AnyOf (nested, both orders) budgets with reachable and unreachable "
        "targets.  Level A: stop index, counter at every check, final counter and returned individual equal the model's `runSearch` on "
        "the observed iterations; level B: Lean predicates propStops (n <= total < n + bound, earlier checks < n), shapeOk, propTarget, "
        "propAnyOf on the implementation's checks.  Exhaustive over the (n, size, algorithm) box; non-trivial = more than one budget check")
ASSUMPTIONS = [
    "TimeBudget is excluded by the property itself",
    "fitness values of target-budget runs are multiples of 3e-5 (model unit 1e-5, tolerance 0.0001 = 10 units), so no comparison sits on a float rounding boundary",
    "termination of GP with probabilistic steps (mutation probability < 1) holds with probability 1 only: the theorem carries the hypothesis Progress; "
    "the harness reports a run as non-terminating only when the counter is frozen over the last half of the check cap with the same individuals re-presented",
    "TargetFitness on a multi-objective tracker raises AssertionError (by its own assert); not generated",
]

UNIT = 1e-5


class Run:
    pass


def to_units(x: float, scale: float) -> int:
    if scale == 1:
        i = int(round(x))
        assert float(i) == float(x)
        return i
    return int(round(x / scale))


def make_problem(kind: str, scale: float):
    if kind == "multi":
        problem = MultiObjectiveProblem([False, True], lambda ph: [ph[1] * scale, 0.0])
        tracker_cls = MultiObjectiveProgressTracker
    else:
        problem = SingleObjectiveProblem(lambda ph: ph[1] * scale, minimize=(kind == "single-min"))
        tracker_cls = SingleObjectiveProgressTracker
    return problem, tracker_cls


GP_STEPS = {
    "default": default_generic_programming_step,
    "elitism|novelty": lambda: ParallelStep([ElitismStep(), NoveltyStep()], weights=[1, 1]),
    "tournament;crossover(1);mutation(1)": lambda: SequenceStep(TournamentSelection(2), GenericCrossoverStep(1), GenericMutationStep(1)),
    "novelty": lambda: NoveltyStep(),
    "mutation(1);tournament": lambda: SequenceStep(GenericMutationStep(1), TournamentSelection(2)),
    "tournament;mutation(1)": lambda: SequenceStep(TournamentSelection(2), GenericMutationStep(1)),
    "elitism|tournament;mutation(1)": lambda: ParallelStep([ElitismStep(), SequenceStep(TournamentSelection(2), GenericMutationStep(1))], weights=[1, 3]),
    # crossover LAST on its slice (nothing after it trims an odd slice), exclusive-parallel steps nested in a parallel step's slices
    "tournament;mutation(1);crossover(1)": lambda: SequenceStep(TournamentSelection(2), GenericMutationStep(1), GenericCrossoverStep(1)),
    "novelty|xpar[mutation(1),crossover(1)]": lambda: ParallelStep([NoveltyStep(), ExclusiveParallelStep([GenericMutationStep(1), GenericCrossoverStep(1)])], weights=[1, 3]),
    "elitism|xpar[mutation(1),crossover(1)]": lambda: ParallelStep([ElitismStep(), ExclusiveParallelStep([GenericMutationStep(1), GenericCrossoverStep(1)], [2, 1])], weights=[1, 9]),
    # slices whose rounded shares overshoot the population (a trailing weight of zero, or a tiny one): the generation still has
    # exactly population_size members, so at most that many evaluations fall between two budget checks
    "novelty|tournament;mutation(1)|novelty[1,1,0]": lambda: ParallelStep(
        [NoveltyStep(), SequenceStep(TournamentSelection(2), GenericMutationStep(1)), NoveltyStep()], weights=[1, 1, 0]),
    "novelty|novelty|tournament;mutation(1)|novelty[1,1,1,0.1]": lambda: ParallelStep(
        [NoveltyStep(), NoveltyStep(), SequenceStep(TournamentSelection(2), GenericMutationStep(1)), NoveltyStep()], weights=[1, 1, 1, 0.1]),
    # a parallel step that is NOT the outermost one (its input is what the selection before it yields: a one-shot stream), and an
    # exclusive-parallel step one of whose shares rounds to nothing
    "tournament(3);par[elitism|mutation(1)][1,4]": lambda: SequenceStep(TournamentSelection(3), ParallelStep([ElitismStep(), GenericMutationStep(1)], weights=[1, 4])),
    "tournament;par[mutation(1)|tournament;crossover(1)|novelty][2,2,1]": lambda: SequenceStep(
        TournamentSelection(2), ParallelStep([GenericMutationStep(1), SequenceStep(TournamentSelection(2), GenericCrossoverStep(1)), NoveltyStep()], weights=[2, 2, 1])),
    "xpar[mutation(1),novelty][19,1]": lambda: ExclusiveParallelStep([GenericMutationStep(1), NoveltyStep()], [19, 1]),
    "elitism|xpar[mutation(1),novelty][19,1]": lambda: ParallelStep([ElitismStep(), ExclusiveParallelStep([GenericMutationStep(1), NoveltyStep()], [19, 1])], weights=[1, 9]),
    "elitism": lambda: ElitismStep(),
    "tournament": lambda: TournamentSelection(2),
}
NESTED = ["tournament(3);par[elitism|mutation(1)][1,4]", "tournament;par[mutation(1)|tournament;crossover(1)|novelty][2,2,1]", "xpar[mutation(1),novelty][19,1]",
          "elitism|xpar[mutation(1),novelty][19,1]"]
OVERSHOOTING = ["novelty|tournament;mutation(1)|novelty[1,1,0]", "novelty|novelty|tournament;mutation(1)|novelty[1,1,1,0.1]"]
PROGRESSING = ["default", "elitism|novelty", "tournament;crossover(1);mutation(1)", "novelty", "mutation(1);tournament",
               "tournament;mutation(1);crossover(1)", "novelty|xpar[mutation(1),crossover(1)]", "elitism|xpar[mutation(1),crossover(1)]"]
NON_PROGRESSING = ["elitism", "tournament"]


def observe(algo, size, step_name, kind, keys, mk_budget, wire_budget, cap, seed, scale=1, rep_cls=ScriptRep, step_obj=None):
    """Run one real search. algo in rs|opo|hc|gp."""
    rec = Recording()
    problem, tracker_cls = make_problem(kind, scale)
    tracker = tracker_cls(problem, SequentialEvaluator(), recorders=[rec])
    spy = SpyBudget(mk_budget(), rec, cap)
    random = NativeRandomSource(seed)
    if algo == "rs":
        alg = RandomSearch(problem, spy, ScriptRep(keys), random, tracker)
        name, wire_algo, bound = "RandomSearch", "rs", 1
    elif algo == "opo":
        alg = OnePlusOne(problem, spy, MutationOnlyRep(keys), random, tracker)
        name, wire_algo, bound = "OnePlusOne", "opo", 1
    elif algo == "hc":
        alg = HC(problem, spy, MutationOnlyRep(keys), random, tracker, number_of_mutations=size)
        name, wire_algo, bound = "HC", ["hc", size], size
    else:
        alg = GeneticProgramming(problem, spy, rep_cls(keys), random, tracker, population_size=size, step=step_obj if step_obj is not None else GP_STEPS[step_name]())
        name, wire_algo, bound = "GeneticProgramming", ["gp", size], size
    r = Run()
    r.site = f"{name}.search"
    r.name, r.wire_algo, r.bound, r.kind = name, wire_algo, bound, kind
    r.desc = (f"{name}(" + (f"number_of_mutations={size}, " if algo == "hc" else "")
              + (f"population_size={size}, step={step_name}, " if algo == "gp" else "") + f"budget={wire_budget}) on a {kind} problem")
    r.stopped, r.ret, r.error = True, None, None
    try:
        r.ret = alg.search()
    except CheckCap:
        r.stopped = False
    except Exception as e:  # noqa: BLE001
        r.error = f"{type(e).__name__}: {e}"
    r.checks = spy.checks
    rows = rec.rows

    def reg(row):
        return [row["uid"], to_units(row["agg"], scale), to_units(row["comps"][0], scale)]

    cuts = [c["regs"] for c in spy.checks]
    counts = [c["count"] for c in spy.checks]
    r.counts = counts
    r.comps = [None if c["comp"] is None else to_units(c["comp"], scale) for c in spy.checks]
    if algo == "gp":
        r.init = [[reg(x) for x in rows[: cuts[0]]], counts[0]] if cuts else [[], 0]
    else:
        r.init = [[], 0]
    r.iters = []
    for j in range(len(cuts) - 1):
        r.iters.append([[reg(x) for x in rows[cuts[j]: cuts[j + 1]]], counts[j + 1] - counts[j]])
    r.rows = rows
    r.wire_tracker = "multi" if kind == "multi" else "single"
    return r


def judge_common(h: Harness, r: Run, wire_budget, replay):
    """Level A (model reproduces the run) and the shape the code guarantees."""
    if r.error is not None:
        h.fail(r.site, "raises", f"{r.desc} raised {r.error}", replay)
        return False
    nt = len(r.checks) > 1
    if r.stopped:
        expect = [len(r.checks) - 1, r.counts, r.counts[-1], None if r.ret is None else uid(r.ret)]
    else:
        expect = ["running", r.counts]
    h.agree(r.site, ["run", r.wire_algo, wire_budget, r.wire_tracker, r.init, r.iters], expect, nontrivial=nt, replay=replay)
    h.holds(r.site, "iteration-shape", ["prop_shape", r.wire_algo, r.init, r.iters],
            f"{r.desc}: iterations (individuals presented, evaluations) = {[(len(i[0]), i[1]) for i in r.iters]}, initial {(len(r.init[0]), r.init[1])}",
            replay, nontrivial=nt)
    return True


def frozen(r: Run) -> bool:
    """cap reached with the counter (and the set of individuals re-presented) unchanged over the last half of the checks"""
    k = max(2, len(r.counts) // 2)
    tail = r.counts[-k:]
    if len(set(tail)) != 1:
        return False
    last = [sorted(x[0] for x in it[0]) for it in r.iters[-(k - 1):]]
    return all(x == last[0] for x in last)


def check_evaluation_budgets(h: Harness):
    rng = h.rng
    N = h.n(20, 40)
    S = h.n(6, 12)
    kinds = ["single-max", "single-min", "multi"]
    landscapes = {
        "plateau": lambda: [3] * 8,
        "improving": lambda: list(range(64)),
        "random": lambda: [rng.randint(0, 5) for _ in range(50)],
    }
    lnames = list(landscapes)
    k = 0

    def one(algo, size, step_name, n, rep_cls=ScriptRep):
        nonlocal k
        kind = kinds[k % 3]
        lname = lnames[(k // 3) % 3]
        k += 1
        keys = landscapes[lname]()
        seed = rng.randrange(10**6)
        cap = 3 * n + 24
        wire_budget = ["evals", n]
        if rep_cls is not ScriptRep:
            keys = [3]
            lname = "a search space of exactly one program"
        r = observe(algo, size, step_name, kind, keys, lambda: EvaluationBudget(n), wire_budget, cap, seed, rep_cls=rep_cls)
        if rep_cls is not ScriptRep:
            r.desc += " [search space of exactly one program: genotypes compare equal]"
        replay = {"algo": algo, "size": size, "step": step_name, "n": n, "kind": kind, "landscape": lname, "keys": keys, "seed": seed}
        h.count(f"evals:{r.name}" + (f":{step_name}" if step_name else ""))
        if not judge_common(h, r, wire_budget, replay):
            return
        if r.stopped:
            h.holds(r.site, "stops-late-or-early", ["prop_stops", n, r.bound, r.counts],
                    f"{r.desc}: counter at the budget checks = {r.counts}; expected the first check with counter >= {n} and a total < {n} + {r.bound}",
                    replay, nontrivial=len(r.counts) > 1)
        elif frozen(r):
            # the open finding covers steps that create no new individual only; a frozen counter under
            # a step that does create new individuals is a different failure
            h.fail(r.site, "never-terminates" if (step_name in NON_PROGRESSING) else "never-terminates-although-new-individuals-are-created",
                   f"{r.desc}: still running after {len(r.counts)} budget checks; the counter is stuck at {r.counts[-1]} < {n} "
                   f"(counter at the checks: {r.counts[:6]}…) and every generation re-presents the same individuals "
                   f"{sorted(x[0] for x in r.iters[-1][0])}", replay)
        elif len(set(r.counts[-max(2, len(r.counts) // 2):])) == 1:
            # the counter has not moved for half of the checks although NEW individuals keep being presented:
            # evaluations are happening without being counted, or not happening at all
            h.fail(r.site, "never-terminates-although-new-individuals-are-created",
                   f"{r.desc}: still running after {len(r.counts)} budget checks; the counter is stuck at {r.counts[-1]} < {n} "
                   f"(counter at the checks: {r.counts[:6]}…) while each generation presents different individuals", replay)
        else:
            h.notes.append(f"{r.desc}: check cap {cap} reached while the counter was still moving ({r.counts[-6:]}); no verdict")
            h.count("evals:cap-without-lasso")

    for n in range(1, N + 1):
        one("rs", None, None, n)
        one("opo", None, None, n)
        for size in range(1, S + 1):
            one("hc", size, None, n)
            steps = PROGRESSING if h.thorough else [PROGRESSING[(n + size) % len(PROGRESSING)], "mutation(1);tournament"][: (2 if n % 4 == 0 else 1)]
            for st in steps:
                # (crossover on a slice of ONE individual passes it through: such a slice creates nothing new -- the open finding's
                # family; the compositions that end in crossover are run with populations of at least 3)
                if size < 3 and st.endswith("crossover(1)") or size < 3 and "xpar" in st:
                    st = "default"
                one("gp", size, st, n)
    # a search space of exactly one program (a recursive grammar searched at its minimum depth, IntRange(5, 5)): every mutation
    # and crossover returns a genotype equal to its input -- still a new individual, evaluated and counted
    for st in ["tournament;mutation(1)", "mutation(1);tournament", "elitism|tournament;mutation(1)", "tournament;crossover(1);mutation(1)"]:
        for (size, n) in [(3, 10), (6, 40), (1, 4), (4, 9)]:
            one("gp", size, st, n, rep_cls=StructuralRep)
            h.count("evals:one-program-search-space")
    # parallel steps whose rounded slice shares overshoot the population size
    for st in OVERSHOOTING:
        for size in ((3, 7, 2) if not h.thorough else (1, 2, 3, 4, 5, 7, 10, 11, 13)):
            for n in range(size, 3 * size + 3):
                one("gp", size, st, n)
                h.count("evals:overshooting-slices")
    # nested compositions (populations large enough for every share that is meant to be non-empty)
    for st in NESTED:
        for size in ((5, 10) if not h.thorough else (4, 5, 6, 8, 10, 11, 20)):
            for n in ((size + 1, 2 * size + 1, 50) if not h.thorough else tuple(range(size, 3 * size + 3)) + (50, 51)):
                one("gp", size, st, n)
                h.count("evals:nested-compositions")
    # steps that create no new individual: the counter cannot move
    for st in NON_PROGRESSING:
        for (size, n) in [(2, 3), (3, 10), (5, 6), (1, 2), (4, 4), (6, 2)] + ([(s, s + d) for s in range(1, 9) for d in (1, 5)] if h.thorough else []):
            one("gp", size, st, n)
    h.exhaustive = True


def check_step_object_reused(h: Harness):
    """ONE step object (a module-level default, the same `step` given to both species of a cooperative run) serves several searches with
    DIFFERENT population sizes, the larger one first: every search stops at its first check with at least n evaluations, less than n plus
    ITS population size"""
    rng = h.rng
    for st in ("default", "elitism|novelty", "elitism|tournament;mutation(1)", "novelty|xpar[mutation(1),crossover(1)]"):
        for sizes in ((10, 4), (12, 5, 9), (6, 6, 3)):
            step = GP_STEPS[st]()
            for which, size in enumerate(sizes):
                n = rng.randint(size + 1, 6 * size + 1)
                kind = rng.choice(["single-max", "single-min", "multi"])
                keys = [rng.randint(0, 5) for _ in range(50)]
                seed = rng.randrange(10**6)
                wire_budget = ["evals", n]
                r = observe("gp", size, st, kind, keys, lambda: EvaluationBudget(n), wire_budget, 3 * n + 24, seed, step_obj=step)
                r.desc += f" [search #{which + 1} with ONE step object; population sizes so far {list(sizes[: which + 1])}]"
                replay = {"step": st, "sizes": list(sizes), "which": which, "n": n, "kind": kind, "keys": keys, "seed": seed}
                h.count("evals:step-object-reused")
                if not judge_common(h, r, wire_budget, replay):
                    continue
                if r.stopped:
                    h.holds(r.site, "stops-late-or-early", ["prop_stops", n, r.bound, r.counts],
                            f"{r.desc}: counter at the budget checks = {r.counts}; expected the first check with counter >= {n} and a total < {n} + {r.bound}",
                            replay, nontrivial=len(r.counts) > 1)


def check_lexicase_with_missing_values_terminates(h: Harness):
    """"a search with an evaluation budget n always terminates" -- also a GP search that selects by lexicase on a problem some of whose
    objectives cannot be computed for some programs (NaN): run in a fresh interpreter under a time limit, the totals inside [n, n + population)"""
    import subprocess
    import sys
    code = (
        "import json, sys\n"
        "sys.path.insert(0, HARNESS)\n"
        "from props.eval_common import ScriptRep\n"
        "from geneticengine.algorithms.gp.gp import GeneticProgramming\n"
        "from geneticengine.algorithms.gp.operators.combinators import SequenceStep\n"
        "from geneticengine.algorithms.gp.operators.mutation import GenericMutationStep\n"
        "from geneticengine.algorithms.gp.operators.selection import LexicaseSelection\n"
        "from geneticengine.evaluation.budget import EvaluationBudget\n"
        "from geneticengine.evaluation.sequential import SequentialEvaluator\n"
        "from geneticengine.evaluation.tracker import MultiObjectiveProgressTracker\n"
        "from geneticengine.problems import MultiObjectiveProblem\n"
        "from geneticengine.random.sources import NativeRandomSource\n"
        "out = []\n"
        "for seed, n, pop, eps in CONFIGS:\n"
        "    def ff(ph):\n"
        "        k = ph[1]\n"
        "        return [float('nan') if k % 3 == 0 else float(k % 5), float(k % 7), float('nan') if k % 4 == 1 else float(k % 2)]\n"
        "    problem = MultiObjectiveProblem([False, True, False], ff)\n"
        "    ev = SequentialEvaluator()\n"
        "    tracker = MultiObjectiveProgressTracker(problem, ev)\n"
        "    alg = GeneticProgramming(problem, EvaluationBudget(n), ScriptRep(list(range(97))), NativeRandomSource(seed), tracker, population_size=pop,\n"
        "                             step=SequenceStep(LexicaseSelection(epsilon=eps), GenericMutationStep(1)))\n"
        "    alg.search()\n"
        "    out.append([seed, n, pop, ev.number_of_evaluations()])\n"
        "    print('C14LEX ' + json.dumps(out), flush=True)\n")
    rng = h.rng
    configs = [[rng.randrange(10**6), rng.randint(20, 60), rng.choice([4, 6, 10]), bool(k % 2)] for k in range(h.n(4, 20))]
    here = os.path.dirname(os.path.dirname(os.path.abspath(__file__)))
    env = dict(os.environ, PYTHONPATH=os.environ.get("VERIF_REPO", "/repo"))
    src = code.replace("HARNESS", repr(here)).replace("CONFIGS", repr(configs))
    done = []
    timed_out = False
    try:
        p = subprocess.run([sys.executable, "-c", src], capture_output=True, text=True, env=env, timeout=60 if not h.thorough else 240)
        text = p.stdout
        err = p.stderr
    except subprocess.TimeoutExpired as e:
        timed_out = True
        text = (e.stdout or b"").decode() if isinstance(e.stdout, bytes) else (e.stdout or "")
        err = ""
    for line in text.splitlines():
        if line.startswith("C14LEX "):
            done = json.loads(line[len("C14LEX "):])
    for seed, n, pop, total in done:
        h.count("lexicase-with-missing-values")
        h.seen(f"lex-nan:{seed}:{n}:{pop}", nontrivial=True)
        if not (n <= total < n + pop):
            h.fail("GeneticProgramming.search", "stops-late-or-early",
                   f"GeneticProgramming(population_size={pop}, step=lexicase;mutation(1), EvaluationBudget({n})) on a problem with NaN objectives ended after "
                   f"{total} evaluations; expected a total in [{n}, {n + pop})", {"seed": seed, "n": n, "pop": pop})
    if timed_out:
        k = len(done)
        seed, n, pop, eps = configs[k]
        h.fail("GeneticProgramming.search", "never-terminates-although-new-individuals-are-created",
               f"GeneticProgramming(population_size={pop}, step=lexicase(epsilon={eps});mutation(1), EvaluationBudget({n}), seed {seed}) on a three-objective problem "
               f"some of whose objectives are NaN for some programs did not finish within the time limit ({k} of {len(configs)} such searches had finished in "
               f"well under a second each)", {"seed": seed, "n": n, "pop": pop, "epsilon": eps})
    elif len(done) < len(configs):
        h.fail("GeneticProgramming.search", "raises", f"lexicase search on a problem with NaN objectives failed: {err.strip()[-300:]}", {"configs": configs})


def check_initial_population_and_tiny_budgets(h: Harness):
    """a budget that the INITIAL population already exhausts (n = 1 .. population size), with every shipped population initialiser and odd
    population sizes: the search stops at its first check, after exactly population_size evaluations"""
    from props import steps_common as sc
    from geneticengine.algorithms.gp.operators.initializers import HalfAndHalfInitializer, StandardInitializer
    from geneticengine.grammar.grammar import extract_grammar
    from geneticengine.representations.tree.initializations import MaxDepthDecider
    from geneticengine.representations.tree.operators import FullInitializer, GrowInitializer, PositionIndependentGrowInitializer
    from geneticengine.representations.tree.treebased import TreeBasedRepresentation
    g = extract_grammar([sc.Leaf, sc.Node], sc.Root)
    rng = h.rng
    inits = [("HalfAndHalf", lambda: HalfAndHalfInitializer(GrowInitializer(), FullInitializer(4))), ("Standard", StandardInitializer), ("Grow", GrowInitializer),
             ("Full", lambda: FullInitializer(4)), ("PositionIndependentGrow", lambda: PositionIndependentGrowInitializer(4))]
    for iname, mk in inits:
        for pop in (1, 2, 3, 7, 11, 12, 13, 21):
            n = rng.choice([1, 1, pop, max(1, pop - 1)])
            r = NativeRandomSource(rng.randrange(10**6))
            problem = SingleObjectiveProblem(lambda p: float(len(repr(p)) % 7), minimize=False)
            ev = SequentialEvaluator()
            tracker = SingleObjectiveProgressTracker(problem, ev)
            try:
                GeneticProgramming(problem, EvaluationBudget(n), TreeBasedRepresentation(g, MaxDepthDecider(r, g, 4)), r, tracker, population_size=pop,
                                   population_initializer=mk()).search()
            except Exception as e:  # noqa: BLE001
                h.count(f"tiny-budget:{iname}:raised:{type(e).__name__}")
                continue
            total = ev.number_of_evaluations()
            h.count("tiny-budgets")
            h.seen(f"tiny-budget:{iname}:{pop}:{n}", nontrivial=pop > 1)
            if not (n <= total < n + pop):
                h.fail("GeneticProgramming.search", "stops-late-or-early",
                       f"GeneticProgramming(population_size={pop}, population_initializer={iname}Initializer, EvaluationBudget({n})): {total} evaluations; the initial "
                       f"population alone exhausts the budget, the total must lie in [{n}, {n + pop})", {"init": iname, "pop": pop, "n": n})


def check_parallel_evaluator(h: Harness):
    """the evaluation budget counts what the evaluator counted: with the PARALLEL evaluator and an
    algorithm that submits several new individuals per call (hill climbing), the search must still
    stop at the first check with at least n fitness-function invocations (n <= total < n + m)"""
    import os
    import tempfile
    from geneticengine.evaluation.parallel import ParallelEvaluator
    from props.eval_common import FileLog, logging_ff
    rng = h.rng
    with tempfile.TemporaryDirectory(prefix="c14par-") as tmp:
        for (m, n) in ([(3, 6), (4, 5)] if not h.thorough else [(2, 5), (3, 6), (4, 5), (5, 11), (3, 10)]):
            log = FileLog(os.path.join(tmp, f"hc-{m}-{n}.log"))
            keys = [rng.randint(0, 30) for _ in range(60)]
            problem = SingleObjectiveProblem(logging_ff(log, 0, lambda k: float(k)), minimize=False)
            tracker = SingleObjectiveProgressTracker(problem, ParallelEvaluator())
            alg = HC(problem, AnyOf(EvaluationBudget(n), CheckCapBudget(6 * n + 20)), MutationOnlyRep(keys), NativeRandomSource(rng.randrange(10**6)),
                     tracker, number_of_mutations=m)
            try:
                alg.search()
            except Exception as e:  # noqa: BLE001
                h.notes.append(f"parallel HC raised {type(e).__name__}: {e}")
                continue
            total = len(log.read())
            counted = tracker.get_number_evaluations()
            h.seen(f"parallel-hc:{m}:{n}")
            h.count("parallel-hc-runs")
            if not (n <= total < n + m) or counted != total:
                h.fail("HC.search[ParallelEvaluator]", "stops-late-or-early",
                       f"HC(number_of_mutations={m}, EvaluationBudget({n})) on the parallel evaluator: the fitness function was invoked {total} times "
                       f"(expected {n} <= total < {n + m}), the tracker reports {counted} evaluations", {"m": m, "n": n})


def check_parallel_evaluator_all_algorithms(h: Harness):
    """... and for random search, (1+1) and GP on the parallel evaluator: the number of evaluations between two budget checks is
    what the property says it is (1, 1, the population size), whatever the evaluator would like to be handed"""
    import os
    import tempfile
    from geneticengine.evaluation.parallel import ParallelEvaluator
    from props.eval_common import FileLog, logging_ff
    rng = h.rng
    cases = [("rs", 1, 1), ("rs", 1, 5), ("opo", 1, 3), ("gp", 3, 7)] if not h.thorough else \
        [("rs", 1, 1), ("rs", 1, 5), ("rs", 1, 11), ("opo", 1, 1), ("opo", 1, 3), ("gp", 3, 7), ("gp", 2, 5), ("gp", 4, 4)]
    with tempfile.TemporaryDirectory(prefix="c14par2-") as tmp:
        for j, (algo, m, n) in enumerate(cases):
            log = FileLog(os.path.join(tmp, f"{algo}-{j}.log"))
            keys = [rng.randint(0, 30) for _ in range(60)]
            problem = SingleObjectiveProblem(logging_ff(log, 0, lambda k: float(k)), minimize=False)
            tracker = SingleObjectiveProgressTracker(problem, ParallelEvaluator())
            budget = AnyOf(EvaluationBudget(n), CheckCapBudget(6 * n + 20))
            random = NativeRandomSource(rng.randrange(10**6))
            if algo == "rs":
                alg, name = RandomSearch(problem, budget, ScriptRep(keys), random, tracker), "RandomSearch"
            elif algo == "opo":
                alg, name = OnePlusOne(problem, budget, MutationOnlyRep(keys), random, tracker), "OnePlusOne"
            else:
                alg, name = GeneticProgramming(problem, budget, ScriptRep(keys), random, tracker, population_size=m), f"GeneticProgramming(population_size={m})"
            try:
                alg.search()
            except Exception as e:  # noqa: BLE001
                h.notes.append(f"parallel {name} raised {type(e).__name__}: {e}")
                continue
            total = len(log.read())
            counted = tracker.get_number_evaluations()
            h.seen(f"parallel-{algo}:{m}:{n}")
            h.count("parallel-runs-other-algorithms")
            if not (n <= total < n + m) or counted != total:
                h.fail(f"{name.split('(')[0]}.search[ParallelEvaluator]", "stops-late-or-early",
                       f"{name} with EvaluationBudget({n}) on the parallel evaluator: the fitness function was invoked {total} times "
                       f"(expected {n} <= total < {n + m}), the tracker reports {counted} evaluations", {"algo": algo, "m": m, "n": n})


def check_deep_minimum_grammars(h: Harness):
    """searches over REAL tree programs of a grammar whose smallest program is 3 or 4 levels deep (the initialisers start at depth 1
    and must work their way up): the search starts, and stops at the first check after the budget -- within a time no search of
    a dozen evaluations needs"""
    import signal
    import deepgrammar
    from geneticengine.grammar.grammar import extract_grammar
    from geneticengine.representations.tree.initializations import MaxDepthDecider
    from geneticengine.representations.tree.operators import (FullInitializer, GrowInitializer, InjectInitialPopulationWrapper,
                                                              PositionIndependentGrowInitializer)
    from geneticengine.representations.tree.treebased import TreeBasedRepresentation

    class Timeout(Exception):
        pass

    def on_alarm(signum, frame):
        raise Timeout()

    nodes = deepgrammar.nodes
    rng = h.rng
    for (classes, start) in deepgrammar.GRAMMARS:
        g = extract_grammar(classes, start)
        mind = g.get_min_tree_depth()
        for ini_name in ("grow", "pigrow", "inject(0)+grow", "full"):
            pop, n = rng.choice([(2, 3), (3, 7), (4, 4)])
            r = NativeRandomSource(rng.randrange(10**6))
            rep = TreeBasedRepresentation(g, MaxDepthDecider(r, g, 6))
            ini = {"grow": lambda: GrowInitializer(), "pigrow": lambda: PositionIndependentGrowInitializer(5),
                   "inject(0)+grow": lambda: InjectInitialPopulationWrapper([], GrowInitializer()), "full": lambda: FullInitializer(5)}[ini_name]()
            problem = SingleObjectiveProblem(lambda p: float(nodes(p)), minimize=False)
            tracker = SingleObjectiveProgressTracker(problem, SequentialEvaluator())
            alg = GeneticProgramming(problem, EvaluationBudget(n), rep, r, tracker, population_size=pop, population_initializer=ini)
            desc = (f"GeneticProgramming(population_size={pop}, EvaluationBudget({n}), initializer={ini_name}) over real trees of a grammar whose smallest "
                    f"program has depth {g.get_min_tree_depth()}")
            old = signal.signal(signal.SIGALRM, on_alarm)
            signal.alarm(20)
            try:
                alg.search()
                total = tracker.get_number_evaluations()
            except Timeout:
                h.fail("GeneticProgramming.search", "never-terminates-before-the-first-generation" if tracker.get_number_evaluations() == 0 else "never-terminates-although-new-individuals-are-created",
                       f"{desc}: still running after 20 s with {tracker.get_number_evaluations()} evaluations made", {"initializer": ini_name, "pop": pop, "n": n})
                return   # (one search that hangs is enough: the others would take their 20 s each)
            except Exception as e:  # noqa: BLE001
                h.fail("GeneticProgramming.search", "raises", f"{desc} raised {type(e).__name__}: {e}"[:300], {"initializer": ini_name, "pop": pop, "n": n})
                continue
            finally:
                signal.alarm(0)
                signal.signal(signal.SIGALRM, old)
            h.seen(f"deep-minimum:{mind}:{ini_name}:{pop}:{n}")
            h.count("deep-minimum-grammar-searches")
            if not (n <= total < n + pop):
                h.fail("GeneticProgramming.search", "stops-late-or-early", f"{desc}: {total} evaluations, expected {n} <= total < {n + pop}",
                       {"initializer": ini_name, "pop": pop, "n": n})


class CheckCapBudget(SearchBudget):
    """guard against non-termination: done after `cap` checks"""

    def __init__(self, cap):
        self.left = cap

    def is_done(self, tracker):
        self.left -= 1
        return self.left < 0


def check_target_and_anyof(h: Harness):
    rng = h.rng
    runs = h.n(120, 1500)
    for t in range(runs):
        algo = ["rs", "opo", "hc", "gp"][t % 4]
        size = rng.randint(1, 5) if algo in ("hc", "gp") else None
        step_name = rng.choice(PROGRESSING) if algo == "gp" else None
        kind = rng.choice(["single-max", "single-min"])
        keys = [3 * rng.randint(0, 12) for _ in range(40)]
        reachable = rng.random() < 0.7
        if reachable:
            # the best (in the problem's direction) of a prefix of the scripted values, moved by less than the tolerance
            prefix = keys[: rng.randint(1, 20)]
            v = (min(prefix) if kind == "single-min" else max(prefix)) + rng.choice([0, 0, 3, -3, 6, 9, -9])
        else:
            v = 3 * rng.randint(20, 30)
        n = rng.randint(1, 30)
        form = rng.choice(["target", "any(e,t)", "any(t,e)", "any(any(e,t),e2)", "any(t,t2)"]) if reachable else rng.choice(["any(e,t)", "any(t,e)", "any(any(e,t),e2)"])
        n2 = n + rng.randint(0, 5)
        v2 = 3 * rng.randint(0, 12)
        tv, tv2 = v * UNIT, v2 * UNIT
        if form == "target":
            mk = lambda: TargetFitness(tv)  # noqa: E731
            wire = ["target", v]
        elif form == "any(e,t)":
            mk = lambda: AnyOf(EvaluationBudget(n), TargetFitness(tv))  # noqa: E731
            wire = ["anyof", ["evals", n], ["target", v]]
        elif form == "any(t,e)":
            mk = lambda: AnyOf(TargetFitness(tv), EvaluationBudget(n))  # noqa: E731
            wire = ["anyof", ["target", v], ["evals", n]]
        elif form == "any(any(e,t),e2)":
            mk = lambda: AnyOf(AnyOf(EvaluationBudget(n2), TargetFitness(tv)), EvaluationBudget(n))  # noqa: E731
            wire = ["anyof", ["anyof", ["evals", n2], ["target", v]], ["evals", n]]
        else:
            mk = lambda: AnyOf(TargetFitness(tv), TargetFitness(tv2))  # noqa: E731
            wire = ["anyof", ["target", v], ["target", v2]]
        # every third configuration: ONE budget object, used by two searches one after the other (a seed sweep, a retry):
        # what a budget decides depends on the search it is asked about, not on searches it was asked about before
        reuse = t % 3 == 0
        if reuse:
            obj = mk()
            mk = lambda: obj  # noqa: E731
        for rerun in range(2 if reuse else 1):
            seed = rng.randrange(10**6)
            r = observe(algo, size, step_name, kind, keys, mk, wire, 400, seed, scale=UNIT)
            if rerun:
                r.desc += " [the budget object had been used by an earlier search]"
            replay = {"algo": algo, "size": size, "step": step_name, "kind": kind, "keys": keys, "budget": wire, "seed": seed, "same_budget_object_used_by_an_earlier_search": bool(rerun)}
            h.count(f"budget:{form}:{'reachable' if reachable else 'unreachable'}" + (":same-budget-object-again" if rerun else ""))
            if not judge_common(h, r, wire, replay):
                continue
            if not r.stopped:
                if form in ("target", "any(t,t2)"):
                    h.notes.append(f"{r.desc}: target not hit within 400 checks (keys cycle); no verdict")
                    h.count("budget:cap")
                else:
                    h.fail(r.site, "never-terminates", f"{r.desc}: still running after {len(r.counts)} checks, counter {r.counts[-3:]}", replay)
                continue
            if form == "target":
                h.holds("TargetFitness.is_done", "target-stop-wrong", ["prop_target", v, r.comps],
                        f"{r.desc}: best fitness (units of 1e-5) at the checks = {r.comps}; target {v} +- 10", replay)
            elif form in ("any(e,t)", "any(t,e)", "any(any(e,t),e2)"):
                h.holds("AnyOf.is_done", "anyof-stop-wrong", ["prop_anyof", min(n, n2) if form == "any(any(e,t),e2)" else n, v, r.counts, r.comps],
                        f"{r.desc}: counter at the checks = {r.counts}, best fitness at the checks = {r.comps}", replay)


def check_injected_population(h: Harness):
    """GP whose first generation is injected (InjectInitialPopulationWrapper, as SimpleGP(initial_population=...) does), with
    fewer, exactly as many and MORE programs than the population holds: between two budget checks at most one population
    is evaluated, so the search makes n <= total < n + population_size evaluations and counts every one"""
    import pargrammar
    import synth
    from geneticengine.representations.tree.operators import GrowInitializer, InjectInitialPopulationWrapper
    from geneticengine.representations.tree.treebased import TreeBasedRepresentation
    g = pargrammar.grammar()
    rng = h.rng
    for trial in range(h.n(10, 80)):
        pop = rng.randint(2, 8)
        m = rng.choice([0, pop - 1, pop, pop + 1, pop + 5, 3 * pop])
        n = rng.choice([1, 2, pop, pop + 3, 2 * pop + 1])
        r = NativeRandomSource(rng.randrange(10**6))
        rep = TreeBasedRepresentation(g, synth.make_decider("grow", 4, r, g))
        programs = [rep.create_genotype(r) for _ in range(m)]
        calls = {"n": 0}

        def ff(p, calls=calls):
            calls["n"] += 1
            return float(len(repr(p)) % 11)
        problem = SingleObjectiveProblem(ff)
        tracker = SingleObjectiveProgressTracker(problem, SequentialEvaluator())
        gp = GeneticProgramming(problem, AnyOf(EvaluationBudget(n), CheckCapBudget(6 * n + 60)), rep, r, tracker, population_size=pop,
                                population_initializer=InjectInitialPopulationWrapper(programs, GrowInitializer()))
        desc = f"GeneticProgramming(population_size={pop}, EvaluationBudget({n}), {m} injected programs)"
        try:
            gp.search()
        except Exception as e:  # noqa: BLE001
            h.fail("GeneticProgramming.search[injected population]", "raises", f"{desc}: raised {type(e).__name__}: {e}", [pop, m, n])
            continue
        total, counted = calls["n"], tracker.get_number_evaluations()
        h.count("injected-population:" + ("more-than-population" if m > pop else "at-most-population"))
        h.seen(f"inject:{trial}:{pop}:{m}:{n}", nontrivial=True)
        if not (n <= total < n + pop) or counted != total:
            h.fail("GeneticProgramming.search[injected population]", "stops-late-or-early",
                   f"{desc}: the fitness function was invoked {total} times (expected {n} <= total < {n + pop}), the tracker reports {counted} evaluations",
                   [pop, m, n])


def check_simplegp(h: Harness):
    """the geml wrapper builds its budget from `target_fitness`, `max_time`, `max_evaluations`: the search it runs must
    stop at the first check at which the target is hit (any target value, zero included) or the evaluation budget is
    used up.  The budget the wrapper built is spied on; the stop is judged by the same Lean predicate as AnyOf."""
    import pargrammar
    from geml.simplegp import SimpleGP
    from props.eval_common import Recording
    g = pargrammar.grammar()
    for target_u in (0, 0, 4000000, -350000, None):            # in units of 1e-5 (0 twice: once as int, once as float)
        for minimize in (True, False):
            for hit_after in (0, 7, 10**9):      # (10**9: a target that is never reached -- the evaluation budget ends the search)
                pop, n = 4, 40
                target = None if target_u is None else target_u * UNIT
                if target_u == 0 and hit_after == 7:
                    target = 0.0
                elif target_u == 0:
                    target = 0
                calls = {"n": 0}
                bad = (target if target is not None else 0.0) + (1000.0 if minimize else -1000.0)

                def ff(p, calls=calls, target=target, bad=bad, hit_after=hit_after):
                    calls["n"] += 1
                    if target is not None and calls["n"] > hit_after:
                        return float(target)
                    return bad - (calls["n"] % 5 if minimize else -(calls["n"] % 5))
                desc = (f"SimpleGP(target_fitness={target!r}, max_evaluations={n}, max_time=60, population_size={pop}, minimize={minimize}); "
                        f"the fitness function returns the target from call {hit_after + 1} on")
                try:
                    sgp = SimpleGP(ff, g, minimize=minimize, max_depth=4, target_fitness=target, max_time=60, max_evaluations=n,
                                   population_size=pop, elitism=1, novelty=1, seed=3)
                    spy = SpyBudget(sgp.gp.budget, Recording(), 400)
                    sgp.gp.budget = spy
                    stopped = True
                    try:
                        sgp.gp.search()
                    except CheckCap:
                        stopped = False
                except Exception as e:  # noqa: BLE001
                    h.fail("SimpleGP.search", "raises", f"{desc}: raised {type(e).__name__}: {e}", {"target": target, "minimize": minimize})
                    continue
                h.count("simplegp:" + ("no-target" if target is None else "target"))
                counts = [c["count"] for c in spy.checks]
                comps = [None if c["comp"] is None else to_units(c["comp"], UNIT) for c in spy.checks]
                h.seen(f"simplegp:{target_u}:{minimize}:{hit_after}")
                replay = {"target": target, "minimize": minimize, "hit_after": hit_after}
                if not stopped:
                    h.fail("SimpleGP.search", "never-terminates", f"{desc}: still running after {len(counts)} budget checks, counter {counts[-3:]}", replay)
                    continue
                # no target: an unreachable one for the predicate
                v = target_u if target_u is not None else 10**9
                h.holds("SimpleGP.build_budget", "anyof-stop-wrong", ["prop_anyof", n, v, counts, comps],
                        f"{desc}: evaluation counter at the budget checks = {counts}, best fitness (units of 1e-5) at the checks = {comps}", replay)


def run(h: Harness):
    check_step_object_reused(h)
    check_lexicase_with_missing_values_terminates(h)
    check_initial_population_and_tiny_budgets(h)
    check_evaluation_budgets(h)
    check_target_and_anyof(h)
    check_parallel_evaluator(h)
    check_parallel_evaluator_all_algorithms(h)
    check_deep_minimum_grammars(h)
    check_injected_population(h)
    check_simplegp(h)
