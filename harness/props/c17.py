"""C17 -- selection operators are sound (tournament and lexicase).

Implementation side: the real `TournamentSelection.apply` / `LexicaseSelection.apply`, under
(a) EVERY outcome of the random draws for small populations (core.enumerate_scripts),
(b) seeded scripted draws for larger ones, (c) NativeRandomSource through a recording wrapper.
`random.choice` / `random.shuffle` are the library's own; the wrapper records what they returned
(the participants of each tournament, the case order of each lexicase selection).
Model side: lean/GEVerif/Model/Steps.lean (`tournamentGo`, `lexicaseGo`); theorems: Props/C17.lean.
"""
from __future__ import annotations

import itertools

from core import ExhaustiveSource, Harness, NeedMore, enumerate_scripts

from props import steps_common as sc
from props.steps_common import Recording, StubRep, TwoStreamSource

from geneticengine.algorithms.gp.operators.selection import LexicaseSelection, TournamentSelection
from geneticengine.evaluation.sequential import SequentialEvaluator
from geneticengine.problems import SingleObjectiveProblem
from geneticengine.random.sources import NativeRandomSource
from geneticengine.solutions.individual import Individual

RULE = ("exhaustive part: every population shape (identity-duplicates included) of 1..3 (thorough 1..4) individuals x every weak "
        "ordering of their fitness x tournament size 1..3 and one beyond the population x target 0..3 x with/without replacement "
        "x EVERY draw script; lexicase: every 0/1 fitness table for <=3 individuals x <=2 cases (thorough: 0..2 tables, 3 cases, 4 "
        "individuals sampled) x every minimise vector x target 0..len x EVERY script; then seeded random populations 4..9, "
        "tournament sizes up to 12, epsilon-lexicase on values 0..6, scripted and NativeRandomSource draws. Non-trivial: "
        "population >= 2 and target >= 1; distinct = distinct protocol lines")
ASSUMPTIONS = [
    "fitness values are integers (an arbitrary linear order); inf fitness is not modelled; a lexicase case on which every candidate is NaN is "
    "modelled as a skipped case (no candidate passes it; the candidates stay as they were); that an uninformative case can be dropped from the case "
    "order without changing the survivors is the theorem C17_lexicase_uninformative_case",
    "pools that are only partly evaluated, under the sequential and the parallel evaluator, are judged by the fitness the problem's function "
    "assigns to each program (fresh sequential evaluation), not by what is stored on the individuals",
    "epsilon-lexicase: numpy's median / MAD on integer-valued floats is exact (multiples of 1/4); modelled in integers scaled by 4",
    "TournamentSelection re-binds `candidates` to the participants of the previous tournament (the pool collapses); this does "
    "not contradict C17 as stated (winner is a member of the given population and at least as fit as every participant drawn "
    "for its tournament) and is modelled as it is, reported as an observation",
    "LexicaseSelection asked for more individuals than the population holds raises IndexError (model: error); C17's multiplicity "
    "bound makes that request unsatisfiable, C15 requires len >= k",
]


def weak_orderings(n):
    """one fitness vector per weak ordering of n items (ties included)"""
    seen, out = set(), []
    for v in itertools.product(range(n), repeat=n):
        ranks = sorted(set(v))
        canon = tuple(ranks.index(x) for x in v)
        if canon not in seen:
            seen.add(canon)
            out.append(list(canon))
    return out


def shapes(n):
    """identity structure of a population of n slots: which slots hold the same object"""
    out = [list(range(n))]
    if n >= 2:
        out.append([0] * 2 + list(range(2, n)))          # first two slots: same object
    if n >= 3:
        out.append([0] + [1] + [0] + list(range(3, n)))  # slots 0 and 2: same object
    return out


def build(rep, shape, aggs, comps, problem_kind, mins):
    """population as Individual objects; returns (problem, inds)"""
    if problem_kind == "multi":
        problem = sc.make_problem(mins)
    elif problem_kind == "multi-one-min":
        # a multi-objective problem with ONE objective, minimised, and the library's default aggregate (the negated component)
        from geneticengine.problems import MultiObjectiveProblem
        problem = MultiObjectiveProblem(minimize=[True], fitness_function=lambda p: [p[1]])
    else:
        problem = SingleObjectiveProblem(lambda p: p[1], minimize=(problem_kind == "single-min"))
    objs = {}
    inds = []
    for slot, oid in enumerate(shape):
        if oid not in objs:
            objs[oid] = Individual((oid, aggs[oid], tuple(comps[oid])), rep)
        inds.append(objs[oid])
    return problem, inds


def lib_pop(inds, problem):
    """[id, aggregate, components] with the LIBRARY's fitness values"""
    for i in inds:
        i.ensure_fitness(problem)
    return [sc.impl_fitness(i, problem) for i in inds]


def run_selection(step, problem, rep, src, inds, k, form="list", evaluator=None):
    """`form`: how the population is handed over -- a list, a tuple, or a one-shot iterator (what a
    SequenceStep hands to its second step)"""
    given = {"list": lambda: list(inds), "tuple": lambda: tuple(inds), "iterator": lambda: iter(list(inds)),
             "generator": lambda: (i for i in list(inds))}[form]()
    try:
        return list(step.apply(problem, evaluator or SequentialEvaluator(), rep, src, given, k, 1))
    except NeedMore:
        raise
    except Exception as e:  # noqa: BLE001
        return f"error:{type(e).__name__}"


# ----------------------------------------------------------------------------------------
# tournament
# ----------------------------------------------------------------------------------------

def tournament_case(h: Harness, shape, aggs, kind, ts, wr, k, script_or_source, tag, form="list"):
    """one run; `script_or_source` is a recording source already wrapping the draws"""
    rep = StubRep(1)
    comps = {o: [0] for o in set(shape)}
    problem, inds = build(rep, shape, aggs, comps, kind, [False])
    rec = script_or_source
    step = shared_step(("tournament", ts, wr), lambda: TournamentSelection(ts, wr)) if (len(shape) + k) % 2 == 0 else TournamentSelection(ts, wr)
    res = run_selection(step, problem, rep, rec, inds, k, form)
    h.count(f"tournament:population-as-{form}")
    pop = lib_pop(inds, problem)
    if kind == "multi-one-min":
        # judged by what the DECLARATION says (one minimised objective: a smaller value is fitter), not by the aggregate stored
        truth = [[i.genotype[0], -i.genotype[1], [i.genotype[1]]] for i in inds]
        if pop != truth:
            h.fail("TournamentSelection.apply", "ranks-by-an-aggregate-that-ignores-the-declared-direction",
                   f"one-objective MultiObjectiveProblem(minimize=[True]): the individuals carry (id, aggregate, components) {pop}, the declaration gives {truth}",
                   [shape, aggs])
        pop = truth
    return pop, res, rec


def emit_tournament(h: Harness, pop, res, rec, script, ts, wr, k, kind, tag):
    n = len(pop)
    replay = {"population": pop, "tournament_size": ts, "with_replacement": wr, "target_size": k, "script": script, "problem": kind}
    nontrivial = n >= 2 and k >= 1
    h.count(f"tournament:{tag}:n={n}")
    if isinstance(res, str):
        h.agree("TournamentSelection.apply", ["tournament", pop, ts, wr, k, script], "error", nontrivial=nontrivial, replay=replay)
        if n >= 1 and ts >= 1:
            h.fail("TournamentSelection.apply", "raises", f"TournamentSelection({ts}, {wr}) on {pop}, target_size={k}, draws {script}: {res}", replay)
        return
    choices = rec.choices
    rounds = []
    for r, w in enumerate(res):
        parts = choices[r * ts:(r + 1) * ts]
        rounds.append(([p.genotype[0] for p in parts], w.genotype[0], parts, w))
    h.agree("TournamentSelection.apply", ["tournament", pop, ts, wr, k, script], [[r[0], r[1]] for r in rounds],
            nontrivial=nontrivial, replay=replay)
    by_id = {p[0]: p for p in pop}

    def enc(ind):
        return by_id.get(ind.genotype[0], [ind.genotype[0], 0, [0]])
    h.holds("TournamentSelection.apply", "unsound-winner",
            ["prop_tournament", pop, [[[enc(p) for p in r[2]], enc(r[3])] for r in rounds]],
            f"TournamentSelection({ts}, with_replacement={wr}) on {pop}, target_size={k}, draws {script}: (participants, winner) per "
            f"tournament = {[(r[0], r[1]) for r in rounds]}", replay, nontrivial=nontrivial)
    if len(res) != k:
        h.fail("TournamentSelection.apply", "wrong-count", f"TournamentSelection({ts}, {wr}) on {n} individuals, target_size={k} yielded {len(res)}", replay)


def check_tournament_exhaustive(h: Harness):
    nmax = 4 if h.thorough else 3
    for n in range(1, nmax + 1):
        orderings = weak_orderings(n)
        if n == 4:
            orderings = [o for i, o in enumerate(orderings) if i % 9 == 0]
        for shape in shapes(n):
            for aggs_l in orderings:
                aggs = {o: aggs_l[o] for o in set(shape)}
                for ts in sorted({1, 2, 3, n + 1} if n <= 2 else {1, 2, 3}) + ([4] if n == 3 and h.thorough else []):
                    for wr in (False, True):
                        for k in range(0, 4):
                            if ts >= 3 and k >= 3 and not (h.thorough and n <= 3):
                                continue
                            if ts >= 4 and k >= 3:
                                continue
                            kind = ("multi", "single-max", "single-min", "multi-one-min")[(n + ts + k) % 4]
                            holder = {}

                            def fn(src):
                                rec = Recording(src)
                                pop, res, _ = tournament_case(h, shape, aggs, kind, ts, wr, k, rec, "x")
                                holder["v"] = (pop, res, rec)
                                return None
                            for script, _ in enumerate_scripts(fn):
                                pop, res, rec = holder["v"]
                                emit_tournament(h, pop, res, rec, script, ts, wr, k, kind, "exhaustive")
    h.exhaustive = True


def check_tournament_random(h: Harness):
    rng = h.rng
    for _ in range(h.n(300, 4000)):
        n = rng.randint(2, 9)
        shape = list(range(n))
        for s in range(n):
            if s and rng.random() < 0.15:
                shape[s] = shape[rng.randrange(s)]
        aggs = {o: rng.randint(-3, 3) for o in set(shape)}
        ts = rng.choice([1, 2, 3, 5, 7, n, n + 3])
        wr = rng.random() < 0.5
        k = rng.randint(0, n + 2)
        kind = rng.choice(["multi", "single-max", "single-min", "multi-one-min"])
        if rng.random() < 0.3:
            rec = Recording(NativeRandomSource(rng.randrange(10**6)))
            pop, res, rec = tournament_case(h, shape, aggs, kind, ts, wr, k, rec, "native", rng.choice(["list", "iterator", "generator", "tuple"]))
            emit_tournament(h, pop, res, rec, list(rec.script), ts, wr, k, kind, "native")
        else:
            script = [rng.randrange(0, 40) for _ in range(ts * k + 2)]
            rec = TwoStreamSource(script)
            pop, res, rec = tournament_case(h, shape, aggs, kind, ts, wr, k, rec, "scripted", rng.choice(["list", "iterator", "generator", "tuple"]))
            emit_tournament(h, pop, res, rec, script, ts, wr, k, kind, "scripted")
    # empty population / tournament size 0: outside the precondition, the model predicts the error
    for (n, ts, k) in [(0, 2, 1), (0, 1, 0), (2, 0, 1), (2, 0, 0)]:
        shape = list(range(n))
        rec = TwoStreamSource([1, 2, 3])
        pop, res, rec = tournament_case(h, shape, {o: o for o in shape}, "multi", ts, False, k, rec, "edge")
        h.agree("TournamentSelection.apply", ["tournament", pop, ts, False, k, [1, 2, 3]],
                "error" if isinstance(res, str) else [], nontrivial=False)


# ----------------------------------------------------------------------------------------
# lexicase
# ----------------------------------------------------------------------------------------

_SHARED_STEPS: dict = {}   # step objects that live across cases (a step is built once and applied every generation, to any problem)


def shared_step(key, mk):
    if key not in _SHARED_STEPS:
        _SHARED_STEPS[key] = mk()
    return _SHARED_STEPS[key]


_STALE: list = []   # (scenarios in which the components stored on the individuals differ from what the fitness function returned)


def lexicase_run(shape, comps, mins, eps, k, rec):
    rep = StubRep(len(mins))
    problem, inds = build(rep, shape, {o: 0 for o in set(shape)}, comps, "multi", mins)
    if (len(shape) + k + len(mins)) % 3 == 0:
        # a fitness function that fills and returns ONE preallocated list of floats (a common optimisation in user code): what
        # selection reads later are the values returned at the time of each call, not the buffer's last content
        from geneticengine.problems import MultiObjectiveProblem
        buf: list = []

        def into_buffer(p, buf=buf):
            buf[:] = [float(x) for x in p[2]]
            return buf
        problem = MultiObjectiveProblem(minimize=list(mins), fitness_function=into_buffer, best_individual_criteria_function=lambda p: p[1])
    # (the form the population arrives in rotates with the case; no extra random draw)
    form = ("list", "iterator", "tuple", "generator")[(len(shape) + k + len(mins)) % 4]
    # every other case reuses ONE long-lived step object (problems with other optimisation directions came before)
    step = shared_step(("lexicase", eps), lambda: LexicaseSelection(epsilon=eps)) if (len(shape) + 2 * k + sum(mins)) % 2 == 0 else LexicaseSelection(epsilon=eps)
    res = run_selection(step, problem, rep, rec, inds, k, form)
    truth = [[i.genotype[0], i.genotype[1], [int(c) for c in i.genotype[2]]] for i in inds]
    stored = lib_pop(inds, problem)
    if stored != truth:
        _STALE.append((truth, stored))
    return truth, res


def emit_lexicase(h: Harness, pop, res, rec, script, mins, eps, k, tag):
    n, nc = len(pop), len(mins)
    while _STALE:
        truth, stored = _STALE.pop()
        h.fail("LexicaseSelection.apply", "selects-on-components-the-fitness-function-did-not-return",
               f"after lexicase selection the individuals carry (id, aggregate, components) {stored}; the fitness function returned {truth} for them", [truth, stored])
    replay = {"population": pop, "minimize": mins, "epsilon": eps, "target_size": k, "script": script}
    nontrivial = n >= 2 and k >= 1
    h.count(f"lexicase:{tag}:n={n}:eps={eps}")
    if isinstance(res, str):
        h.agree("LexicaseSelection.apply", ["lexicase", pop, nc, mins, eps, k, script], "error", nontrivial=nontrivial, replay=replay)
        if k <= n:
            h.fail("LexicaseSelection.apply", "raises", f"LexicaseSelection(epsilon={eps}) on {pop} minimize={mins}, target_size={k}: {res}", replay)
        return
    by_id = {p[0]: p for p in pop}
    winners = [by_id[w.genotype[0]] for w in res]
    shuffles = [list(s) for s in rec.shuffles]
    # level A: (fresh case order, winner) per selection
    impl = [[shuffles[i] if i < len(shuffles) else "none", w[0]] for i, w in enumerate(winners)]
    h.agree("LexicaseSelection.apply", ["lexicase", pop, nc, mins, eps, k, script], impl, nontrivial=nontrivial, replay=replay)
    # level B: every winner is one of the remaining candidates and survives the lexicase filter for some order of the cases
    # (the existential over case orders is enumerated by the model: asked for up to 6 cases; beyond that the drawn order below decides)
    if nc <= 6:
      h.holds("LexicaseSelection.apply", "winner-not-a-lexicase-survivor", ["prop_lexicase", pop, nc, mins, eps, winners],
              f"LexicaseSelection(epsilon={eps}) on (id, aggregate, components)={pop}, minimize={mins}, target_size={k}, draws {script}: "
              f"winners {[w[0] for w in winners]} -- some winner does not survive the lexicase filter over the candidates still "
              f"available, for any order of the cases (or is not an available candidate)", replay, nontrivial=nontrivial)
    # and against the order actually drawn, when one was drawn per winner
    if len(shuffles) == len(winners):
        remaining = list(pop)
        for cases, w in zip(shuffles, winners):
            h.holds("LexicaseSelection.apply", "winner-not-a-lexicase-survivor",
                    ["prop_lexicase_round", remaining, nc, mins, eps, cases, w],
                    f"LexicaseSelection(epsilon={eps}): winner {w} among {remaining} does not survive the filter for the drawn case order {cases}",
                    replay, nontrivial=nontrivial)
            remaining = list(remaining)
            remaining.remove(w)
    if len(res) != k:
        h.fail("LexicaseSelection.apply", "wrong-count", f"LexicaseSelection on {n} individuals, target_size={k} yielded {len(res)}", replay)


def check_lexicase_exhaustive(h: Harness):
    rng = h.rng
    configs = []
    for n in (1, 2, 3):
        for nc in (1, 2):
            for table in itertools.product(range(2), repeat=n * nc):
                configs.append((n, nc, table, list(range(n))))
    # 0..2 tables, identity duplicates, 3 cases, 4 individuals: sampled (all of them in the thorough tier where small)
    extra = []
    for n, nc, vals in [(3, 2, 3), (2, 3, 2), (3, 3, 2), (4, 2, 2)]:
        tables = list(itertools.product(range(vals), repeat=n * nc))
        take = len(tables) if (h.thorough and (n, nc) == (3, 2)) else min(len(tables), h.n(12, 100))
        for table in (tables if take == len(tables) else rng.sample(tables, take)):
            extra.append((n, nc, table, list(range(n))))
    for table in itertools.product(range(2), repeat=4):
        extra.append((3, 2, table + table[:2], [0, 1, 0]))
    for n, nc, table, shape in configs + extra:
        comps = {o: list(table[o * nc:(o + 1) * nc]) for o in range(n)}
        mins_all = list(itertools.product([False, True], repeat=nc))
        if nc == 3:
            mins_all = [mins_all[0], mins_all[5], mins_all[7]]
        for mins in mins_all:
            for eps in (False, True):
                if eps and not (n == 3 and nc == 2):
                    continue
                for k in range(0, n + 1):
                    holder = {}

                    def fn(src):
                        rec = Recording(src)
                        holder["v"] = lexicase_run(shape, comps, list(mins), eps, k, rec) + (rec,)
                        return None
                    for script, _ in enumerate_scripts(fn):
                        pop, res, rec = holder["v"]
                        emit_lexicase(h, pop, res, rec, script, list(mins), eps, k, "exhaustive")


def check_lexicase_random(h: Harness):
    rng = h.rng
    for _ in range(h.n(300, 4000)):
        n = rng.randint(2, 8)
        nc = rng.randint(1, 4)
        shape = list(range(n))
        for s in range(n):
            if s and rng.random() < 0.1:
                shape[s] = shape[rng.randrange(s)]
        hi = rng.choice([1, 2, 6])
        comps = {o: [rng.randint(0, hi) for _ in range(nc)] for o in set(shape)}
        mins = [rng.random() < 0.5 for _ in range(nc)]
        eps = rng.random() < 0.4
        k = rng.randint(0, n)
        if rng.random() < 0.3:
            rec = Recording(NativeRandomSource(rng.randrange(10**6)))
            pop, res = lexicase_run(shape, comps, mins, eps, k, rec)
            emit_lexicase(h, pop, res, rec, list(rec.script), mins, eps, k, "native")
        else:
            script = [rng.randrange(0, 40) for _ in range((nc + 1) * k + 2)]
            rec = TwoStreamSource(script)
            pop, res = lexicase_run(shape, comps, mins, eps, k, rec)
            emit_lexicase(h, pop, res, rec, script, mins, eps, k, "scripted")
    # MANY cases (13 to 20: a regression data set, one case per sample) on which the candidates mostly agree -- near-clones that differ on
    # one or two cases only: every case is looked at, the one that tells them apart included
    for _ in range(h.n(40, 400)):
        n = rng.randint(2, 5)
        nc = rng.randint(13, 20)
        base = [rng.randint(0, 2) for _ in range(nc)]
        shape = list(range(n))
        comps = {}
        for o in shape:
            row = list(base)
            for _c in range(rng.choice([0, 1, 1, 2])):
                row[rng.randrange(nc)] += rng.choice([-1, 1])
            comps[o] = row
        mins = [rng.random() < 0.5 for _ in range(nc)]
        eps = rng.random() < 0.25
        k = rng.randint(1, n)
        rec = Recording(NativeRandomSource(rng.randrange(10**6)))
        pop, res = lexicase_run(shape, comps, mins, eps, k, rec)
        emit_lexicase(h, pop, res, rec, list(rec.script), mins, eps, k, "many-cases")
    # beyond the population: error predicted by the model
    for n, k in [(1, 2), (2, 3), (3, 5)]:
        shape = list(range(n))
        comps = {o: [o, 1] for o in shape}
        script = [1, 0, 2, 1, 0, 3, 1, 1]
        rec = TwoStreamSource(script)
        pop, res = lexicase_run(shape, comps, [False, True], False, k, rec)
        emit_lexicase(h, pop, res, rec, script, [False, True], False, k, "beyond-population")


SCALES17 = [("1e5*(2+k*1e-6)", lambda k: 200000.0 + k * 0.2), ("1e12+k", lambda k: 1e12 + k), ("1+k*ulp", lambda k: 1.0 + k * 2.0 ** -52),
            ("k*1e-300", lambda k: k * 1e-300)]


def check_scale_invariance(h: Harness):
    """selection may depend on the ORDER of the fitness values only: the same table of ranks under
    monotone re-scalings (large magnitudes, neighbouring floats) must select the same individuals
    for the same draws"""
    from geneticengine.problems import MultiObjectiveProblem
    rng = h.rng
    for t in range(h.n(150, 1500)):
        n = rng.randint(2, 5)
        ncases = rng.randint(1, 3)
        ranks = [[rng.randint(0, 2) for _ in range(ncases)] for _ in range(n)]
        mins = [rng.random() < 0.5 for _ in range(ncases)]
        k = rng.randint(1, n)
        seed = rng.randrange(10**6)
        outs = []
        for name, f in [("id", float)] + SCALES17:
            problem = MultiObjectiveProblem(list(mins), lambda p: list(p[1]), aggregate_fitness=lambda comps: comps[0])
            rep = StubRep(ncases)
            inds = [Individual((i, [f(x) for x in row]), rep) for i, row in enumerate(ranks)]
            try:
                res = list(LexicaseSelection().apply(problem, SequentialEvaluator(), rep, NativeRandomSource(seed), list(inds), k, 0))
                outs.append((name, [x.genotype[0] for x in res]))
            except Exception as e:  # noqa: BLE001
                outs.append((name, "error:" + type(e).__name__))
        h.seen(f"scale17:{ranks}:{mins}:{k}:{seed}")
        for name, o in outs[1:]:
            if o != outs[0][1]:
                h.fail("LexicaseSelection.apply", "depends-on-magnitude-not-order",
                       f"lexicase on ranks {ranks} (minimize={mins}, k={k}, seed={seed}): scaled by {name} the winners are {o}, "
                       f"with plain integers {outs[0][1]}", {"ranks": ranks, "mins": mins, "k": k, "seed": seed, "scale": name})
                break
        # tournament under the same scalings
        aggs = [rng.randint(0, 3) for _ in range(n)]
        touts = []
        for name, f in [("id", float)] + SCALES17:
            problem = SingleObjectiveProblem(lambda p: p[1], minimize=mins[0])
            rep = StubRep(1)
            inds = [Individual((i, f(a)), rep) for i, a in enumerate(aggs)]
            res = list(TournamentSelection(2).apply(problem, SequentialEvaluator(), rep, NativeRandomSource(seed), list(inds), k, 0))
            touts.append((name, [x.genotype[0] for x in res]))
        for name, o in touts[1:]:
            if o != touts[0][1]:
                h.fail("TournamentSelection.apply", "depends-on-magnitude-not-order",
                       f"tournament on aggregates ranks {aggs} (minimize={mins[0]}): scaled by {name} the winners are {o}, plain integers {touts[0][1]}",
                       {"aggs": aggs, "seed": seed, "scale": name})
                break
    h.count("scale-invariance-cases")


def check_second_problem(h: Harness):
    """selection for a problem must use THAT problem's fitness, also when the individuals were
    evaluated for another problem (with the opposite ordering) before"""
    rng = h.rng
    for t in range(h.n(100, 1000)):
        n = rng.randint(2, 6)
        vals = [rng.randint(0, 5) for _ in range(n)]
        rep = StubRep(1)
        inds = [Individual((i, v), rep) for i, v in enumerate(vals)]
        p_first = SingleObjectiveProblem(lambda p: p[1], minimize=False)
        p_second = SingleObjectiveProblem(lambda p: p[1], minimize=True)
        ev = SequentialEvaluator()
        ev.evaluate(p_first, inds)
        src = Recording(NativeRandomSource(rng.randrange(10**6)))
        ts = rng.choice([2, 3])
        k = rng.randint(1, n)
        res = list(TournamentSelection(ts, with_replacement=True).apply(p_second, ev, rep, src, list(inds), k, 0))
        h.seen(f"second-problem:{vals}:{ts}:{k}")
        # every winner must be minimal (p_second minimises) among the participants of its tournament:
        # with replacement the participants of round j are the j-th block of ts choice draws
        if res and len(src.choices) >= ts:
            parts = src.choices[:ts]          # participants of the first tournament
            win = res[0]
            if any(p.genotype[1] < win.genotype[1] for p in parts):
                h.fail("TournamentSelection.apply", "winner-worse-than-participant",
                       f"minimising problem after the individuals had been evaluated for a maximising one: values {vals}, participants "
                       f"{[p.genotype[1] for p in parts]}, winner {win.genotype[1]}", {"vals": vals, "ts": ts})
    h.count("second-problem-cases")


def true_pop(inds, problem, rep):
    """[id, aggregate, components] per slot with the fitness the PROBLEM assigns to each program (fresh
    individuals, sequential evaluation) -- not what happens to be stored on the individuals handed over"""
    fresh = {}
    out = []
    for i in inds:
        if id(i) not in fresh:
            c = Individual(i.genotype, rep)
            c.ensure_fitness(problem)
            fresh[id(i)] = sc.impl_fitness(c, problem)
        out.append(fresh[id(i)])
    return out


def check_partly_evaluated_pools(h: Harness):
    """the pool a selection step receives is only PARTLY evaluated (survivors of an earlier call, then
    newcomers; or interleaved), and the evaluator is the sequential or the parallel one: winners are judged by
    the fitness the problem's function assigns to their programs"""
    from geneticengine.evaluation.parallel import ParallelEvaluator
    rng = h.rng
    layouts = [("survivors-then-newcomers", lambda n, j: j < n // 2), ("interleaved", lambda n, j: j % 2 == 0),
               ("newcomers-then-survivors", lambda n, j: j >= n // 2), ("one-newcomer-last", lambda n, j: j < n - 1)]
    cases = []
    for evname in ("parallel", "sequential"):
        for li, (lname, pre) in enumerate(layouts):
            for kind in (("single-max", "multi", "single-min") if evname == "sequential" else (("single-max", "single-min", "multi")[li % 3],)):
                cases.append((evname, lname, pre, kind))
    for evname, lname, pre, kind in cases:
        n = rng.randint(6, 9)
        vals = rng.sample(range(-20, 20), n)            # distinct: a mis-assigned fitness changes the ranking
        rep = StubRep(2)
        mins = [False, True]
        comps = {o: [rng.randint(0, 3), rng.randint(0, 3)] for o in range(n)}
        problem, inds = build(rep, list(range(n)), {o: vals[o] for o in range(n)}, comps, kind, mins)
        ev = ParallelEvaluator() if evname == "parallel" else SequentialEvaluator()
        already = [i for j, i in enumerate(inds) if pre(n, j)]
        ev.evaluate(problem, already)
        truth = true_pop(inds, problem, rep)
        # tournament
        ts, k = 3, n
        rec = Recording(NativeRandomSource(rng.randrange(10**6)))
        res = run_selection(TournamentSelection(ts, with_replacement=True), problem, rep, rec, inds, k, "list", ev)
        h.count(f"partly-evaluated-pool:{evname}:{lname}")
        emit_tournament(h, truth, res, rec, list(rec.script), ts, True, k, kind, f"partly-evaluated-{evname}")
        stored = lib_pop(inds, problem)
        if stored != truth:
            h.fail("TournamentSelection.apply", "selects-on-fitness-of-another-individual",
                   f"{evname} evaluator, pool {lname} ({kind}): after the selection step the stored (id, aggregate, components) are {stored}, "
                   f"the problem assigns {truth}", {"values": vals, "layout": lname, "evaluator": evname, "problem": kind})
        # lexicase on a second pool of the same layout
        if kind == "multi":
            problem2, inds2 = build(rep, list(range(n)), {o: 0 for o in range(n)}, comps, "multi", mins)
            ev.evaluate(problem2, [i for j, i in enumerate(inds2) if pre(n, j)])
            truth2 = true_pop(inds2, problem2, rep)
            rec2 = Recording(NativeRandomSource(rng.randrange(10**6)))
            res2 = run_selection(LexicaseSelection(), problem2, rep, rec2, inds2, n // 2, "list", ev)
            emit_lexicase(h, truth2, res2, rec2, list(rec2.script), mins, False, n // 2, f"partly-evaluated-{evname}")


def check_lexicase_uninformative_case(h: Harness):
    """a case on which every candidate is NaN tells nothing apart (no candidate passes it): the winner must still
    survive the filter of the OTHER cases in the drawn order -- the filtering done before that case must not be
    forgotten"""
    from geneticengine.problems import MultiObjectiveProblem
    rng = h.rng
    nan = float("nan")
    for t in range(h.n(60, 600)):
        n = rng.randint(3, 7)
        nc = rng.randint(2, 4)
        table = [[rng.randint(0, 2) for _ in range(nc)] for _ in range(n)]
        mins = [rng.random() < 0.5 for _ in range(nc)]
        at = rng.randrange(nc + 1)                      # position of the all-NaN case
        mins_full = mins[:at] + [rng.random() < 0.5] + mins[at:]
        rep = StubRep(nc + 1)
        problem = MultiObjectiveProblem(list(mins_full), lambda p: list(p[1]), aggregate_fitness=lambda comps: 0.0)
        inds = [Individual((i, [float(x) for x in row[:at]] + [nan] + [float(x) for x in row[at:]]), rep) for i, row in enumerate(table)]
        k = rng.randint(1, n)
        rec = Recording(NativeRandomSource(rng.randrange(10**6)))
        res = run_selection(LexicaseSelection(), problem, rep, rec, inds, k, "list")
        replay = {"table": table, "minimize": mins_full, "nan_case": at, "target_size": k, "script": list(rec.script)}
        h.count("lexicase:all-NaN-case")
        if isinstance(res, str):
            h.fail("LexicaseSelection.apply", "raises", f"lexicase on {table} with an all-NaN case at {at}: {res}", replay)
            continue
        pop = [[i, 0, list(row)] for i, row in enumerate(table)]
        winners = [pop[w.genotype[0]] for w in res]
        if len(rec.shuffles) != len(winners):
            continue
        remaining = list(pop)
        for cases_drawn, w in zip(rec.shuffles, winners):
            order = [c if c < at else c - 1 for c in cases_drawn if c != at]
            h.holds("LexicaseSelection.apply", "winner-not-a-lexicase-survivor",
                    ["prop_lexicase_round", remaining, nc, mins, False, order, w],
                    f"LexicaseSelection with an uninformative (all-NaN) case {at}: winner {w} among {remaining} (minimize={mins}) does not "
                    f"survive the filter of the informative cases in the drawn order {order} (drawn: {cases_drawn})", replay, nontrivial=True)
            if w in remaining:
                remaining = list(remaining)
                remaining.remove(w)


def check_real_trees_tiny_fitness(h: Harness):
    """tournaments over REAL tree programs (labelled nodes, different depths) whose fitness values are residual errors of the order of
    1e-26: the winner of every tournament is judged by the value the fitness function gives to each participant's program -- nothing else
    about a program (its depth, its size) takes part"""
    import zlib
    rng = h.rng
    for trial in range(h.n(30, 300)):
        g, r, rep = sc.tree_setup(rng.randrange(1000))
        minimize = trial % 2 == 0
        unit = rng.choice([1e-26, 1e-25, 3e-27, 1.0])

        def ff(p, unit=unit):
            return float(zlib.crc32(repr(p).encode()) % 9 + 1) * unit
        problem = SingleObjectiveProblem(ff, minimize=minimize)
        inds = [Individual(rep.create_genotype(r), rep) for _ in range(rng.randint(4, 9))]
        ts = rng.choice([2, 3])
        k = rng.randint(1, len(inds))
        src = Recording(NativeRandomSource(rng.randrange(10**6)))
        try:
            res = list(TournamentSelection(ts, with_replacement=True).apply(problem, SequentialEvaluator(), rep, src, list(inds), k, 0))
        except Exception as e:  # noqa: BLE001
            h.fail("TournamentSelection.apply", "raises", f"tournament over real trees raised {type(e).__name__}: {e}", [trial])
            continue
        depths = sorted({getattr(i.get_phenotype(), "gengy_distance_to_term", 0) for i in inds})
        h.seen(f"tiny-real:{trial}:{unit}:{ts}:{k}", nontrivial=len(depths) > 1)
        h.count("real-tree-tournaments-with-tiny-fitness")
        for j, win in enumerate(res):
            parts = src.choices[j * ts:(j + 1) * ts]
            wv = ff(win.get_phenotype())
            better = [p for p in parts if (ff(p.get_phenotype()) < wv if minimize else ff(p.get_phenotype()) > wv)]
            if better or not any(p is win for p in parts):
                b = better[0] if better else None
                h.fail("TournamentSelection.apply", "winner-worse-than-participant",
                       f"tournament {j} of size {ts} over real tree programs ({'min' if minimize else 'max'}imise, fitness values of the order of {unit}): "
                       f"the winner {win.get_phenotype()} has fitness {wv!r}" + (f", the participant {b.get_phenotype()} has {ff(b.get_phenotype())!r}" if b else ", and is not one of the participants"),
                       {"trial": trial, "unit": unit, "ts": ts})
                break


def check_epsilon_lexicase_with_missing_values(h: Harness):
    """epsilon-lexicase on pools in which some candidates have an objective that could not be computed (NaN) -- never the first
    candidate, which is the best on every case, so that "the best value of the case" is a number: a NaN takes no part in the band of
    a case (median absolute deviation over the values that exist) and never passes it.  The winner of a selection event is one of
    the survivors of the filter along the case order that event drew."""
    import statistics
    from geneticengine.problems import MultiObjectiveProblem
    rng = h.rng
    nan = float("nan")
    for trial in range(h.n(200, 2000)):
        n = rng.randint(3, 6)
        ncases = rng.randint(1, 3)
        mins = [rng.random() < 0.5 for _ in range(ncases)]
        rows = [[(0.0 if m else 20.0) for m in mins]]
        for i in range(1, n):
            rows.append([nan if rng.random() < 0.3 else float(rng.randint(1, 12)) for _ in range(ncases)])
        if not any(v != v for row in rows for v in row):
            rows[-1][rng.randrange(ncases)] = nan
        problem = MultiObjectiveProblem(list(mins), lambda p: list(p[1]))
        rep = StubRep(ncases)
        inds = [Individual((i, row), rep) for i, row in enumerate(rows)]
        src = Recording(NativeRandomSource(rng.randrange(10**6)))
        try:
            res = list(LexicaseSelection(epsilon=True).apply(problem, SequentialEvaluator(), rep, src, list(inds), 1, 0))
        except Exception as e:  # noqa: BLE001
            h.fail("LexicaseSelection.apply", "raises", f"epsilon-lexicase on {rows} raised {type(e).__name__}: {e}", [trial])
            continue
        order = src.shuffles[0] if src.shuffles else list(range(ncases))
        alive = list(range(n))
        for c in order:
            if len(alive) <= 1:
                break
            vals = [rows[i][c] for i in alive if rows[i][c] == rows[i][c]]
            if not vals:
                continue
            med = statistics.median(vals)
            mad = statistics.median([abs(v - med) for v in vals])
            best = min(vals) if mins[c] else max(vals)
            keep = [i for i in alive if rows[i][c] == rows[i][c] and (rows[i][c] <= best + mad if mins[c] else rows[i][c] >= best - mad)]
            if keep:
                alive = keep
        h.seen(f"eps-nan:{rows}:{mins}:{order}", nontrivial=len(alive) < n)
        h.count("epsilon-lexicase-with-missing-values")
        w = res[0].genotype[0] if res else None
        if w not in alive:
            h.fail("LexicaseSelection.apply", "winner-not-a-lexicase-survivor",
                   f"LexicaseSelection(epsilon=True) on components {rows} (minimize={mins}), case order {order}: the winner is candidate {w}, "
                   f"the survivors of the filter along that order are {alive}", {"rows": [[None if v != v else v for v in r_] for r_ in rows], "mins": mins, "order": order})


def check_lexicase_infinite_values(h: Harness):
    """a candidate whose value on a case is INFINITELY good (+inf on a maximised case, -inf on a minimised one: a perfect score
    reported that way) is the best of that case: plain lexicase keeps exactly the candidates that equal the best along the case
    order the event drew, and the winner is one of them"""
    from geneticengine.problems import MultiObjectiveProblem
    rng = h.rng
    inf = float("inf")
    for trial in range(h.n(150, 1500)):
        n = rng.randint(2, 6)
        ncases = rng.randint(1, 3)
        mins = [rng.random() < 0.5 for _ in range(ncases)]
        rows = [[float(rng.randint(0, 4)) for _ in range(ncases)] for _ in range(n)]
        for _ in range(rng.randint(1, 3)):
            c = rng.randrange(ncases)
            rows[rng.randrange(n)][c] = -inf if mins[c] else inf
        problem = MultiObjectiveProblem(list(mins), lambda p: list(p[1]))
        rep = StubRep(ncases)
        inds = [Individual((i, row), rep) for i, row in enumerate(rows)]
        src = Recording(NativeRandomSource(rng.randrange(10**6)))
        try:
            res = list(LexicaseSelection(epsilon=False).apply(problem, SequentialEvaluator(), rep, src, list(inds), 1, 0))
        except Exception as e:  # noqa: BLE001
            h.fail("LexicaseSelection.apply", "raises", f"lexicase on {rows} raised {type(e).__name__}: {e}", [trial])
            continue
        order = src.shuffles[0] if src.shuffles else list(range(ncases))
        alive = list(range(n))
        for c in order:
            if len(alive) <= 1:
                break
            vals = [rows[i][c] for i in alive]
            best = min(vals) if mins[c] else max(vals)
            alive = [i for i in alive if rows[i][c] == best]
        h.seen(f"lex-inf:{rows}:{mins}:{order}", nontrivial=len(alive) < n)
        h.count("lexicase-with-infinitely-good-values")
        w = res[0].genotype[0] if res else None
        if w not in alive:
            h.fail("LexicaseSelection.apply", "winner-not-a-lexicase-survivor",
                   f"LexicaseSelection() on components {rows} (minimize={mins}), case order {order}: the winner is candidate {w}, the survivors of the "
                   f"filter along that order are {alive}", {"rows": [[str(v) for v in r_] for r_ in rows], "mins": mins, "order": order})


def check_programs_that_print_alike(h: Harness):
    """programs whose pretty-printer does not tell them apart (a user's `__str__` that abbreviates) are still different programs with
    different fitness: a tournament over a pool nobody has evaluated yet is won by a participant no other participant beats"""
    from props.eval_common import LossyStrRep
    rng = h.rng
    for trial in range(h.n(40, 400)):
        n = rng.randint(4, 9)
        minimize = trial % 2 == 0
        keys = rng.sample(range(-50, 50), n)
        rep = LossyStrRep(keys)
        problem = SingleObjectiveProblem(lambda p: float(p[1]), minimize=minimize)
        inds = [Individual(rep.create_genotype(None), rep) for _ in range(n)]
        ts = rng.choice([2, 3])
        k = rng.randint(1, n)
        src = Recording(NativeRandomSource(rng.randrange(10**6)))
        try:
            res = list(TournamentSelection(ts, with_replacement=True).apply(problem, SequentialEvaluator(), rep, src, list(inds), k, 0))
        except Exception as e:  # noqa: BLE001
            h.fail("TournamentSelection.apply", "raises", f"tournament over programs that print alike raised {type(e).__name__}: {e}", [trial])
            continue
        h.seen(f"print-alike:{trial}:{keys}:{ts}:{k}", nontrivial=True)
        h.count("tournaments-over-programs-that-print-alike")
        for j, win in enumerate(res):
            parts = src.choices[j * ts:(j + 1) * ts]
            wv = float(win.genotype[1])
            better = [p for p in parts if (float(p.genotype[1]) < wv if minimize else float(p.genotype[1]) > wv)]
            if better:
                h.fail("TournamentSelection.apply", "winner-worse-than-participant",
                       f"tournament {j} of size {ts} over an unevaluated pool of programs that all print as '<program>' ({'min' if minimize else 'max'}imise, "
                       f"fitness values {keys}): the winner has fitness {wv}, the participant {better[0].genotype} has {float(better[0].genotype[1])}",
                       {"trial": trial, "keys": keys, "ts": ts})
                break


def check_twins_and_large_pools(h: Harness):
    """(a) TWINS: distinct individuals that carry equal genotypes (elitism next to an unchanged mutant, two initial programs that
    happen to coincide) are two members of the population: selection without replacement returns each OBJECT at most as often as the
    population contains it.  (b) LARGE pools (33..80 individuals, pass/fail cases that leave dozens tied): same model, same predicates
    as the small ones"""
    rng = h.rng
    for trial in range(h.n(60, 600)):
        n = rng.randint(3, 8)
        nc = rng.randint(1, 3)
        rep = StubRep(nc)
        mins = [rng.random() < 0.5 for _ in range(nc)]
        problem = sc.make_problem(mins)
        distinct = [(j, 0, tuple(rng.randint(0, 2) for _ in range(nc))) for j in range(rng.randint(1, max(1, n - 1)))]
        genos = [rng.choice(distinct) for _ in range(n)]
        inds = [Individual(tuple(gt), rep) for gt in genos]       # n objects, some with EQUAL genotypes
        for sname, step in (("LexicaseSelection", LexicaseSelection(epsilon=trial % 4 == 0)), ("TournamentSelection", TournamentSelection(rng.choice([1, 2, 3]), with_replacement=False))):
            if sname == "TournamentSelection":
                problem1 = SingleObjectiveProblem(lambda p: float(sum(p[2])), minimize=trial % 2 == 0)
            else:
                problem1 = problem
            k = rng.randint(max(1, n - 2), n)
            src = NativeRandomSource(rng.randrange(10**6))
            res = run_selection(step, problem1, rep, src, inds, k)
            h.count(f"twins:{sname}")
            h.seen(f"twins:{sname}:{trial}:{genos}:{k}", nontrivial=len(set(genos)) < n)
            replay = {"genotypes": [list(map(str, g_)) for g_ in genos], "target_size": k, "step": sname, "trial": trial}
            if isinstance(res, str):
                h.fail(f"{sname}.apply", "raises", f"{sname} over {n} individuals, {n - len(set(genos))} of them twins of another (equal genotypes), target_size={k}: {res}", replay)
                continue
            foreign = [w for w in res if not any(w is i for i in inds)]
            if foreign:
                h.fail(f"{sname}.apply", "not-a-member", f"{sname} returned an individual that is not one of the objects of the population", replay)
                continue
            counts = {}
            for w in res:
                counts[id(w)] = counts.get(id(w), 0) + 1
            # (the statement bounds the copies for lexicase; the tournament's narrowing pool may return a member again)
            over = [i for i in inds if counts.get(id(i), 0) > 1] if sname == "LexicaseSelection" else []
            if over:
                j = next(k_ for k_, i in enumerate(inds) if i is over[0])
                h.fail(f"{sname}.apply", "more-copies-than-population",
                       f"{sname} (without replacement) over {n} individuals with genotypes {genos} (equal genotypes = twins, distinct objects), target_size={k}: "
                       f"the individual in slot {j} was returned {counts[id(over[0])]} times, the population contains it once", replay)
    # (b) large pools through the lexicase model
    for trial in range(h.n(8, 60)):
        n = rng.choice([33, 40, 48, 64, 80])
        nc = rng.randint(2, 4)
        shape = list(range(n))
        comps = {o: [rng.randint(0, 1) if c < nc - 1 else rng.randint(0, 3) for c in range(nc)] for o in shape}
        mins = [rng.random() < 0.5 for _ in range(nc)]
        k = rng.randint(1, 4)
        if trial % 2 == 0:
            # a pass/fail case that three quarters of a big pool pass (dozens stay tied, spread over the whole population) beside a case
            # that tells everybody apart: whichever comes second works on the survivors of the first
            n = rng.choice([64, 80])
            shape = list(range(n))
            off = rng.randrange(4)
            comps = {o: [(0 if (o + off) % 4 == 0 else 1), (o * 7) % n] for o in shape}
            mins = [False, rng.random() < 0.5]
            k = 4
        rec = Recording(NativeRandomSource(rng.randrange(10**6)))
        pop, res = lexicase_run(shape, comps, mins, False, k, rec)
        emit_lexicase(h, pop, res, rec, list(rec.script), mins, False, k, "large-pool")


def run(h: Harness):
    check_twins_and_large_pools(h)
    check_real_trees_tiny_fitness(h)
    check_lexicase_infinite_values(h)
    check_programs_that_print_alike(h)
    check_epsilon_lexicase_with_missing_values(h)
    check_partly_evaluated_pools(h)
    check_lexicase_uninformative_case(h)
    check_scale_invariance(h)
    check_second_problem(h)
    check_lexicase_exhaustive(h)
    check_tournament_exhaustive(h)
    check_tournament_random(h)
    check_lexicase_random(h)
