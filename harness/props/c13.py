"""C13 -- fitness is computed from the phenotype, once, and counted honestly.

Implementation side: the real `SingleObjectiveProblem` / `MultiObjectiveProblem.evaluate`, the real
`SequentialEvaluator` and `ParallelEvaluator` (worker processes and all), reached directly, through
the progress trackers, and through whole `GeneticProgramming` runs whose steps re-present
individuals.  Fitness functions log every invocation (file-backed for the parallel evaluator).
Model side: lean/GEVerif/Model/Eval.lean; theorems: lean/GEVerif/Props/C13.lean.
"""
from __future__ import annotations

import json

import os
import tempfile

from core import Harness

from props.eval_common import FileLog, LossyStrRep, MemLog, ScriptRep, as_int, logging_ff, mk_ind, uid

from geneticengine.algorithms.gp.gp import GeneticProgramming, default_generic_programming_step
from geneticengine.algorithms.gp.operators.combinators import ParallelStep, SequenceStep
from geneticengine.algorithms.gp.operators.crossover import GenericCrossoverStep
from geneticengine.algorithms.gp.operators.elitism import ElitismStep
from geneticengine.algorithms.gp.operators.mutation import GenericMutationStep
from geneticengine.algorithms.gp.operators.novelty import NoveltyStep
from geneticengine.algorithms.gp.operators.selection import TournamentSelection
from geneticengine.evaluation.budget import AnyOf, EvaluationBudget, SearchBudget
from geneticengine.evaluation.parallel import ParallelEvaluator
from geneticengine.evaluation.sequential import SequentialEvaluator
from geneticengine.evaluation.tracker import MultiObjectiveProgressTracker, SingleObjectiveProgressTracker
from geneticengine.problems import MultiObjectiveProblem, SingleObjectiveProblem
from geneticengine.random.sources import NativeRandomSource

RULE = ("scenario = (1-3 problems of kinds single-max / single-min / multi with minimize list / multi with minimize bool / "
        "user aggregate, sharing 1-6 individuals; integer fitness tables; a random subset of (problem, individual) pairs "
        "evaluated beforehand; 1-5 evaluator calls whose batches (length 0-8) repeat individuals), drawn from VERIF_SEED, "
        "run on the real SequentialEvaluator (directly or through a progress tracker) and on the real ParallelEvaluator "
        "(pool of worker processes, per-individual delays to perturb completion order, file-backed invocation log); plus "
        "GeneticProgramming runs with step compositions that re-present individuals.  Level A: counter, invocation log and every "
        "fitness store equal the model's; level B: the Lean predicate `propHonest` on the implementation's state.  A scenario is "
        "non-trivial when some batch repeats an individual or contains an already evaluated one")
ASSUMPTIONS = [
    "fitness values are integer-valued floats (an arbitrary linear order in the model); NaN is outside the model",
    "OS scheduling and pickling inside pathos are not modelled: the order in which workers complete is read off the file-backed "
    "log and given to the model as the completion permutation; the theorem holds for every permutation",
    "problems are kept alive for the whole scenario (Individual.fitness_store is a WeakKeyDictionary; collection of a problem is not modelled)",
    "a `minimize: bool` multi-objective problem is expanded by the library to a list on first evaluation; the harness gives such "
    "problems fitness functions of constant arity and the model the expanded list",
    "with a `minimize` list shorter than the fitness function's result the default aggregate ignores the extra components (zip); "
    "the model mirrors this, the theorem C13_aggregate_default is stated for equal lengths",
]
TRUSTED_EXTRA = ["pathos / multiprocess / dill process pools (exercised, not modelled)"]


# ----------------------------------------------------------------------------------------
# problems
# ----------------------------------------------------------------------------------------

def gen_problem_spec(rng, T: int):
    kind = rng.choice(["single", "single", "multi", "multi", "multibool", "user", "usermax", "criteria"])
    if kind == "single":
        rows = [[rng.randint(-5, 5)] for _ in range(T)]
        return {"kind": "single", "min": rng.random() < 0.5, "rows": rows}
    arity = rng.randint(1, 3)
    rows = [[rng.randint(-5, 5) for _ in range(arity)] for _ in range(T)]
    if kind == "multi":
        n = arity
        if rng.random() < 0.15:
            n = max(0, arity + rng.choice([-1, 1]))
        return {"kind": "multi", "mins": [rng.random() < 0.5 for _ in range(n)], "rows": rows}
    if kind == "multibool":
        return {"kind": "multibool", "min": rng.random() < 0.5, "rows": rows}
    if kind in ("user", "criteria"):
        # "criteria": the aggregate is a function of the PROGRAM (best_individual_criteria_function), here the same weighted sum
        return {"kind": kind, "w": [rng.randint(-2, 2) for _ in range(arity)], "rows": rows}
    return {"kind": "usermax", "rows": rows}


def wire_kind(spec):
    k = spec["kind"]
    if k == "single":
        return ["single", spec["min"]]
    if k == "multi":
        return ["multi", list(spec["mins"])]
    if k == "multibool":
        return ["multi", [spec["min"]] * len(spec["rows"][0])]
    if k in ("user", "criteria"):
        return ["user", list(spec["w"])]
    return "usermax"


def wire_problem(spec):
    return [wire_kind(spec), [list(r) for r in spec["rows"]]]


def build_problem(spec, log, tag, delays=None):
    rows = spec["rows"]
    k = spec["kind"]
    if k == "single":
        return SingleObjectiveProblem(logging_ff(log, tag, lambda key: rows[key][0], delays), minimize=spec["min"])
    if spec.get("reuse_buffer"):
        # a fitness function that fills and returns ONE preallocated list (a common optimisation in user code):
        # what is recorded must be the values returned at the time of the call
        buf: list = []

        def into_buffer(key):
            buf[:] = rows[key]
            return buf
        ff = logging_ff(log, tag, into_buffer, delays)
    else:
        # (the components come back as a list, a tuple, a one-shot generator or a numpy array: read once, recorded as floats, and
        # the aggregate is computed from what was recorded)
        shape = spec.get("shape", "list")
        if shape == "generator":
            ff = logging_ff(log, tag, lambda key: (x for x in rows[key]), delays)
        elif shape == "tuple":
            ff = logging_ff(log, tag, lambda key: tuple(rows[key]), delays)
        elif shape == "array":
            import numpy as np
            ff = logging_ff(log, tag, lambda key: np.array(rows[key], dtype=float), delays)
        else:
            ff = logging_ff(log, tag, lambda key: list(rows[key]), delays)
    if k == "multi":
        return MultiObjectiveProblem(list(spec["mins"]), ff)
    if k == "multibool":
        return MultiObjectiveProblem(spec["min"], ff)
    if k == "user":
        w = list(spec["w"])
        return MultiObjectiveProblem([False] * len(w), ff, aggregate_fitness=lambda comps: sum(a * c for a, c in zip(w, comps)))
    if k == "criteria":
        w = list(spec["w"])
        return MultiObjectiveProblem([False] * len(w), ff, best_individual_criteria_function=lambda ph: sum(a * c for a, c in zip(w, rows[ph[1]])))
    return MultiObjectiveProblem([False] * len(rows[0]), ff, aggregate_fitness=lambda comps: max(comps) if comps else 0)


def wire_fitness(f):
    return [as_int(f.maximizing_aggregate), [as_int(c) for c in f.fitness_components]]


def caches_of(inds, problems):
    out = []
    for ind in inds:
        row = []
        for pr in list(ind.fitness_store.keys()):
            pi = next(i for i, q in enumerate(problems) if q is pr)
            f = ind.fitness_store[pr]
            row.append([pi, as_int(f.maximizing_aggregate), [as_int(c) for c in f.fitness_components]])
        out.append(row)
    return out


# ----------------------------------------------------------------------------------------
# aggregate
# ----------------------------------------------------------------------------------------

def check_aggregate(h: Harness):
    rng = h.rng
    for _ in range(h.n(150, 1500)):
        spec = gen_problem_spec(rng, 1)
        if rng.random() < 0.3:
            spec["rows"] = [[rng.choice([0, 0, 1, -1, 7]) for _ in spec["rows"][0]]]
        log = MemLog()
        if spec["kind"] != "single" and not spec.get("reuse_buffer"):
            spec["shape"] = rng.choice(["list", "list", "generator", "tuple", "array"])
            h.count("aggregate:components-as-" + spec["shape"])
        pr = build_problem(spec, log, 0)
        if spec["kind"] == "multi" and rng.random() < 0.4:
            # the directions are re-declared after construction (the same problem object reused for a run in the other direction): what counts
            # at an evaluation is what the problem declares THEN
            newmins = [not m if rng.random() < 0.6 else m for m in spec["mins"]]
            if rng.random() < 0.5:
                pr.minimize[:] = newmins
            else:
                pr.minimize = list(newmins)
            spec["mins"] = newmins
            h.count("aggregate:directions-redeclared")
        try:
            f = pr.evaluate((0, 0))
        except Exception as e:  # noqa: BLE001
            h.fail(type(pr).__name__ + ".evaluate", "raises", f"evaluate with {describe(spec)}, components {spec['rows'][0]} returned as a "
                   f"{spec.get('shape', 'list')}: {type(e).__name__}: {e}", {"spec": spec})
            continue
        site = type(pr).__name__ + ".evaluate"
        h.agree(site, ["aggregate", wire_kind(spec), spec["rows"][0]], wire_fitness(f),
                nontrivial=spec["kind"] != "single" and len(spec["rows"][0]) > 1)
        h.count("aggregate:" + spec["kind"])
        if len(log.read()) != 1:
            h.fail(site, "fitness-function-called-twice",
                   f"{site} with {describe(spec)} invoked the fitness function {len(log.read())} times for one evaluation "
                   f"(components {spec['rows'][0]})", {"spec": spec})


def describe(spec):
    k = spec["kind"]
    if k == "single":
        return f"SingleObjectiveProblem(minimize={spec['min']})"
    if k == "multi":
        return f"MultiObjectiveProblem(minimize={spec['mins']}) [default aggregate]"
    if k == "multibool":
        return f"MultiObjectiveProblem(minimize={spec['min']}) [default aggregate]"
    if k == "user":
        return f"MultiObjectiveProblem(aggregate_fitness=dot({spec['w']}))"
    if k == "criteria":
        return f"MultiObjectiveProblem(best_individual_criteria_function=dot({spec['w']}) of the program's components)"
    return "MultiObjectiveProblem(aggregate_fitness=max)"


# ----------------------------------------------------------------------------------------
# evaluator scenarios
# ----------------------------------------------------------------------------------------

def gen_scenario(rng, max_ind=6, max_calls=5):
    T = rng.randint(1, 4)
    n = rng.randint(1, max_ind)
    specs = [gen_problem_spec(rng, T) for _ in range(rng.randint(1, 3))]
    keys = [rng.randrange(T) for _ in range(n)]
    pre = []
    if rng.random() < 0.6:
        for p in range(len(specs)):
            for i in range(n):
                if rng.random() < 0.3:
                    pre.append((p, i))
        rng.shuffle(pre)
    calls = []
    for _ in range(rng.randint(1, max_calls)):
        p = rng.randrange(len(specs))
        shape = rng.random()
        if shape < 0.08:
            batch = []
        elif shape < 0.2:
            batch = [rng.randrange(n)]
        else:
            batch = [rng.randrange(n) for _ in range(rng.randint(1, 8))]
        calls.append((p, batch))
    return {"specs": specs, "keys": keys, "pre": pre, "calls": calls}


def gen_big_scenario(rng):
    """one batch of 17..26 distinct unevaluated individuals with pairwise different fitness values (a pool larger
    than the machine's core count, more individuals than any per-worker cap)"""
    n = rng.randint(17, 26)
    vals = list(range(-n, n * 2))
    rng.shuffle(vals)
    if rng.random() < 0.5:
        spec = {"kind": "single", "min": rng.random() < 0.5, "rows": [[vals[i]] for i in range(n)]}
    else:
        spec = {"kind": "multi", "mins": [rng.random() < 0.5, rng.random() < 0.5], "rows": [[vals[i], vals[n + i]] for i in range(n)]}
    keys = list(range(n))
    rng.shuffle(keys)
    return {"specs": [spec], "keys": keys, "pre": [], "calls": [(0, list(range(n)))]}


def dedupe(xs):
    out = []
    for x in xs:
        if x not in out:
            out.append(x)
    return out


def run_scenario(h: Harness, sc, evaluator_kind: str, tmpdir: str | None = None, via_tracker=False, delays=None):
    """Run one scenario on the real evaluator. Returns observation dict (or raises nothing: exceptions
    of the library are reported)."""
    specs, keys = sc["specs"], sc["keys"]
    if evaluator_kind == "par":
        log = FileLog(os.path.join(tmpdir, "invocations.log"))
    else:
        log = MemLog()
    problems = [build_problem(s, log, t, delays) for t, s in enumerate(specs)]
    inds = [mk_ind(i, k, LossyStrRep([0]) if sc.get("lossy_str") else None) for i, k in enumerate(keys)]
    for (p, i) in sc["pre"]:
        if not inds[i].has_fitness(problems[p]):
            inds[i].set_fitness(problems[p], problems[p].evaluate(inds[i].get_phenotype()))
    if evaluator_kind == "par":
        open(log.path, "w").close()  # forget the invocations of the preparation phase
    else:
        log.entries.clear()
    ev = ParallelEvaluator() if evaluator_kind == "par" else SequentialEvaluator()
    trackers = {}
    wire_calls = []
    presented = []
    site = type(ev).__name__ + ".evaluate"
    err = None
    for (p, batch) in sc["calls"]:
        before = len(log.read())
        pend = [i for i in dedupe(batch) if not inds[i].has_fitness(problems[p])]
        objs = [inds[i] for i in batch]
        try:
            if via_tracker:
                if p not in trackers:
                    cls = SingleObjectiveProgressTracker if specs[p]["kind"] == "single" else MultiObjectiveProgressTracker
                    trackers[p] = cls(problems[p], ev)
                trackers[p].evaluate(objs)
            else:
                # the batch arrives as a list, a tuple or a ONE-SHOT iterator (what a step's output is), in rotation
                k_form = (len(batch) + p + len(presented)) % 3
                ev.evaluate(problems[p], objs if k_form == 0 else (tuple(objs) if k_form == 1 else (o for o in objs)))
        except Exception as e:  # noqa: BLE001
            err = (p, batch, f"{type(e).__name__}: {e}")
            break
        presented += [[p, i] for i in batch]
        if evaluator_kind == "par":
            done = [u for (_, u) in log.read()[before:]]
            if sorted(done) == sorted(pend):
                wire_calls.append(["par", p, batch, [pend.index(u) for u in done]])
            else:
                wire_calls.append(None)
        else:
            wire_calls.append(["seq", p, batch])
    return {"count": ev.number_of_evaluations(), "log": [[t, u] for (t, u) in log.read()],
            "caches": caches_of(inds, problems), "calls": wire_calls, "presented": presented,
            "err": err, "site": site, "inds": inds, "problems": problems}


def wire_scenario(sc):
    return [[wire_problem(s) for s in sc["specs"]], list(sc["keys"]), [[p, i] for (p, i) in sc["pre"]]]


def nontrivial(sc):
    seen = set(sc["pre"])
    for (p, batch) in sc["calls"]:
        for i in batch:
            if (p, i) in seen:
                return True
            seen.add((p, i))
    return False


def short(sc):
    return (f"problems={[describe(s) for s in sc['specs']]} individuals={len(sc['keys'])} "
            f"pre-evaluated={sc['pre']} calls={sc['calls']}")


def judge(h: Harness, sc, ob, label: str):
    site = ob["site"]
    ps, phenos, pre = wire_scenario(sc)
    if ob["err"] is not None:
        p, batch, msg = ob["err"]
        kind = "raises-on-empty-batch" if not batch else "raises"
        h.fail(site, kind, f"{label}: evaluate(problem {p}, batch {batch}) raised {msg}; scenario {short(sc)}", {"scenario": sc})
        return
    if all(c is not None for c in ob["calls"]):
        h.agree(site, ["run", ps, phenos, pre, ob["calls"]], [ob["count"], ob["log"], ob["caches"]],
                nontrivial=nontrivial(sc), replay={"scenario": sc})
    h.holds(site, "dishonest-evaluation",
            ["prop_honest", ps, phenos, ob["count"], ob["log"], ob["caches"], ob["presented"]],
            f"{label}: counter={ob['count']} invocations={len(ob['log'])} log(problem,individual)={ob['log']}; scenario {short(sc)}",
            {"scenario": sc}, nontrivial=nontrivial(sc))
    # get_fitness(None): the fitness for the first problem stored
    for ind, cache in zip(ob["inds"], ob["caches"]):
        if cache:
            h.agree("Individual.get_fitness", ["default_fitness", cache], wire_fitness(ind.get_fitness()), nontrivial=len(cache) > 1)


def check_sequential(h: Harness):
    rng = h.rng
    for k in range(h.n(400, 4000)):
        sc = gen_scenario(rng)
        if k % 4 == 1:
            for spec in sc["specs"]:
                if spec["kind"] != "single":
                    spec["reuse_buffer"] = True
                    h.count("seq:fitness-function-reuses-one-list")
        ob = run_scenario(h, sc, "seq", via_tracker=(k % 3 == 2))
        h.count("seq:" + ("tracker" if k % 3 == 2 else "direct"))
        judge(h, sc, ob, "SequentialEvaluator" + (" via tracker" if k % 3 == 2 else ""))


CORPUS_PAR = [
    # already-evaluated individuals re-presented, a duplicate, then an empty batch
    {"specs": [{"kind": "single", "min": False, "rows": [[3], [1]]}], "keys": [0, 1, 0], "pre": [],
     "calls": [(0, [0, 1]), (0, [1, 2, 2, 0]), (0, [])]},
    {"specs": [{"kind": "multi", "mins": [True, False], "rows": [[1, 2], [3, 4]]}], "keys": [0, 1], "pre": [(0, 1)],
     "calls": [(0, [1]), (0, [0, 1, 0])]},
    # a multi-objective problem declared with ONE bool for all objectives (it learns their number from its first evaluation --
    # which, under the parallel evaluator, happens in a worker's copy), nothing evaluated beforehand
    {"specs": [{"kind": "multibool", "min": True, "rows": [[1, 2], [3, 4], [0, 5]]}], "keys": [0, 1, 2, 1], "pre": [],
     "calls": [(0, [0, 1]), (0, [2, 3, 0])]},
    {"specs": [{"kind": "multibool", "min": False, "rows": [[2], [1]]}, {"kind": "single", "min": True, "rows": [[4], [6]]}], "keys": [0, 1, 1], "pre": [],
     "calls": [(1, [0, 1]), (0, [0, 1, 2]), (0, [2, 0])]},
    # the aggregate is computed from the PROGRAM by a user criterion (not from the components)
    {"specs": [{"kind": "criteria", "w": [2, -1], "rows": [[1, 5], [3, 0], [2, 2]]}], "keys": [0, 1, 2], "pre": [],
     "calls": [(0, [0, 1, 2]), (0, [2, 1])]},
]


def check_parallel(h: Harness):
    rng = h.rng
    scenarios = [dict(s) for s in CORPUS_PAR]
    for _ in range(h.n(14, 80)):
        scenarios.append(gen_scenario(rng, max_ind=5, max_calls=3))
    for _ in range(h.n(2, 8)):
        scenarios.append(gen_big_scenario(rng))
        h.count("par:big-batches")
    with tempfile.TemporaryDirectory(prefix="c13-") as tmp:
        for k, sc in enumerate(scenarios):
            n = len(sc["keys"])
            if k % 3 == 0:
                # programs whose str() is the same for all of them: the fitness is a function of the program, not of its print-out
                sc["lossy_str"] = True
                h.count("par:programs-with-indistinguishable-str")
            skew = [0.0, 0.0, 0.01, 0.03, 0.06]
            delays = {i: rng.choice(skew) for i in range(n)}
            if k % 2 == 0:  # first worker slowest: completion order differs from submission order
                delays = {i: 0.01 * (n - i) for i in range(n)}
            ob = run_scenario(h, sc, "par", tmpdir=tmp, delays=delays)
            h.count("par:scenarios")
            for c in ob["calls"]:
                if c is not None and c[0] == "par" and c[3] != sorted(c[3]):
                    h.count("par:calls-completed-out-of-order")
            judge(h, sc, ob, "ParallelEvaluator")
            # the same scenario on the sequential evaluator: same fitness values on the same individuals, same counter
            ob2 = run_scenario(h, sc, "seq")
            if ob["err"] is None and ob2["err"] is None:
                h.holds("ParallelEvaluator.evaluate", "differs-from-sequential",
                        ["prop_same", [ob["count"], ob["caches"]], [ob2["count"], ob2["caches"]]],
                        f"parallel: counter={ob['count']} stores={ob['caches']}; sequential: counter={ob2['count']} stores={ob2['caches']}; "
                        f"scenario {short(sc)}", {"scenario": sc})


# ----------------------------------------------------------------------------------------
# whole GP runs: steps re-present individuals to the evaluator
# ----------------------------------------------------------------------------------------

class TapSequential(SequentialEvaluator):
    """The real sequential evaluator; additionally remembers every individual that passed through."""

    def __init__(self):
        super().__init__()
        self.seen = {}
        self.presented = []

    def evaluate_async(self, problem, individuals):
        individuals = list(individuals)
        for i in individuals:
            self.seen[uid(i)] = i
            self.presented.append(uid(i))
        yield from super().evaluate_async(problem, individuals)


class TapParallel(ParallelEvaluator):
    def __init__(self):
        super().__init__()
        self.seen = {}
        self.presented = []

    def evaluate_async(self, problem, individuals):
        individuals = list(individuals)
        for i in individuals:
            self.seen[uid(i)] = i
            self.presented.append(uid(i))
        yield from super().evaluate_async(problem, individuals)


def gp_steps():
    return [
        ("default", default_generic_programming_step),
        ("elitism|novelty", lambda: ParallelStep([ElitismStep(), NoveltyStep()], weights=[1, 1])),
        ("tournament;crossover(1);mutation(0.5)", lambda: SequenceStep(TournamentSelection(2), GenericCrossoverStep(1), GenericMutationStep(0.5))),
        ("elitism|tournament;mutation(1)", lambda: ParallelStep([ElitismStep(), SequenceStep(TournamentSelection(3), GenericMutationStep(1))], weights=[1, 2])),
        ("mutation(1);tournament", lambda: SequenceStep(GenericMutationStep(1), TournamentSelection(2))),
    ]


def check_gp_runs(h: Harness):
    rng = h.rng
    runs = []
    for name, mk in gp_steps():
        for pop in ([3, 6] if not h.thorough else [2, 3, 5, 8]):
            for kind in ("single", "multibool"):
                runs.append((name, mk, pop, kind, "seq"))
    if h.thorough:
        runs.append(("default", default_generic_programming_step, 4, "single", "par"))
        runs.append(("elitism|novelty", gp_steps()[1][1], 4, "multibool", "par"))
    else:
        runs.append(("elitism|novelty", gp_steps()[1][1], 3, "single", "par"))
    with tempfile.TemporaryDirectory(prefix="c13gp-") as tmp:
        for name, mk, pop, kind, evk in runs:
            T = 7
            arity = 1 if kind == "single" else 2
            rows = [[rng.randint(-5, 5) for _ in range(arity)] for _ in range(T)]
            spec = {"kind": kind, "min": rng.random() < 0.5, "rows": rows}
            log = FileLog(os.path.join(tmp, "gp.log")) if evk == "par" else MemLog()
            problem = build_problem(spec, log, 0)
            ev = TapParallel() if evk == "par" else TapSequential()
            cls = SingleObjectiveProgressTracker if kind == "single" else MultiObjectiveProgressTracker
            tracker = cls(problem, ev)
            rep = ScriptRep([rng.randrange(T) for _ in range(64)])
            target_evals = pop * (3 if evk == "par" else 5)

            class CheckCap(SearchBudget):
                """guard: a run whose counter never reaches the budget must still end (and is then
                judged by the honesty predicate: invocations without counted evaluations)"""

                def __init__(self, cap):
                    self.left = cap

                def is_done(self, tracker):
                    self.left -= 1
                    return self.left < 0

            cap = CheckCap(4 * target_evals + 20)
            budget = AnyOf(EvaluationBudget(target_evals), cap)
            gp = GeneticProgramming(problem=problem, budget=budget, representation=rep, random=NativeRandomSource(rng.randrange(10**6)),
                                    tracker=tracker, population_size=pop, step=mk())
            site = f"GeneticProgramming.search[{type(ev).__mro__[1].__name__}]"
            try:
                gp.search()
            except Exception as e:  # noqa: BLE001
                h.notes.append(f"C13 GP run step={name} pop={pop} raised {type(e).__name__}: {e} (not a C13 matter; skipped)")
                h.count("gp:raised")
                continue
            if cap.left < 0:
                h.fail(site, "evaluation-counter-frozen",
                       f"GP step={name} population={pop}: EvaluationBudget({target_evals}) was never reached within {4 * target_evals + 20} budget checks: "
                       f"counter={ev.number_of_evaluations()} while the fitness function was invoked {len(log.read())} times",
                       {"step": name, "pop": pop, "spec": spec})
            n = rep.n
            keys = [rep.keys[u % len(rep.keys)] for u in range(n)]
            inds = [ev.seen.get(u) for u in range(n)]
            caches = []
            for ind in inds:
                if ind is None or not ind.has_fitness(problem):
                    caches.append([])
                else:
                    f = ind.get_fitness(problem)
                    caches.append([[0, as_int(f.maximizing_aggregate), [as_int(c) for c in f.fitness_components]]])
            logl = [[t, u] for (t, u) in log.read()]
            h.count("gp:runs")
            h.count("gp:re-presented", len(ev.presented) - len(set(ev.presented)))
            h.holds(site, "dishonest-evaluation",
                    ["prop_honest", [wire_problem(spec)], keys, ev.number_of_evaluations(), logl, caches, [[0, u] for u in ev.presented]],
                    f"GP step={name} population={pop} {describe(spec)}: counter={ev.number_of_evaluations()} invocations={len(logl)} "
                    f"(individuals presented {len(ev.presented)} times, {len(set(ev.presented))} distinct)", {"step": name, "pop": pop, "spec": spec})


def check_unnumbered_objectives(h: Harness):
    """objectives that are NaN / +-inf for some programs (fitness functions do return them): whatever steps the individuals pass
    through afterwards -- lexicase and tournament selection, elitism, whole GP generations -- the fitness RECORDED for an individual
    stays what the fitness function returned for its program (compared textually: NaN is not equal to itself)"""
    import warnings
    from geneticengine.algorithms.gp.operators.selection import LexicaseSelection
    from geneticengine.solutions.individual import Individual
    warnings.filterwarnings("ignore", category=RuntimeWarning)
    rng = h.rng
    nan, inf = float("nan"), float("inf")
    for trial in range(h.n(20, 150)):
        n = rng.randint(4, 9)
        rows = [[rng.choice([0.0, 1.0, 2.0, 5.0, nan, inf, -inf]), rng.choice([0.0, 1.0, 3.0, nan]), float(rng.randint(0, 9))] for _ in range(n)]
        mins = [rng.random() < 0.5 for _ in range(3)]
        problem = MultiObjectiveProblem(list(mins), lambda ph: list(rows[ph[1]]))
        rep = ScriptRep(list(range(n)))
        inds = [mk_ind(i, i, rep) for i in range(n)]
        ev = SequentialEvaluator()
        ev.evaluate(problem, inds)
        r = NativeRandomSource(rng.randrange(10**6))
        steps = [("lexicase", lambda: LexicaseSelection()), ("epsilon-lexicase", lambda: LexicaseSelection(epsilon=True)),
                 ("tournament", lambda: TournamentSelection(2)), ("elitism", lambda: ElitismStep()),
                 ("seq[lexicase,mutation]", lambda: SequenceStep(LexicaseSelection(), GenericMutationStep(1)))]
        for sname, mk in steps:
            try:
                out = list(mk().apply(problem, ev, rep, r, list(inds), rng.randint(1, n), 0))
            except Exception as e:  # noqa: BLE001
                h.count(f"unnumbered:{sname}:raised:{type(e).__name__}")
                continue
            h.count(f"unnumbered:{sname}")
            h.seen(f"unnumbered:{trial}:{sname}", nontrivial=True)
            bad = None
            for ind in list(inds) + [o for o in out if o.has_fitness(problem)]:
                u, key = ind.get_phenotype()
                want = [repr(float(x)) for x in rows[key]]
                got = [repr(float(x)) for x in ind.get_fitness(problem).fitness_components]
                if got != want:
                    bad = (u, want, got)
                    break
            if bad:
                h.fail("SequentialEvaluator.evaluate", "recorded-fitness-is-not-what-the-fitness-function-returns",
                       f"after {sname}.apply the fitness recorded for individual #{bad[0]} is {bad[2]}, its fitness function returns {bad[1]} "
                       f"(minimize={mins})", {"rows": [[repr(x) for x in row] for row in rows], "mins": mins, "step": sname})
                break


def check_real_representations(h: Harness):
    """fitness must be computed from the phenotype the INDIVIDUAL keeps, for every representation and
    both evaluators: after evaluation, recorded fitness == ff(individual.get_phenotype()), and the
    parallel evaluator records what the sequential one records for individuals built the same way"""
    import sys as _sys
    import os as _os
    _sys.path.insert(0, _os.path.dirname(_os.path.dirname(_os.path.abspath(__file__))))
    import gram
    import synth
    from linear import DSGE, GE, SGE, Stack
    from geneticengine.representations.tree.treebased import TreeBasedRepresentation
    from geneticengine.solutions.individual import Individual
    from geneticengine.exceptions import GeneticEngineError
    import pargrammar
    g = pargrammar.grammar()
    ff = pargrammar.ff

    for name in ("tree", "GE", "SGE", "DynamicSGE", "Stack"):
        for evk in ("sequential", "parallel"):
            for seed in range(h.n(2, 8)):
                outs = []
                r = NativeRandomSource(1000 * seed + 7)
                rep = {"tree": lambda: TreeBasedRepresentation(g, synth.make_decider("grow", 4, r, g)),
                       "GE": lambda: GE(g, synth.make_decider("grow", 4, r, g), gene_length=32),
                       "SGE": lambda: SGE(g, synth.make_decider("grow", 4, r, g), gene_length=32),
                       "DynamicSGE": lambda: DSGE(g, 4), "Stack": lambda: Stack(g, gene_length=128)}[name]()
                inds = []
                for _ in range(4):
                    try:
                        inds.append(Individual(rep.create_genotype(r), rep))
                    except GeneticEngineError:
                        pass
                if len(inds) < 2:
                    continue
                problem = SingleObjectiveProblem(ff)
                ev = ParallelEvaluator() if evk == "parallel" else SequentialEvaluator()
                try:
                    ev.evaluate(problem, inds)
                    # ... and newcomers presented ONE AT A TIME (what Population does with every generation, what a mixed population with one
                    # new member amounts to), the shared random source moving on between two of them
                    for _ in range(3):
                        try:
                            one = Individual(rep.create_genotype(r), rep)
                        except GeneticEngineError:
                            continue
                        ev.evaluate(problem, [one])
                        r.randint(0, 10**6)
                        inds.append(one)
                        h.count(f"real-rep:{name}:{evk}:batches-of-one")
                except Exception as e:  # noqa: BLE001
                    h.count(f"real-rep:{name}:{evk}:raised:{type(e).__name__}")
                    continue
                h.seen(f"real-rep:{name}:{evk}:{seed}")
                h.count(f"real-rep:{name}:{evk}")
                for k, ind in enumerate(inds):
                    if not ind.has_fitness(problem):
                        continue
                    rec = ind.get_fitness(problem).fitness_components[0]
                    try:
                        real = ff(ind.get_phenotype())
                    except Exception:  # noqa: BLE001
                        continue
                    if rec != real:
                        h.fail(f"{'ParallelEvaluator' if evk == 'parallel' else 'SequentialEvaluator'}.evaluate", "fitness-not-of-the-individuals-program",
                               f"{name} individual #{k} (seed {seed}): recorded fitness {rec} but the fitness function returns {real} for the program "
                               f"the individual maps to", {"rep": name, "evaluator": evk, "seed": seed})
                        break


def check_weights_learnt_between_generations(h: Harness):
    """a generational loop in which the grammar's production weights are moved between two generations (probabilistic grammatical
    evolution): programs are mapped from integer genotypes by a decider that reads the weights, so an individual that is mapped
    AGAIN after the update may get another program -- the fitness recorded on every member of every generation is still the fitness
    of the program that member has, and nothing is evaluated twice"""
    import sys as _sys
    import os as _os
    _sys.path.insert(0, _os.path.dirname(_os.path.dirname(_os.path.abspath(__file__))))
    import gram
    import synth
    from linear import GE, SGE, safe
    from geneticengine.algorithms.gp.operators.combinators import ParallelStep, SequenceStep
    from geneticengine.algorithms.gp.operators.elitism import ElitismStep
    from geneticengine.algorithms.gp.operators.mutation import GenericMutationStep
    from geneticengine.algorithms.gp.operators.novelty import NoveltyStep
    from geneticengine.algorithms.gp.operators.selection import TournamentSelection
    from geneticengine.solutions.individual import Individual
    C = gram.ClassSpec
    rng = h.rng
    for trial in range(h.n(6, 40)):
        spec = gram.Spec([C("A0", True, None), C("Lit", False, 0, [("k", ("ann", "int", ("intRange", 0, 9)))], weight=4),
                          C("Add", False, 0, [("l", ("cls", 0)), ("r", ("cls", 0))], weight=3), C("Neg", False, 0, [("e", ("cls", 0))], weight=3)], 0, [1, 2, 3])
        b = gram.build(spec)
        g = b.extract()
        r = NativeRandomSource(rng.randrange(10**6))
        name = ("GE", "SGE")[trial % 2]
        rep = (GE if name == "GE" else SGE)(g, synth.make_decider("progressive", 5, r, g), gene_length=48)
        calls = []

        def ff(p, calls=calls):
            calls.append(1)
            return float(len(repr(p)) * 7 + repr(p).count("Neg"))
        problem = SingleObjectiveProblem(ff, minimize=False)
        ev = SequentialEvaluator()
        pop = []
        for _ in range(8):
            st, ge = safe(lambda: rep.create_genotype(r))
            if st == "ok":
                pop.append(Individual(ge, rep))
        step = ParallelStep([ElitismStep(), NoveltyStep(), SequenceStep(TournamentSelection(2), GenericMutationStep(1))], [2, 1, 5])
        ok = True
        for gen in range(h.n(4, 8)):
            st, _ = safe(lambda: ev.evaluate(problem, pop))
            if st != "ok":
                break
            for k, ind in enumerate(pop):
                if not ind.has_fitness(problem):
                    continue
                recd = ind.get_fitness(problem).fitness_components[0]
                st, ph = safe(lambda: ind.get_phenotype())
                if st != "ok":
                    continue
                n0 = len(calls)
                real = ff(ph)
                del calls[n0:]
                if recd != real:
                    h.fail("ElitismStep.apply" if gen else "SequentialEvaluator.evaluate", "recorded-fitness-is-not-what-the-function-returns",
                           f"{name} with the weight-aware decider, weights updated between generations: member {k} of generation {gen} has the recorded "
                           f"fitness {recd}, the fitness function gives {real} for its program {repr(ph)[:80]}", {"trial": trial, "gen": gen, "k": k})
                    ok = False
                    break
            if not ok:
                break
            if len(calls) != ev.number_of_evaluations():
                h.fail("SequentialEvaluator.evaluate", "dishonest-evaluation", f"{name}, weights updated between generations: the evaluator counted "
                       f"{ev.number_of_evaluations()} evaluations, the fitness function was invoked {len(calls)} times", {"trial": trial, "gen": gen})
                break
            # learning: the weights move (towards whatever; here by a random amount per production)
            g.update_weights(rng.choice([0.5, 1.0, 2.0]), {c: float(rng.randint(0, 5)) for c in b.classes})
            st, nxt = safe(lambda: list(step.apply(problem, ev, rep, r, list(pop), len(pop), gen + 1)))
            if st != "ok":
                break
            pop = nxt
        h.count(f"weights-learnt-between-generations:{name}")
        h.seen(f"learnt:{trial}:{name}", nontrivial=True)


def check_counter_with_unusable_values(h: Harness):
    """a fitness function that returns NaN (or an inf - inf aggregate) for some programs is still a call of the fitness function: the
    counter equals the number of invocations under both evaluators"""
    rng = h.rng
    for trial in range(h.n(12, 100)):
        n = rng.randint(3, 9)
        vals = [rng.choice([float("nan"), float("inf"), 1.0, 2.0, -3.0]) for _ in range(n)]
        calls = []
        multi = trial % 2 == 1

        def ff(ph, calls=calls):
            calls.append(ph[0])
            return [vals[ph[0]], vals[ph[0]]] if multi else vals[ph[0]]
        problem = MultiObjectiveProblem([False, True], ff) if multi else SingleObjectiveProblem(ff, minimize=trial % 4 == 0)
        ev = SequentialEvaluator()
        inds = [mk_ind(i, i) for i in range(n)]
        try:
            ev.evaluate(problem, inds[: n // 2])
            ev.evaluate(problem, inds)
        except Exception as e:  # noqa: BLE001
            h.fail("SequentialEvaluator.evaluate", "raises", f"fitness values {vals}: {type(e).__name__}: {e}", {"vals": [repr(v) for v in vals]})
            continue
        h.count("counter-with-unusable-values")
        h.seen(f"unusable:{[repr(v) for v in vals]}:{multi}", nontrivial=True)
        if not multi:
            # "the aggregate used for comparisons is that value when maximising, its negation when minimising" -- infinities included
            mn = trial % 4 == 0
            wrong = [(i, vals[i], inds[i].get_fitness(problem).maximizing_aggregate) for i in range(n)
                     if repr(float(inds[i].get_fitness(problem).maximizing_aggregate)) != repr(-vals[i] if mn else vals[i])]
            if wrong:
                i, v, a = wrong[0]
                h.fail("SingleObjectiveProblem.evaluate", "aggregate-is-not-the-signed-value",
                       f"single-objective problem (minimize={mn}): the fitness function returns {v!r} for individual {i}, the aggregate recorded for comparisons is "
                       f"{a!r}; expected {(-v if mn else v)!r}", {"vals": [repr(x) for x in vals], "minimize": mn})
        if ev.number_of_evaluations() != len(calls) or len(calls) != n:
            h.fail("SequentialEvaluator.evaluate", "counter-differs-from-invocations",
                   f"{'multi' if multi else 'single'}-objective problem, fitness values {[repr(v) for v in vals]}: the fitness function was invoked {len(calls)} times for "
                   f"{n} individuals, the evaluation counter says {ev.number_of_evaluations()}", {"vals": [repr(v) for v in vals], "multi": multi})


def check_adaptive_gp_counter(h: Harness):
    """AdaptiveGeneticProgramming (adaptive mutation / crossover probabilities, feedback on the slice weights, a population size that
    changes): whatever its steps look at on the way, the fitness function is invoked through the evaluator -- the evaluation counter
    equals the number of invocations, nobody is evaluated twice, and what is recorded is what the function returned"""
    from geneticengine.algorithms.gp.adaptive import AdaptiveGeneticProgramming
    from geneticengine.algorithms.gp.structure import PopulationInitializer
    from geneticengine.evaluation.budget import TimeBudget
    from geneticengine.solutions.individual import Individual

    class Plain(PopulationInitializer):
        def initialize(self, problem, representation, random, target_size, **kwargs):
            for _ in range(target_size):
                yield Individual(representation.create_genotype(random), representation)
    rng = h.rng
    for trial in range(h.n(3, 30)):
        keys = [rng.randint(0, 500) for _ in range(997)]
        calls: list = []

        def ff(ph, calls=calls):
            calls.append(ph[0])
            return float(ph[1])
        problem = SingleObjectiveProblem(ff, minimize=trial % 2 == 0)
        tracker = SingleObjectiveProgressTracker(problem, SequentialEvaluator())
        try:
            alg = AdaptiveGeneticProgramming(problem, AnyOf(EvaluationBudget(rng.choice([600, 1200])), TimeBudget(60)), ScriptRep(keys),
                                             NativeRandomSource(rng.randrange(10**6)), tracker)
            alg.population_initializer = Plain()
            alg.population_size = rng.choice([40, 100])
            alg.search()
        except Exception as e:  # noqa: BLE001
            h.fail("AdaptiveGeneticProgramming.search", "raises", f"AdaptiveGeneticProgramming raised {type(e).__name__}: {e}"[:300], {"trial": trial})
            continue
        h.count("adaptive-gp-counter-runs")
        h.seen(f"adaptive-counter:{trial}", nontrivial=len(calls) > 200)
        n = tracker.get_number_evaluations()
        if n != len(calls):
            h.fail("AdaptiveGeneticProgramming.search", "counter-differs-from-invocations",
                   f"AdaptiveGeneticProgramming: the fitness function was invoked {len(calls)} times, the evaluation counter says {n}", {"trial": trial})
        elif len(set(calls)) != len(calls):
            h.fail("AdaptiveGeneticProgramming.search", "fitness-function-called-twice",
                   f"AdaptiveGeneticProgramming: {len(calls) - len(set(calls))} individuals were handed to the fitness function more than once", {"trial": trial})


def check_simplegp_problems(h: Harness):
    """the problem the SimpleGP wrapper builds from a fitness function and a `minimize` given as a bool, as a list of one, or as a
    longer list: the aggregate is the value when maximising, its negation when minimising, the signed sum for several objectives"""
    from geml.simplegp import SimpleGP
    for minimize in (False, True, [False], [True], [False, True], [True, True], [False, False, True]):
        k = len(minimize) if isinstance(minimize, list) else 1
        mins = minimize if isinstance(minimize, list) else [minimize]
        for comps in ([2.0, 5.0, 1.0], [0.0, 3.0, 4.0], [-1.5, 2.0, 7.0]):
            vals = comps[:k]

            def ff(p, vals=vals, as_list=isinstance(minimize, list)):
                return list(vals) if as_list else vals[0]
            try:
                problem = SimpleGP.process_problem(None, ff, minimize)
                f = problem.evaluate("program")
            except Exception as e:  # noqa: BLE001
                h.fail("SimpleGP.process_problem", "raises", f"SimpleGP.process_problem(fitness_function, minimize={minimize}) / evaluate raised {type(e).__name__}: {e}", [str(minimize)])
                break
            want = sum(-v if m else v for v, m in zip(vals, mins))
            h.count("simplegp-problems")
            h.seen(f"simplegp-problem:{minimize}:{vals}", nontrivial=True)
            if [float(c) for c in f.fitness_components] != vals or float(f.maximizing_aggregate) != want:
                h.fail("SimpleGP.process_problem", "wrong-direction",
                       f"the problem SimpleGP builds for minimize={minimize} records components {list(f.fitness_components)} and the maximising aggregate "
                       f"{f.maximizing_aggregate} for the fitness value(s) {vals}; the declared directions give {want}", [str(minimize), vals])
                break


def check_parallel_sees_current_data(h: Harness):
    """a fitness function that reads module-level data (the data set of the user's script), replaced between two evaluations: the
    parallel evaluator records, for every batch, what the fitness function returns NOW -- the values the sequential evaluator records.
    (Fresh interpreter; the two batches have different sizes.)"""
    import os
    import subprocess
    import sys
    code = (
        "import json, pargrammar\n"
        "from geneticengine.evaluation.parallel import ParallelEvaluator\n"
        "from geneticengine.evaluation.sequential import SequentialEvaluator\n"
        "from geneticengine.problems import SingleObjectiveProblem\n"
        "from geneticengine.random.sources import NativeRandomSource\n"
        "from geneticengine.representations.tree.initializations import MaxDepthDecider\n"
        "from geneticengine.representations.tree.treebased import TreeBasedRepresentation\n"
        "from geneticengine.solutions.individual import Individual\n"
        "g = pargrammar.grammar(); r = NativeRandomSource(SEED); rep = TreeBasedRepresentation(g, MaxDepthDecider(r, g, 4))\n"
        "out = []\n"
        "for target, n in ((3, SIZES[0]), (40, SIZES[1]), (7, SIZES[2])):\n"
        "    pargrammar.DATA['target'] = target\n"
        "    trees = [rep.create_genotype(r) for _ in range(n)]\n"
        "    par = [Individual(t, rep) for t in trees]; seq = [Individual(t, rep) for t in trees]\n"
        "    pp = SingleObjectiveProblem(pargrammar.ff_data); ps = SingleObjectiveProblem(pargrammar.ff_data)\n"
        "    ParallelEvaluator().evaluate(pp, par); SequentialEvaluator().evaluate(ps, seq)\n"
        "    out.append([target, [i.get_fitness(pp).fitness_components[0] for i in par], [i.get_fitness(ps).fitness_components[0] for i in seq],\n"
        "                [pargrammar.ff_data(t) for t in trees]])\n"
        "print('C13DATA ' + json.dumps(out))\n")
    rng = h.rng
    for trial in range(h.n(1, 4)):
        sizes = rng.choice([[3, 5, 4], [2, 6, 3], [4, 7, 2]])
        seed = rng.randrange(10**6)
        env = dict(os.environ, PYTHONPATH=os.environ.get("VERIF_REPO", "/repo") + os.pathsep + os.path.dirname(os.path.dirname(os.path.abspath(__file__))))
        try:
            p = subprocess.run([sys.executable, "-c", code.replace("SEED", str(seed)).replace("SIZES", repr(sizes))], capture_output=True, text=True, env=env, timeout=300)
        except subprocess.TimeoutExpired:
            h.notes.append("parallel-sees-current-data: the fresh interpreter did not finish in 300 s; no verdict")
            continue
        line = next((x for x in p.stdout.splitlines() if x.startswith("C13DATA ")), None)
        if line is None:
            h.fail("ParallelEvaluator.evaluate", "raises", f"three parallel evaluations of batches {sizes} in a fresh interpreter failed: {p.stderr.strip()[-300:]}", [sizes, seed])
            continue
        h.count("parallel-sees-current-data")
        h.seen(f"par-current-data:{sizes}:{seed}", nontrivial=True)
        for k, (target, par, seq, now) in enumerate(json.loads(line[len("C13DATA "):])):
            if par != seq or par != now:
                h.fail("ParallelEvaluator.evaluate", "differs-from-sequential",
                       f"batch #{k + 1} ({len(par)} individuals, module-level data set to target={target} before it, batches so far {sizes[:k + 1]}): the parallel "
                       f"evaluator recorded {par}, the sequential one {seq}; the fitness function returns {now} for these programs", [sizes, seed, k])
                break


def run(h: Harness):
    check_parallel_sees_current_data(h)
    check_adaptive_gp_counter(h)
    check_counter_with_unusable_values(h)
    check_unnumbered_objectives(h)
    check_simplegp_problems(h)
    check_weights_learnt_between_generations(h)
    check_real_representations(h)
    check_aggregate(h)
    check_sequential(h)
    check_gp_runs(h)
    check_parallel(h)
