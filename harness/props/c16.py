"""C16 -- elitism keeps the best: top-k selection and monotone best fitness.

Implementation side: the real `ElitismStep.apply` (list / Population / one-shot iterator inputs,
both optimisation directions through `SingleObjectiveProblem(minimize=…)` and a multi-objective
problem), `problems.helpers.sort_population`, and whole `GeneticProgramming.search()` runs whose
step reserves at least one elitism slot, observed through a `SearchRecorder`.
Model side: lean/GEVerif/Model/Steps.lean (`sortDesc`, `apply .elitism`, `gpGenerations`);
theorems: lean/GEVerif/Props/C16.lean.
"""
from __future__ import annotations

import itertools

from core import Harness

from props import steps_common as sc
from props.steps_common import FORMS, StubRep, TwoStreamSource

from geneticengine.algorithms.gp.gp import GeneticProgramming, default_generic_programming_step
from geneticengine.algorithms.gp.operators.combinators import ParallelStep
from geneticengine.algorithms.gp.operators.elitism import ElitismStep
from geneticengine.algorithms.gp.operators.initializers import StandardInitializer
from geneticengine.evaluation.sequential import SequentialEvaluator
from geneticengine.evaluation.tracker import MultiObjectiveProgressTracker, SingleObjectiveProgressTracker
from geneticengine.problems import MultiObjectiveProblem, SingleObjectiveProblem
from geneticengine.problems.helpers import sort_population
from geneticengine.random.sources import NativeRandomSource
from geneticengine.solutions.individual import Individual

RULE = ("elitism: EVERY fitness vector over {0,1,2}^n for n<=4 (thorough n<=5) x every elite count k=0..n+1 x {list, Population, "
        "one-shot iterator} x {maximise, minimise, multi-objective aggregate}, then seeded random populations of 5..12 with ties and "
        "identity-duplicates; runs: GeneticProgramming.search with a recording SearchRecorder for steps whose ParallelStep gives an "
        "ElitismStep a non-empty slice (stub representation under scripted draws: every generation reproduced by the model; tree "
        "representation under NativeRandomSource, both directions, up to 40 generations in the thorough tier). Non-trivial: "
        "population >= 2 with 1 <= k < n, or a run of >= 2 generations; distinct = distinct protocol lines")
ASSUMPTIONS = [
    "fitness values are integers (an arbitrary linear order); NaN fitness is outside the order",
    "the default step's elite share is round(5% of the population): for population_size <= 10 it is 0, the statement is conditional "
    "on at least one elitism slot, so such runs are only counted (not required to be monotone)",
    "run monotonicity is checked on the aggregate the library itself computed (maximising aggregate; minimisation = negated value)",
]


def build_problem(kind):
    if kind == "multi":
        return sc.make_problem([False])
    if kind == "multi-min":
        # a multi-objective problem that happens to have ONE objective, minimised
        return MultiObjectiveProblem(minimize=[True], fitness_function=lambda p: [p[1]])   # (the library's default aggregate)
    if kind == "multi-bool-max":
        # ONE bool for all objectives (their number is only known after the first evaluation), and it says "maximise"
        return MultiObjectiveProblem(minimize=False, fitness_function=lambda p: [p[1]])
    if kind == "multi-bool-min":
        return MultiObjectiveProblem(minimize=True, fitness_function=lambda p: [p[1]])
    if kind == "multi-both":
        # BOTH a user aggregate and a criterion for the best individual, which disagree: the aggregate is what `is_better` and the
        # recorded fitness go by (aggregate_fitness takes precedence in evaluate), so it is what "best" means for elitism too
        return MultiObjectiveProblem(minimize=[False], fitness_function=lambda p: [p[1]], aggregate_fitness=lambda comps: comps[0],
                                     best_individual_criteria_function=lambda p: -p[1])
    return SingleObjectiveProblem(lambda p: p[1], minimize=(kind == "min"))


def lib_pop(inds, problem):
    for i in inds:
        i.ensure_fitness(problem)
    return [sc.impl_fitness(i, problem) for i in inds]


def elitism_case(h: Harness, values, shape, k, form, kind, tag):
    rep = StubRep(1)
    problem = build_problem(kind)
    objs, inds = {}, []
    for oid in shape:
        if oid not in objs:
            objs[oid] = Individual((oid, values[oid], (values[oid],)), rep)
        inds.append(objs[oid])
    population = sc.as_form(form, inds, problem)
    res = sc.run_step(ElitismStep(), problem, rep, TwoStreamSource([]), population, k)
    pop = lib_pop(inds, problem)
    n = len(pop)
    replay = {"values": values, "shape": shape, "k": k, "form": form, "direction": kind}
    nontrivial = n >= 2 and 1 <= k < n
    h.count(f"elitism:{tag}:{kind}:{form}")
    if isinstance(res, str):
        h.agree("ElitismStep.apply", ["elitism", form, pop, k], "error", nontrivial=nontrivial, replay=replay)
        h.fail("ElitismStep.apply", "raises", f"ElitismStep.apply on {pop} ({form}), target_size={k}: {res}", replay)
        return
    out = [sc.impl_fitness(i, problem) for i in res]
    h.agree("ElitismStep.apply", ["elitism", form, pop, k], [o[0] for o in out], nontrivial=nontrivial, replay=replay)
    h.holds("ElitismStep.apply", "not-top-k", ["prop_topk", pop, k, out],
            f"ElitismStep.apply [{kind}] on (id, aggregate, components)={pop} given as a {form}, target_size={k}, returned {[o[0] for o in out]}: "
            f"not min(k, len) members of the population, or an excluded individual is strictly better than an included one",
            replay, nontrivial=nontrivial)
    # the aggregate the library sorts by is the value itself, negated under minimisation
    minimised = kind in ("min", "multi-min", "multi-bool-min")
    pname = "MultiObjectiveProblem" if kind.startswith("multi") else "SingleObjectiveProblem"
    for p, oid in zip(pop, shape):
        h.holds(f"{pname}.evaluate", "wrong-direction", ["prop_direction", minimised, values[oid], p[1]],
                f"{pname}(minimize={'[True]' if kind == 'multi-min' else minimised}{', one bool for all objectives' if 'bool' in kind else ''}) gave value {values[oid]} the maximising aggregate {p[1]}: "
                f"elitism then keeps the {'worst' if minimised else 'best'} individuals", replay, nontrivial=False)


def check_elitism(h: Harness):
    rng = h.rng
    nmax = 5 if h.thorough else 4
    for n in range(0, nmax + 1):
        for values in itertools.product(range(3), repeat=n):
            for k in range(0, n + 2):
                for kind in ("max", "min", "multi", "multi-min", "multi-both", "multi-bool-max", "multi-bool-min"):
                    for form in FORMS:
                        if n == 5 and form == "population":
                            continue
                        elitism_case(h, list(values), list(range(n)), k, form, kind, "exhaustive")
    h.exhaustive = True
    for _ in range(h.n(150, 2000)):
        n = rng.randint(5, 12)
        shape = list(range(n))
        for s in range(n):
            if s and rng.random() < 0.15:
                shape[s] = shape[rng.randrange(s)]
        values = [rng.randint(-4, 4) for _ in range(n)]
        elitism_case(h, values, shape, rng.randint(0, n + 1), rng.choice(FORMS), rng.choice(["max", "min", "multi", "multi-min", "multi-both", "multi-bool-max", "multi-bool-min"]), "random")
    # a few elites out of a LARGE population (the default step keeps 5%), many ties at the cut
    for _ in range(h.n(400, 3000)):
        n = rng.randint(20, 60)
        k = rng.randint(2, max(2, n // 10))
        values = [rng.randint(0, rng.choice([2, 3, 4])) for _ in range(n)]
        elitism_case(h, values, list(range(n)), k, rng.choice(FORMS), rng.choice(["max", "min", "multi", "multi-min", "multi-both", "multi-bool-max", "multi-bool-min"]), "large")
    # sort_population: stable, best first
    for _ in range(h.n(100, 1000)):
        n = rng.randint(0, 9)
        rep = StubRep(1)
        kind = rng.choice(["max", "min", "multi", "multi-min", "multi-both", "multi-bool-max", "multi-bool-min"])
        problem = build_problem(kind)
        inds = [Individual((i, rng.randint(0, 3), (0,)), rep) for i in range(n)]
        pop = lib_pop(inds, problem)
        out = sort_population(list(inds), problem)
        h.count("sort_population")
        h.agree("sort_population", ["sort", pop], [i.genotype[0] for i in out], nontrivial=n >= 2)


def check_problem_turnover(h: Harness):
    """the same individuals ranked under one problem, which is then dropped (garbage-collected), and under a NEW problem
    with the opposite direction -- a new object that the allocator may place where the old one was"""
    import gc
    rng = h.rng
    for trial in range(h.n(20, 200)):
        n = rng.randint(3, 8)
        vals = [rng.randint(-5, 5) for _ in range(n)]
        rep = StubRep(1)
        inds = [Individual((i, v, (v,)), rep) for i, v in enumerate(vals)]
        first_min = rng.random() < 0.5
        # every other trial: ONE fitness function object shared by the problems, which all stay alive (a maximising and a
        # minimising problem over the same function are different problems)
        shared = (lambda p: p[1]) if trial % 2 == 1 else None
        alive = []
        for stage in range(3):
            minimize = first_min if stage % 2 == 0 else not first_min
            problem = SingleObjectiveProblem(shared or (lambda p: p[1]), minimize=minimize)
            if shared is not None:
                alive.append(problem)
            k = rng.randint(1, n - 1)
            res = sc.run_step(ElitismStep(), problem, rep, TwoStreamSource([]), list(inds), k)
            pop = [[i, (-v if minimize else v), [v]] for i, v in enumerate(vals)]
            replay = {"values": vals, "k": k, "stage": stage, "minimize": minimize}
            h.count("elitism:problem-turnover")
            h.seen(f"turnover:{trial}:{stage}", nontrivial=stage > 0)
            if isinstance(res, str):
                h.fail("ElitismStep.apply", "raises", f"stage {stage}: {res}", replay)
            else:
                out = [[i.genotype[0], (-i.genotype[1] if minimize else i.genotype[1]), [i.genotype[1]]] for i in res]
                h.holds("ElitismStep.apply", "not-top-k", ["prop_topk", pop, k, out],
                        f"stage {stage + 1} of 3 on the same individuals (values {vals}), each stage under a NEW SingleObjectiveProblem(minimize={minimize}) "
                        + ("over the SAME fitness function object as the earlier problems, which are still alive" if shared is not None else
                           "created after the previous one was dropped") + f": the elite of {k} has values {[i.genotype[1] for i in res]}", replay)
            del problem
            gc.collect()


def _slow_first(p):
    """fitness of uneven cost: the individuals with id 0 and 1 take longest, so that pool workers finish out of order"""
    import time
    if p[0] <= 1:
        time.sleep(0.25 - 0.1 * p[0])
    return p[1]


def check_parallel_evaluator(h: Harness):
    """the elitism step evaluates what it is given with the evaluator it is handed: with the parallel evaluator, on pools
    that are unevaluated or partly evaluated and a fitness function of uneven cost, the elite must be the best by the fitness the
    problem assigns to each program"""
    from geneticengine.evaluation.parallel import ParallelEvaluator
    rng = h.rng
    for trial, (kind, pre) in enumerate([("max", lambda n, j: False), ("min", lambda n, j: j % 2 == 0), ("max", lambda n, j: j < n // 2)]):
        n = rng.randint(6, 8)
        vals = rng.sample(range(-9, 10), n)
        rep = StubRep(1)
        minimize = kind == "min"
        problem = SingleObjectiveProblem(_slow_first, minimize=minimize)
        inds = [Individual((i, v, (v,)), rep) for i, v in enumerate(vals)]
        ev = ParallelEvaluator()
        already = [i for j, i in enumerate(inds) if pre(n, j)]
        if already:
            ev.evaluate(problem, already)
        k = rng.randint(1, n - 1)
        replay = {"values": vals, "k": k, "direction": kind, "pre_evaluated": [i.genotype[0] for i in already]}
        h.count("elitism:parallel-evaluator")
        h.seen(f"parallel-elitism:{trial}", nontrivial=True)
        try:
            res = list(ElitismStep().apply(problem, ev, rep, TwoStreamSource([]), list(inds), k, 1))
        except Exception as e:  # noqa: BLE001
            h.fail("ElitismStep.apply", "raises", f"ElitismStep with ParallelEvaluator on values {vals}: {type(e).__name__}: {e}", replay)
            continue
        pop = [[i, (-v if minimize else v), [v]] for i, v in enumerate(vals)]
        out = [[i.genotype[0], (-i.genotype[1] if minimize else i.genotype[1]), [i.genotype[1]]] for i in res]
        h.holds("ElitismStep.apply", "not-top-k", ["prop_topk", pop, k, out],
                f"ElitismStep.apply [{kind}] with the ParallelEvaluator on individuals with values {vals} (pre-evaluated: {replay['pre_evaluated']}; the "
                f"fitness function takes longest on the first two), target_size={k}: the elite has values {[i.genotype[1] for i in res]}", replay)
        stored = [i.get_fitness(problem).fitness_components[0] for i in inds]
        if stored != [float(v) for v in vals]:
            h.fail("ElitismStep.apply", "ranks-by-fitness-of-another-individual",
                   f"after ElitismStep with the ParallelEvaluator the individuals with values {vals} carry the fitness values {stored}", replay)


def check_simplegp_elitism(h: Harness):
    """the geml wrapper builds its step from `elitism`, `novelty` and `population_size`: with `elitism >= 1` the run it performs
    reserves that many elitism slots -- the best fitness never gets worse, and the `elitism` best values of one generation are
    matched or beaten, rank by rank, by the `elitism` best of the next"""
    import pargrammar
    from geml.simplegp import SimpleGP
    g = pargrammar.grammar()
    for (e, nov, pop, minimize, seed) in [(2, 0, 8, False, 1), (2, 0, 8, True, 2), (3, 1, 9, False, 3), (1, 3, 8, True, 4), (1, 0, 6, False, 5), (4, 0, 10, True, 6)]:
        desc = f"SimpleGP(elitism={e}, novelty={nov}, population_size={pop}, minimize={minimize}, seed={seed})"
        replay = {"elitism": e, "novelty": nov, "population_size": pop, "minimize": minimize, "seed": seed}
        rec = sc.GenRecorder(limit=5000)
        try:
            sgp = SimpleGP(pargrammar.ff_plain, g, minimize=minimize, max_depth=5, max_evaluations=pop * 12, max_time=60, population_size=pop,
                           elitism=e, novelty=nov, seed=seed)
            sgp.gp.tracker.recorders.append(rec)
            sgp.gp.search()
        except Exception as ex:  # noqa: BLE001
            h.fail("SimpleGP.search", "raises", f"{desc}: {type(ex).__name__}: {ex}"[:300], replay)
            continue
        problem = sgp.gp.problem
        gens = rec.generations()
        aggs = [sorted((as_int_agg(i.get_fitness(problem).maximizing_aggregate) for i in gen), reverse=True) for gen in gens]
        h.count("simplegp-runs")
        h.seen(f"simplegp-elitism:{e}:{nov}:{pop}:{minimize}", nontrivial=len(gens) > 2)
        h.holds("SimpleGP.build_step", "best-fitness-decreased", ["prop_monotone", [a[0] for a in aggs if a]],
                f"{desc}: best aggregate per generation {[a[0] for a in aggs if a]}", replay)
        for k, (a, b_) in enumerate(zip(aggs, aggs[1:])):
            worse = [j for j in range(min(e, len(a), len(b_))) if b_[j] < a[j]]
            if worse:
                h.fail("SimpleGP.build_step", "elite-slots-not-reserved",
                       f"{desc}: the {e} best aggregates of generation {k} are {a[:e]}, those of generation {k + 1} are {b_[:e]}: with {e} elitism slots every "
                       f"rank is matched or beaten", replay)
                break


def as_int_agg(x: float) -> int:
    i = int(round(x))
    assert float(i) == float(x), x
    return i


TINY16 = [("0.5+k*2^-40", lambda k: 0.5 + k * 2.0 ** -40), ("1+k*2^-52", lambda k: 1.0 + k * 2.0 ** -52), ("1e9+k*1e-6", lambda k: 1e9 + k * 1e-6),
          ("-(7+k*1e-12)", lambda k: -(7.0 + (60 - k) * 1e-12)), ("k*1e-300", lambda k: k * 1e-300)]


def check_near_equal_fitness(h: Harness):
    """"best" is an order, not a distance: fitness values that differ in the 10th digit or by one ulp are different values, and an
    excluded individual must not be strictly better than an included one however small the difference.  Judged by the same
    predicate on the RANKS of the values."""
    rng = h.rng
    for trial in range(h.n(60, 600)):
        name, f = TINY16[trial % len(TINY16)]
        n = rng.randint(3, 9)
        ranks = [rng.randint(0, 60) for _ in range(n)]
        kind = ("max", "min")[trial % 2]
        vals = [f(k) for k in ranks]
        rep = StubRep(1)
        problem = SingleObjectiveProblem(lambda p: p[1], minimize=(kind == "min"))
        inds = [Individual((i, v, (v,)), rep) for i, v in enumerate(vals)]
        # (individuals arrive in several "generations": an order by anything but fitness would show)
        for j, ind in enumerate(inds):
            ind.metadata["generation"] = j % 3
        k = rng.randint(1, n - 1)
        form = rng.choice(FORMS)
        res = sc.run_step(ElitismStep(), problem, rep, TwoStreamSource([]), sc.as_form(form, inds, problem), k)
        pop = [[i, (-r if kind == "min" else r), [0]] for i, r in enumerate(ranks)]
        replay = {"ranks": ranks, "scale": name, "k": k, "form": form, "direction": kind}
        h.count("elitism:near-equal-fitness:" + name)
        h.seen(f"near-equal:{trial}", nontrivial=True)
        if isinstance(res, str):
            h.fail("ElitismStep.apply", "raises", f"ElitismStep.apply [{kind}] on values {[repr(v) for v in vals]}, target_size={k}: {res}", replay)
            continue
        out = [pop[i.genotype[0]] for i in res]
        h.holds("ElitismStep.apply", "not-top-k", ["prop_topk", pop, k, out],
                f"ElitismStep.apply [{kind}] on values {[repr(v) for v in vals]} (ranks {ranks}, scale {name}) given as a {form}, target_size={k}, returned the "
                f"individuals with values {[repr(i.genotype[1]) for i in res]}: an excluded individual is strictly better than an included one", replay)


def check_infinite_fitness(h: Harness):
    """fitness values at the ends of the number line: an infinitely GOOD individual (inf when maximising, -inf when
    minimising) must be in every non-empty elite, an infinitely bad one only when nothing else is left.  Judged by the
    same predicate with the infinities mapped to integers beyond all other values."""
    rng = h.rng
    inf = float("inf")
    BIG = 10**9
    for trial in range(h.n(60, 600)):
        n = rng.randint(2, 9)
        kind = rng.choice(["max", "min"])
        vals = [float(rng.randint(-3, 3)) for _ in range(n)]
        for j in rng.sample(range(n), rng.randint(1, min(2, n))):
            vals[j] = rng.choice([inf, -inf])
        rep = StubRep(1)
        problem = SingleObjectiveProblem(lambda p: p[1], minimize=(kind == "min"))
        inds = [Individual((i, v, (v,)), rep) for i, v in enumerate(vals)]
        k = rng.randint(1, n)
        form = rng.choice(FORMS)
        res = sc.run_step(ElitismStep(), problem, rep, TwoStreamSource([]), sc.as_form(form, inds, problem), k)

        def agg(v):
            a = -v if kind == "min" else v
            return BIG if a == inf else (-BIG if a == -inf else int(a))
        pop = [[i, agg(v), [0]] for i, v in enumerate(vals)]
        replay = {"values": [repr(v) for v in vals], "k": k, "form": form, "direction": kind}
        h.count("elitism:infinite-fitness")
        h.seen(f"inf:{trial}", nontrivial=True)
        if isinstance(res, str):
            h.fail("ElitismStep.apply", "raises", f"ElitismStep.apply [{kind}] on values {replay['values']}, target_size={k}: {res}", replay)
            continue
        out = [[i.genotype[0], agg(i.genotype[1]), [0]] for i in res]
        h.holds("ElitismStep.apply", "not-top-k", ["prop_topk", pop, k, out],
                f"ElitismStep.apply [{kind}] on values {replay['values']} given as a {form}, target_size={k}, returned the individuals with values "
                f"{[repr(i.genotype[1]) for i in res]}: an excluded individual is strictly better than an included one", replay)


# ----------------------------------------------------------------------------------------
# runs
# ----------------------------------------------------------------------------------------

def elite_slots(step_tree, n):
    """sizes of the slices the top-level ParallelStep gives to its ElitismStep sub-steps (implementation's own compute_ranges)"""
    if isinstance(step_tree, str) or step_tree[0] != "par":
        return []
    real = ParallelStep([sc.real_step(x) for x in step_tree[1]], list(step_tree[2]))
    rs = real.compute_ranges(list(range(n)), n)
    return [b - a for (a, b), s in zip(rs, step_tree[1]) if s == "elitism"]


def gen_elitist_step(rng, mins):
    others = [sc.gen_step(rng, rng.choice([0, 1, 2]), mins) for _ in range(rng.randint(1, 3))]
    pos = rng.randrange(len(others) + 1)
    subs = others[:pos] + ["elitism"] + others[pos:]
    ws = [rng.choice([0, 1, 2, 3, 5]) for _ in subs]
    ws[pos] = rng.choice([1, 1, 2, 3])
    return ("par", subs, ws)


def bests(gens, problem):
    return [max(int(i.get_fitness(problem).maximizing_aggregate) for i in g) for g in gens]


def check_runs_stub(h: Harness):
    rng = h.rng
    mins = [False, True]
    runs = [(sc.default_step_tree(), n) for n in (10, 11, 20, 30)]
    for _ in range(h.n(60, 600)):
        runs.append((gen_elitist_step(rng, mins), rng.randint(2, 12)))
    for step, n in runs:
        slots = elite_slots(step, n)
        gens = rng.choice([2, 3, 5, 8]) if not h.thorough else rng.choice([3, 8, 20])
        rep = StubRep(2)
        problem = sc.make_problem(mins)
        triples = sc.gen_triples(rng, n, 2, dup=False)
        inds = sc.make_pop(rep, triples)
        amb = sc.ambiguous(step)
        ints = [rng.randrange(0, 30) for _ in range(100 * gens)]
        floats = [rng.randrange(0, 1000)] * (60 * gens) if amb else [rng.randrange(0, 1000) for _ in range(60 * gens)]
        rec = sc.GenRecorder(limit=4 * (gens + 1) * n + 100)
        tracker = MultiObjectiveProgressTracker(problem, SequentialEvaluator(), recorders=[rec])
        gp = GeneticProgramming(problem=problem, budget=sc.Generations(gens), representation=rep, random=TwoStreamSource(ints, floats),
                                tracker=tracker, population_size=n, population_initializer=sc.Given(inds), step=sc.real_step(step))
        replay = {"step": sc.step_str(step), "population_size": n, "generations": gens, "population": sc.enc_triples(triples),
                  "ints": ints[:40], "floats": floats[:8], "elite_slots": slots}
        try:
            gp.search()
            bs = bests(rec.generations(), problem)
        except Exception as e:  # noqa: BLE001
            h.fail("GeneticProgramming.search", "raises", f"search() with step {sc.step_str(step)}, population_size={n}: {type(e).__name__}", replay)
            continue
        h.count("run-stub:elite-slot>=1" if any(s >= 1 for s in slots) else "run-stub:no-elite-slot")
        h.agree("GeneticProgramming.search", ["gp_best", sc.step_sx(step), n, gens, sc.enc_triples(triples), ints, floats, 2], bs, replay=replay)
        if any(s >= 1 for s in slots):
            h.holds("GeneticProgramming.search", "best-fitness-decreased", ["prop_monotone", bs],
                    f"search() with step {sc.step_str(step)} (elitism slots {slots}), population_size={n}: best aggregate per generation {bs}", replay)


def check_runs_tree(h: Harness):
    rng = h.rng
    configs = [(None, n) for n in ([10, 11, 30, 40] if not h.thorough else [10, 11, 20, 30, 50, 100])]
    for _ in range(h.n(10, 60)):
        step = gen_elitist_step(rng, None)
        if "lexicase" in sc.kinds(step):
            continue
        configs.append((step, rng.randint(2, 14)))
    # elitism as the LAST slice of the generation
    last = ("par", ["novelty", ("seq", [("tournament", 2, False), ("mutation", 1001)]), "elitism"], [1, 2, 1])
    configs += [(last, n) for n in (6, 9, 12, 7, 8, 10)]
    for step, n in configs:
        g, r, rep = sc.tree_setup(rng.randrange(1000))
        gens = h.n(6, 40)
        minimize = rng.random() < 0.5
        cut = rng.random() < 0.5 or step is last
        if cut:
            # (a fitness of many different values: the best of a generation is rare among newcomers)
            import zlib
            problem = SingleObjectiveProblem(lambda p: float(zlib.crc32(repr(p).encode()) % 1000), minimize=minimize)
        elif rng.random() < 0.4:
            # a NOISY fitness function (a sampled or simulated measurement: another value at every call): an elite enters the next
            # generation with the fitness it was selected on -- what is recorded never gets worse
            import random as _random
            noise = _random.Random(rng.randrange(10**6))
            problem = SingleObjectiveProblem(lambda p: float(sc.count_nodes(p) * 10 + noise.randint(-40, 40)), minimize=minimize)
            h.count("run-tree:noisy-fitness-function")
        else:
            problem = SingleObjectiveProblem(lambda p: float(sc.count_nodes(p) % 7), minimize=minimize)
        rec = sc.GenRecorder(limit=4 * (gens + 1) * n + 100)
        tracker = SingleObjectiveProgressTracker(problem, SequentialEvaluator(), recorders=[rec])
        tree = sc.default_step_tree() if step is None else step
        real = default_generic_programming_step() if step is None else sc.real_step(step)
        slots = elite_slots(tree, n)
        replay = {"step": sc.step_str(tree), "population_size": n, "generations": gens, "minimize": minimize, "elite_slots": slots}
        # half of the runs end on an EVALUATION budget that runs out in the middle of a generation: the generation under way is
        # completed like every other one (its elitism slice included, wherever it stands among the slices)
        budget = sc.Generations(gens)
        if cut:
            from geneticengine.evaluation.budget import AnyOf, EvaluationBudget
            evals = n * rng.randint(1, gens) + rng.randint(1, max(1, n - 1))
            # (with a bound on the generations as well: a step that creates no new individual never uses an evaluation budget up --
            # the open C14 finding)
            budget = AnyOf(EvaluationBudget(evals), sc.Generations(gens + 2)) if rng.random() < 0.6 else AnyOf(sc.Generations(gens + 2), EvaluationBudget(evals))
            replay["budget"] = f"EvaluationBudget({evals})"
            h.count("run-tree:evaluation-budget-ending-mid-generation")
        gp = GeneticProgramming(problem=problem, budget=budget, representation=rep, random=r, tracker=tracker,
                                population_size=n, population_initializer=StandardInitializer(), step=real)
        try:
            gp.search()
            bs = bests(rec.generations(), problem)
        except Exception as e:  # noqa: BLE001
            h.fail("GeneticProgramming.search", "raises", f"search() [tree] with step {sc.step_str(tree)}, population_size={n}: {type(e).__name__}: {e}"[:300], replay)
            continue
        if any(s >= 1 for s in slots):
            h.count("run-tree:elite-slot>=1")
            h.holds("GeneticProgramming.search", "best-fitness-decreased", ["prop_monotone", bs],
                    f"search() [tree representation, minimize={minimize}, budget {replay.get('budget', 'generations')}] with step {sc.step_str(tree)} "
                    f"(elitism slots {slots}), population_size={n}: best aggregate per generation {bs}", replay)
        else:
            h.count("run-tree:no-elite-slot(default step rounds 5% to 0)")
            h.seen(f"noslot:{sc.step_str(tree)}:{n}", nontrivial=False)


def check_elitism_beside_other_branches(h: Harness):
    """an ElitismStep listed AFTER other branches of a ParallelStep must still see the whole input
    population (a branch that edits the shared list -- e.g. a selection removing its winners --
    would make elitism pick from the leftovers)"""
    from geneticengine.algorithms.gp.operators.combinators import ParallelStep, SequenceStep
    from geneticengine.algorithms.gp.operators.mutation import GenericMutationStep
    from geneticengine.algorithms.gp.operators.selection import LexicaseSelection, TournamentSelection
    rng = h.rng
    for t in range(h.n(60, 600)):
        n = rng.randint(4, 9)
        ncomps = rng.randint(1, 3)
        mins = [rng.random() < 0.5 for _ in range(ncomps)]
        triples = []
        for i in range(n):
            comps = [rng.randint(0, 3) for _ in range(ncomps)]
            agg = sum(-c if m else c for c, m in zip(comps, mins))
            triples.append((i, agg, comps))
        rep = StubRep(ncomps)
        problem = sc.make_problem(mins)
        inds = sc.make_pop(rep, triples)
        first = rng.choice(["lexicase", "lexicase;mutation", "tournament", "tournament-norepl"])
        branch = {"lexicase": lambda: LexicaseSelection(),
                  "lexicase;mutation": lambda: SequenceStep(LexicaseSelection(), GenericMutationStep(1)),
                  "tournament": lambda: TournamentSelection(2, with_replacement=True),
                  "tournament-norepl": lambda: TournamentSelection(2)}[first]()
        w = rng.choice([[1, 1], [2, 1], [3, 1], [1, 2]])
        step = ParallelStep([branch, ElitismStep()], weights=w)
        given = list(inds)
        # asked for k <= n individuals (a nested survivors block, a shrinking population): elitism still picks from the whole input
        k = n if rng.random() < 0.5 else rng.randint(2, n)
        res = sc.run_step(step, problem, rep, sc.TwoStreamSource([rng.randrange(0, 1000) for _ in range(200)]), given, k)
        h.seen(f"par-elitism:{t}:{first}:{w}:{k}:{triples}")
        h.count(f"elitism-beside:{first}")
        h.count("elitism-beside:target<population" if k < n else "elitism-beside:target=population")
        if isinstance(res, str):
            continue
        ranges = step.compute_ranges(inds, k)
        k_elite = ranges[-1][1] - ranges[-1][0]
        if k_elite <= 0:
            continue
        elite = res[-k_elite:]
        aggs = sorted((a for (_, a, _) in triples), reverse=True)
        got = sorted((e.genotype[1] for e in elite), reverse=True)
        if got != aggs[:k_elite]:
            h.fail("ParallelStep.apply", "elitism-slot-not-top-k-of-input",
                   f"par[{first}, elitism]{w}, target_size={k}, on aggregates {[a for (_, a, _) in triples]}: the elitism slot returned aggregates {got}, "
                   f"the best {k_elite} of the input population are {aggs[:k_elite]}", {"triples": triples, "first": first, "weights": w, "k": k})
        if [id(x) for x in given] != [id(x) for x in inds]:
            h.fail("ParallelStep.apply", "input-population-list-modified",
                   f"par[{first}, elitism]: the population list handed to the step was edited ({len(inds)} -> {len(given)} individuals)",
                   {"triples": triples, "first": first})


def check_unevaluated_lookalikes_and_numeric_types(h: Harness):
    """ElitismStep handed individuals nobody has evaluated yet, whose genotypes all PRINT alike (a `__str__` that abbreviates), under fitness
    functions that return their score as a Python float, a numpy float32, a numpy int64 or a numpy UNSIGNED integer (a count of errors, 0 =
    perfect): the k individuals kept are the k best by the value the fitness function returns for each, in the declared direction"""
    import numpy as np
    from geneticengine.representations.api import Representation

    class Opaque:
        def __init__(self, uid_, v):
            self.uid, self.v = uid_, v

        def __str__(self):
            return "<genotype>"

        __repr__ = __str__

    class OpaqueRep(Representation):
        def create_genotype(self, random, **kwargs):
            raise NotImplementedError

        def genotype_to_phenotype(self, genotype):
            return genotype
    rng = h.rng
    rep = OpaqueRep()
    casts = [("float", float), ("np.float32", np.float32), ("np.int64", np.int64), ("np.uint32", np.uint32), ("np.uint8", np.uint8)]
    for trial in range(h.n(60, 500)):
        n = rng.randint(2, 9)
        k = rng.randint(1, n)
        minimize = rng.random() < 0.5
        cname, cast = casts[trial % len(casts)]
        vals = [rng.randint(0, 6) for _ in range(n)]
        if trial % 3 == 0:
            vals[rng.randrange(n)] = 0          # a perfect individual
        problem = SingleObjectiveProblem(lambda p, cast=cast: cast(p.v), minimize=minimize)
        inds = [Individual(Opaque(i, v), rep) for i, v in enumerate(vals)]
        try:
            out = list(ElitismStep().apply(problem, SequentialEvaluator(), rep, NativeRandomSource(rng.randrange(10**6)), list(inds), k, 0))
        except Exception as e:  # noqa: BLE001
            h.fail("ElitismStep.apply", "raises", f"unevaluated look-alike individuals, scores as {cname}: {type(e).__name__}: {e}", {"vals": vals, "cast": cname})
            continue
        h.count(f"lookalikes:{cname}")
        h.seen(f"lookalikes:{cname}:{minimize}:{vals}:{k}", nontrivial=len(set(vals)) > 1)
        kept = sorted(o.genotype.v for o in out)
        best = sorted(vals, reverse=not minimize)[:k]
        if len(out) != k or sorted(best) != kept:
            h.fail("ElitismStep.apply", "not-top-k",
                   f"ElitismStep over {n} unevaluated individuals whose genotypes all print as '<genotype>', fitness function returns {cname} scores {vals}, "
                   f"{'min' if minimize else 'max'}imise, k={k}: kept the scores {kept}, the {k} best are {sorted(best)}", {"vals": vals, "cast": cname, "k": k, "minimize": minimize})


def check_adaptive_gp_keeps_its_best(h: Harness):
    """AdaptiveGeneticProgramming reserves elitism slots in its (feedback) parallel step: from one generation to the next the best fitness
    in the population does not get worse, whatever sizes the generations have (judged where both generations have at least 20 members, so
    that the elitism share is at least one slot)"""
    from props.eval_common import ScriptRep
    from geneticengine.algorithms.gp.adaptive import AdaptiveGeneticProgramming
    from geneticengine.algorithms.gp.structure import PopulationInitializer
    from geneticengine.evaluation.budget import AnyOf, EvaluationBudget, TimeBudget
    from geneticengine.evaluation.recorder import SearchRecorder

    class Plain(PopulationInitializer):
        def initialize(self, problem, representation, random, target_size, **kwargs):
            for _ in range(target_size):
                yield Individual(representation.create_genotype(random), representation)
    rng = h.rng
    for trial in range(h.n(4, 40)):
        minimize = trial % 2 == 1
        keys = [rng.randint(0, 1000) for _ in range(997)]
        gens: dict = {}

        class Rec(SearchRecorder):
            def register(self, tracker, individual, problem, is_best, gens=gens):
                gens.setdefault(individual.metadata.get("generation"), []).append(individual.get_fitness(problem).maximizing_aggregate)
        problem = SingleObjectiveProblem(lambda ph: float(ph[1]), minimize=minimize)
        tracker = SingleObjectiveProgressTracker(problem, SequentialEvaluator(), recorders=[Rec()])
        seedv = rng.randrange(10**6)
        try:
            alg = AdaptiveGeneticProgramming(problem, AnyOf(EvaluationBudget(1500), TimeBudget(30)), ScriptRep(keys), NativeRandomSource(seedv), tracker)
            alg.population_initializer = Plain()
            alg.population_size = 60
            alg.search()
        except Exception as e:  # noqa: BLE001
            h.fail("AdaptiveGeneticProgramming.search", "raises", f"{type(e).__name__}: {e}"[:200], {"trial": trial})
            continue
        order = sorted(k for k in gens if k is not None)
        bests = [max(gens[k]) for k in order]
        sizes = [len(gens[k]) for k in order]
        h.count("adaptive-gp-generations", len(order))
        h.seen(f"adaptive-keeps-best:{trial}:{seedv}", nontrivial=len(order) >= 3)
        for i in range(len(order) - 1):
            if min(sizes[i], sizes[i + 1]) >= 20 and bests[i + 1] < bests[i]:
                h.fail("AdaptiveGeneticProgramming.search", "best-fitness-decreased",
                       f"AdaptiveGeneticProgramming ({'min' if minimize else 'max'}imise, seed {seedv}): the best aggregate of generation {order[i]} is {bests[i]}, of "
                       f"generation {order[i + 1]} it is {bests[i + 1]} (generation sizes {sizes[i]} and {sizes[i + 1]}; elitism slots are reserved)",
                       {"trial": trial, "seed": seedv, "bests": bests, "sizes": sizes})
                break


def run(h: Harness):
    check_adaptive_gp_keeps_its_best(h)
    check_unevaluated_lookalikes_and_numeric_types(h)
    check_parallel_evaluator(h)
    check_simplegp_elitism(h)
    check_near_equal_fitness(h)
    check_elitism_beside_other_branches(h)
    check_elitism(h)
    check_infinite_fitness(h)
    check_problem_turnover(h)
    check_runs_stub(h)
    check_runs_tree(h)
