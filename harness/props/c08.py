"""C08 -- same seed, same search: reproducible within and across processes.

(i) in-process: each configuration is run twice in this process; iteration orders of the
grammar's symbol sets are permuted through a `set` subclass (identity / reversed / shuffled) and
creation, genotype creation and mapping must not change.
(ii) cross-process: the same battery of seeded searches runs in fresh interpreters with different
PYTHONHASHSEED values, allocation padding before the grammar classes exist, and import orders; the
sequence of programs handed to the fitness function, the best program and its fitness must agree.
Model: order-independence is a theorem about the model's canonical ordering (Props/C08.lean);
CPython's address-dependent hashing itself cannot be exhibited by a model (partial).
"""
from __future__ import annotations

import json
import os
import subprocess
import sys
from pathlib import Path

import gram
import synth
from core import Harness, InfraError, ScriptedSource, sx

from geneticengine.grammar.grammar import Grammar
from geneticengine.random.sources import NativeRandomSource

RULE = ("battery = {GP, random search, hill climbing, 1+1} x {tree, tree-pi, GE, SGE, dSGE, stack} x 2 grammars x seeds, each run "
        "twice in-process and once per environment (PYTHONHASHSEED x padding x import order) in fresh interpreters; plus generated "
        "grammars whose symbol-set iteration order is permuted in-process; non-trivial = a search that evaluated >= 2 distinct "
        "programs; distinct = distinct configuration")
ASSUMPTIONS = [
    "partial by nature: CPython's address-dependent set order is over-approximated by explicit permutations in-process and sampled by fresh interpreters; hidden interpreter state is outside any model",
    "wall-clock budgets are excluded by the property",
]
WORKER = Path(__file__).resolve().parent.parent / "workers" / "c08_worker.py"


class OrderedSet(set):
    """A set whose iteration order is chosen by the harness."""

    def __init__(self, items, order):
        super().__init__(items)
        self._order = list(order)

    def __iter__(self):
        return iter(self._order)


def run_worker(configs, env_extra):
    env = dict(os.environ)
    env.update(env_extra)
    env["PYTHONPATH"] = os.environ.get("VERIF_REPO", "/repo")
    p = subprocess.run(["/venv/bin/python", str(WORKER), json.dumps(configs)], capture_output=True, text=True, env=env, timeout=1500)
    for line in p.stdout.splitlines():
        if line.startswith("C08RESULT "):
            return json.loads(line[len("C08RESULT "):])
    raise InfraError(f"c08 worker failed rc={p.returncode}: {p.stderr[-1500:]}")


def cross_process(h: Harness):
    algos = ["gp", "gpc", "rs", "hc", "opo"]
    reps = ["tree", "tree-pi", "ge", "sge", "dsge", "stack"]
    seeds = [0, 7] if not h.thorough else [0, 7, 123, 2024]
    grammars = ["full", "plain", "usable"]
    configs = []
    for a in algos:
        for r in reps:
            for gname in grammars:
                if not h.thorough and gname == "plain" and a not in ("gp",):
                    continue
                if a == "gpc" and gname == "plain":
                    continue
                if gname == "usable" and not (a in ("gp", "rs") and (h.thorough or r in ("tree", "ge", "stack"))):
                    continue
                for s in seeds[: (1 if (a != "gp" and not h.thorough) else len(seeds))]:
                    configs.append([a, r, gname, s, {"gp": 30, "gpc": 120}.get(a, 12)])
    # a grammar whose productions live in separate modules (imported in another order in some environments)
    for a, r in (("gp", "tree"), ("rs", "tree"), ("gp", "ge"), ("hc", "sge"), ("gp", "dsge"), ("rs", "stack")):
        configs.append([a, r, "split", 3, {"gp": 30}.get(a, 12)])
    for a, r in (("gp", "stack"), ("rs", "stack"), ("gp", "tree"), ("gp", "dsge")):
        configs.append([a, r, "floats", 5, {"gp": 30}.get(a, 12)])
    # production weights on two abstract symbols, read by the stack mapping; 20 objectives under lexicase selection
    for a, r, gname in (("rs", "stack", "weighted"), ("gp", "stack", "weighted"), ("gplex", "tree", "plain"), ("gplex", "ge", "full")):
        configs.append([a, r, gname, 2, {"gp": 30, "gplex": 60}.get(a, 12)])
    # a grammar with a production that fails in some contexts, ONE grammar object for several searches; a warm start from the
    # user's own list of seed programs, handed to every run
    for a, r in (("rs", "tree"), ("gp", "tree"), ("gp", "ge"), ("hc", "sge"), ("gp", "dsge")):
        configs.append([a, r, "backtrack", 3, {"gp": 30}.get(a, 12)])
    for gname in ("plain", "backtrack"):
        configs.append(["gpinject", "tree", gname, 4, 30])
    # a refinement object with parameters of its own (a probability matrix), alive for the whole process; a multi-objective problem
    # object declared with one bool, built once and handed to every run
    for a, r in (("rs", "tree"), ("gp", "ge"), ("gp", "tree")):
        configs.append([a, r, "wstrings", 6, {"gp": 30}.get(a, 12)])
    configs.append(["gpmo", "tree", "plain", 9, 30])
    # the same refined type written in several fields (several refinement objects that print alike), mapped by the stack representation
    for a in ("rs", "gp", "hc"):
        configs.append([a, "stack", "twins", 11, {"gp": 30}.get(a, 12)])
    configs.append(["gpmo", "ge", "full", 9, 30])
    # NAMED seeds (`NativeRandomSource("experiment-7")`: random.Random seeds itself from the text, the same in every process)
    for a, r, gname, s in (("gp", "tree", "plain", "experiment-7"), ("rs", "ge", "full", "fold-2/run-3"), ("hc", "sge", "full", "a"), ("opo", "dsge", "plain", "experiment-7")):
        configs.append([a, r, gname, s, {"gp": 30}.get(a, 12)])
    # crossover followed at once by mutation (one environment runs with the library's loggers at DEBUG); production weights read through the
    # order of the alternatives (tree-building deciders pick a production by its index)
    for a, r, gname in (("gpx", "dsge", "plain"), ("gpx", "dsge", "full"), ("gpx", "sge", "plain"), ("gpx", "tree", "plain"),
                        ("rs", "tree", "weighted"), ("gp", "ge", "weighted"), ("hc", "sge", "weighted"), ("gp", "tree-pi", "weighted")):
        configs.append([a, r, gname, 6, {"gp": 30, "gpx": 40}.get(a, 12)])
    # sources created without a seed argument (the default seed); strings over an alphabet of characters
    for a, r, gname, sd in (("gp", "tree", "plain", None), ("rs", "ge", "full", None), ("gp", "tree", "strs", 3), ("rs", "ge", "strs", 3), ("hc", "dsge", "strs", 3)):
        configs.append([a, r, gname, sd, {"gp": 30}.get(a, 12)])
    # a grammar from the library's own seeded generator of benchmark grammars
    for a, r in (("gp", "tree"), ("rs", "ge"), ("hc", "dsge")):
        configs.append([a, r, "synthetic", 8, {"gp": 30}.get(a, 12)])
    envs = [{"PYTHONHASHSEED": "0", "C08_PAD": "0", "C08_IMPORT_ORDER": "a"},
            {"PYTHONHASHSEED": "1", "C08_PAD": "1000", "C08_IMPORT_ORDER": "b", "C08_HOLES": "1", "C08_LOG": "debug"},
            {"PYTHONHASHSEED": "4242", "C08_PAD": "123457", "C08_IMPORT_ORDER": "a"},
            # (more memory layouts: what depends on the ADDRESSES of class objects shows only when two layouts order them differently)
            {"PYTHONHASHSEED": "7", "C08_PAD": "17", "C08_IMPORT_ORDER": "b"},
            {"PYTHONHASHSEED": "99", "C08_PAD": "4099", "C08_IMPORT_ORDER": "a", "C08_HOLES": "1"},
            {"PYTHONHASHSEED": "31337", "C08_PAD": "70001", "C08_IMPORT_ORDER": "b", "C08_HOLES": "1"}]
    if h.thorough:
        envs += [{"PYTHONHASHSEED": str(k), "C08_PAD": str(k * 7919 % 50000), "C08_IMPORT_ORDER": "ab"[k % 2]} for k in (2, 3, 5, 8, 13)]
    # run the environments concurrently
    from concurrent.futures import ThreadPoolExecutor
    with ThreadPoolExecutor(max_workers=8) as ex:
        results = list(ex.map(lambda e: run_worker(configs, e), envs + [envs[0]]))
    base = results[0]
    same_env_again = results[-1]
    for key in list(base):
        if "#" in key:
            continue
        ref = base[key]
        # one after the other in the same process (second and third run use a user-supplied tracker)
        for again in ("#again", "#again2", "#sharedrep1", "#sharedrep2", "#sharedgrammar1", "#sharedgrammar2"):
            other = base.get(key + again)
            if other is not None and other != ref:
                h.fail(key.split("/")[1], "irreproducible-within-process",
                       f"search {key} run again in the same process (tracker supplied by the user) evaluated {len(other.get('evaluated', []))} programs "
                       f"instead of {len(ref.get('evaluated', []))} or returned a different best: {str(other)[-100:]} vs {str(ref)[-100:]}", [key, again])
                break
        nontrivial = len(set(ref.get("evaluated", []))) >= 2
        h.seen("xproc:" + key, nontrivial)
        h.count("cross-process-configs")
        if "error" in ref:
            h.count("search-error:" + ref["error"])
        for env, res in list(zip(envs[1:], results[1:-1])) + [({"same": "env"}, same_env_again)]:
            other = res[key]
            if other != ref:
                k = next((i for i, (x, y) in enumerate(zip(ref.get("evaluated", []), other.get("evaluated", []))) if x != y), None)
                what = (f"evaluation #{k}: {ref['evaluated'][k][:80]} vs {other['evaluated'][k][:80]}" if k is not None
                        else f"best/fitness/length differ: {str(ref)[-120:]} vs {str(other)[-120:]}")
                algo, rep = key.split("/")[:2]
                h.fail(f"{rep}", "irreproducible-across-processes",
                       f"search {key} differs between process environments {envs[0]} and {env}: {what}", [key, env])


def in_process(h: Harness):
    """permute the iteration order of the grammar's symbol collections"""
    import linear
    from linear import DSGE, GE, SGE, Stack, safe
    rng = h.rng
    C = gram.ClassSpec
    # fixed witnesses: the SAME refined type written in two fields -- two refinement objects, two symbols, one printed form
    twin = ("ann", "str", ("varRange", ["z", "y"]))
    twins = [gram.Spec([C("A0", True, None), C("A1", True, 0), C("C2", False, 0, [("f0", "bool"), ("f1", twin)]),
                        C("C3", False, 1, [("f0", twin), ("f1", ("ann", "int", ("intRange", -1, 0)))]), C("R4", False, 0, [("e", ("cls", 1)), ("k", "int")])],
                       0, [0, 2, 1, 3, 4]),
             gram.Spec([C("A0", True, None), C("Lit", False, 0, [("a", ("ann", "int", ("intRange", 0, 9))), ("b", ("ann", "int", ("intRange", 0, 9)))]),
                        C("Add", False, 0, [("l", ("cls", 0)), ("r", ("cls", 0)), ("w", ("ann", "int", ("intRange", 0, 9)))])], 0, [1, 2])]
    n_random = h.n(25, 300)
    for gi in range(n_random + 6 * len(twins)):
        spec = gram.productive_spec(rng, max_classes=rng.choice([3, 4, 6]), opts={"float": False}) if gi < n_random else twins[(gi - n_random) % len(twins)]
        b = gram.build(spec)
        try:
            g = b.extract()
        except Exception:  # noqa: BLE001
            continue
        mind = g.get_min_tree_depth()
        if mind >= 1000000:
            continue
        d = mind + 2
        nodes = list(g.all_nodes)
        mentioned = list(g.get_all_mentioned_symbols())
        orders = []
        for k in range(3):
            o1, o2 = list(nodes), list(mentioned)
            if k == 1:
                o1.reverse()
                o2.reverse()
            elif k == 2:
                rng.shuffle(o1)
                rng.shuffle(o2)
            orders.append((o1, o2))
        outs = []
        seedv = rng.randrange(10**6)
        for o1, o2 in orders:
            g.all_nodes = OrderedSet(nodes, o1)
            g.get_all_mentioned_symbols = (lambda o2=o2: OrderedSet(mentioned, o2))  # instance attribute shadows the method
            obs = []
            for name, mk in (("SGE", lambda r: SGE(g, synth.make_decider("grow", d, r, g), gene_length=8)),
                             ("Stack", lambda r: Stack(g, gene_length=128)),
                             ("DynamicSGE", lambda r: DSGE(g, d)),
                             ("GE", lambda r: GE(g, synth.make_decider("grow", d, r, g), gene_length=16))):
                r = NativeRandomSource(seedv)
                rep = mk(r)
                st, geno = safe(lambda: rep.create_genotype(r))
                if st != "ok":
                    obs.append((name, st, str(geno)))
                    continue
                st2, p = safe(lambda: rep.genotype_to_phenotype(geno))
                gsnap = repr(getattr(geno, "dna", None)) if name != "DynamicSGE" else "dsge"
                obs.append((name, gsnap, st2, sx(gram.canon(p, b, meta=False)) if st2 == "ok" else str(p)))
            outs.append(obs)
        g.all_nodes = set(nodes)
        del g.get_all_mentioned_symbols
        h.seen("perm:" + gram.spec_sx_str(spec))
        h.count("in-process-permuted-grammars")
        for k in (1, 2):
            for a, bb in zip(outs[0], outs[k]):
                if a != bb:
                    h.fail(a[0], "depends-on-set-iteration-order",
                           f"{a[0]}: result changes with the iteration order of the grammar's symbol set: {str(a)[:160]} vs {str(bb)[:160]}",
                           [gram.spec_sx_str(spec), k, seedv])


def history_independence(h: Harness):
    """the same configuration and seed give the same search whether the classes are fresh or were used by an earlier grammar
    and then re-declared in place (`Var.__init__.__annotations__["name"] = Annotated[str, VarRange(names)]`, as the example
    scripts do): a fresh process starts from the re-declared state, so both are "the same seed, the same search" """
    from geneticengine.algorithms.random_search import RandomSearch
    from geneticengine.evaluation.budget import EvaluationBudget
    from geneticengine.problems import SingleObjectiveProblem
    from geneticengine.representations.tree.treebased import TreeBasedRepresentation
    C = gram.ClassSpec
    rng = h.rng
    for trial in range(h.n(4, 30)):
        spec = gram.Spec([C("A0", True, None), C("Var", False, 0, [("name", ("ann", "str", ("varRange", ["x", "y"])))]),
                          C("Lit", False, 0, [("v", ("ann", "int", ("intRange", 0, 9)))]),
                          C("Add", False, 0, [("l", ("cls", 0)), ("r", ("cls", 0))])], 0, [1, 2, 3])
        seedv = rng.randrange(10**6)

        def search(b, g):
            log = []
            problem = SingleObjectiveProblem(lambda p: (log.append(sx(gram.canon(p, b, meta=False))), float(len(log) % 7))[1])
            r = NativeRandomSource(seedv)
            rep = TreeBasedRepresentation(g, synth.make_decider("grow", 4, r, g))
            best = RandomSearch(problem, EvaluationBudget(15), rep, r).search()
            return log, sx(gram.canon(best.get_phenotype(), b, meta=False))
        b = gram.build(spec)
        search(b, b.extract())                                   # an earlier run on these classes
        gram.retarget(b, 1, "name", ("ann", "str", ("varRange", ["a", "b", "c"])))
        gram.retarget(b, 2, "v", ("ann", "int", ("intRange", 50, 60)))
        with_history = search(b, b.extract())
        b2 = gram.build(spec)                                    # the same declarations on classes nobody has used
        fresh = search(b2, b2.extract())
        h.seen(f"history:{trial}:{seedv}", nontrivial=True)
        h.count("history-independence-searches")
        if with_history != fresh:
            k = next((i for i, (x, y) in enumerate(zip(with_history[0], fresh[0])) if x != y), None)
            h.fail("tree", "irreproducible-after-earlier-use-of-the-classes",
                   f"RandomSearch(seed {seedv}) after the classes had been used and re-declared: evaluation #{k} is "
                   f"{with_history[0][k][:80] if k is not None else with_history[1][:80]}, on fresh classes with the same declarations it is "
                   f"{fresh[0][k][:80] if k is not None else fresh[1][:80]}", [seedv, trial])


def layout_independence(h: Harness):
    """the grammar analysis iterates SETS of classes, whose order follows the classes' addresses: the same declarations
    under different (emulated) memory layouts -- classes whose hash the harness chooses -- must be analysed identically
    and give the same programs for the same seed"""
    import props.c05 as c05
    from linear import safe
    from geneticengine.representations.tree.treebased import TreeBasedRepresentation
    C = gram.ClassSpec
    rng = h.rng

    def ring(n, abstract_root):
        classes = [C("Leaf", False, None, [])]
        for i in range(n):
            classes.append(C(f"R{i}", False, None, [("x", ("union", ("cls", 1 + (i + 1) % n), ("cls", 0)))]))
        if abstract_root:
            classes = [C("Root", True, None)] + [C(c.name, False, 0 if c.parent is None else c.parent,
                                                   [(fn, ("union",) + tuple(("cls", t[1] + 1) for t in ft[1:])) for fn, ft in c.fields]) for c in classes]
            return gram.Spec(classes, 0, list(range(1, len(classes))))
        return gram.Spec(classes, 1, list(range(len(classes))))
    specs = [ring(3, False), ring(4, False), ring(5, True), ring(3, True)]
    for _ in range(h.n(2, 10)):
        specs.append(gram.productive_spec(rng, max_classes=rng.choice([4, 6]), opts={"float": False}))
    for spec in specs:
        n = len(spec.classes)
        ref = None
        seedv = rng.randrange(10**6)
        for layout in range(h.n(10, 40)):
            hashes = [rng.randrange(1, 2**20) for _ in range(n)] if layout else list(range(8, 8 * n + 8, 8))
            b = gram.build(spec, hashes)
            try:
                g = b.extract()
            except Exception as e:  # noqa: BLE001
                obs = ("extract-error", type(e).__name__)
            else:
                alts, dist = c05.observe(b, g)
                progs = []
                for kind in ("full", "pigrow"):
                    for k in range(3):
                        r = NativeRandomSource(seedv + k)
                        st, p = safe(lambda: TreeBasedRepresentation(g, synth.make_decider(kind, g.get_min_tree_depth() + 3, r, g)).create_genotype(r))
                        progs.append(sx(gram.canon(p, b, meta=False)) if st == "ok" else f"err:{p}")
                obs = (alts, dist, c05.syms(b, g.recursive_prods), c05.syms(b, g.terminals), progs)
            h.count("emulated-memory-layouts")
            if ref is None:
                ref = obs
                h.seen("layout:" + gram.spec_sx_str(spec), nontrivial=True)
            elif obs != ref:
                what = next((nm for nm, x, y in zip(("productions", "minimum depths", "recursive symbols", "terminals", "created programs"), ref, obs) if x != y), "result")
                k = ("productions", "minimum depths", "recursive symbols", "terminals", "created programs").index(what) if what != "result" else 0
                h.fail("extract_grammar", "depends-on-set-iteration-order",
                       f"the same declarations analysed under another memory layout (class hashes {hashes}) differ in their {what}: "
                       f"{str(ref[k])[:150]} vs {str(obs[k])[:150]}", [gram.spec_sx_str(spec), hashes])
                break


def run(h: Harness):
    history_independence(h)
    layout_independence(h)
    in_process(h)
    cross_process(h)
