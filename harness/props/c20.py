"""C20 -- the CSV search log is faithful and is a valid prefix at every interruption point.

Implementation side: the REAL `CSVSearchRecorder` (driven directly with arbitrary `is_best`
flags, and through the real single-/multi-objective trackers, which decide the flag), and the
recorder `SimpleGP.build_recorder` constructs around the user's `csv_extra_fields`.  After the
constructor and after EVERY `register` the file is read through a second OS handle -- exactly
what a killed process leaves behind -- and parsed with the csv module; a few cases really are
killed (SIGKILL in a child process, no close, no atexit).
Model side: lean/GEVerif/Model/Csv.lean; theorems: lean/GEVerif/Props/C20.lean.
"""
from __future__ import annotations

import csv
import io
import json
import os
import re
import shutil
import signal
import subprocess
import sys
import tempfile
from abc import ABC
from dataclasses import dataclass
from time import monotonic_ns
from types import SimpleNamespace
from typing import Annotated

from core import Harness, REPO

from geneticengine.evaluation.recorder import CSVSearchRecorder, SearchRecorder
from geneticengine.grammar.metahandlers.ints import IntRange
from geneticengine.evaluation.tracker import MultiObjectiveProgressTracker, SingleObjectiveProgressTracker
from geneticengine.problems import Fitness, MultiObjectiveProblem, SingleObjectiveProblem
from geneticengine.solutions.individual import Individual

RULE = ("corpus of boundary configurations first (1-4 objectives, default fields, 3 objectives with distinct components, "
        "extra fields reusing a default column name, SimpleGP with 2 and 3 extra fields, empty history), then cases drawn from "
        "VERIF_SEED: objectives 1..4, default/user `fields`, 0..3 `extra_fields` (names may collide with existing columns), both "
        "recording modes, histories of 0..8 (thorough 0..30) individuals with integer fitness components, repeated programs, "
        "program texts containing commas, quotes and newlines; three drivers: direct register with arbitrary is_best flags, "
        "the real single/multi-objective tracker (flag decided by the tracker), SimpleGP.build_recorder + tracker. "
        "A case is non-trivial when it has >= 2 objectives or >= 1 extra field, and >= 2 registrations; distinct = distinct protocol lines")
ASSUMPTIONS = [
    "CSV rendering is abstract in the model (a row is a list of cells followed by a terminator); that the csv module's quoting is "
    "self-delimiting and round-trips is checked on every real file by re-parsing it, not proved",
    "the Execution Time column (a wall-clock float) is canonicalised to the placeholder T and never compared",
    "fitness components are integers carried as floats (their text is repr(float)); NaN/inf cells are not exercised",
    "the file model (disk, buffer) with an adversarial spill abstracts io.BufferedWriter + OS page cache; the harness observes the "
    "file through a second handle after each register (and after SIGKILL in a few child processes), it cannot force partial flushes",
    "a MultiObjectiveProblem built with minimize=<bool> cannot report number_of_objectives() before the first evaluation "
    "(documented assert), so recorders are only built for problems with an explicit list of objectives",
    "user callbacks are uninterpreted in the model; the harness instantiates them with injective string-valued functions",
]
TRUSTED_EXTRA = ["Python csv module (writer quoting / reader) and CPython buffered file I/O are outside the model"]


# ----------------------------------------------------------------------------------------
# programs, individuals, callbacks
# ----------------------------------------------------------------------------------------

def prog_text(pid: int) -> str:
    deco = pid % 4
    if deco == 0:
        return f"P{pid}"
    if deco == 1:
        return f"P{pid},x=1"
    if deco == 2:
        return f'P{pid} "q"'
    return f"P{pid}\nsecond line"


class Prog:
    def __init__(self, pid: int, fit):
        self.id = pid
        self.fit = list(fit)

    def __str__(self):
        return prog_text(self.id)


class StubRepresentation:
    def genotype_to_phenotype(self, genotype):  # pragma: no cover - phenotype is preset
        raise AssertionError("phenotype is preset")


def make_ind(iid: int, pid: int, comps) -> Individual:
    ind = Individual(genotype=iid, representation=StubRepresentation())
    ind.phenotype = Prog(pid, comps)
    return ind


def field_mapper(cb: int):
    return lambda t, i, p: f"u{cb}:{i.genotype}"


def prog_callback(cb: int):
    return lambda prog: f"x{cb}:{prog.id}"


PROG_RE = re.compile(r"^P(\d+)")
U_RE = re.compile(r"^u(\d+):(\d+)$")
X_RE = re.compile(r"^x(\d+):(\d+)$")


def decode_cell(s: str):
    m = PROG_RE.match(s)
    if m and prog_text(int(m.group(1))) == s:
        return ["p", int(m.group(1))]
    m = U_RE.match(s)
    if m:
        return ["u", int(m.group(1)), int(m.group(2))]
    m = X_RE.match(s)
    if m:
        return ["x", int(m.group(1)), int(m.group(2))]
    try:
        v = float(s)
    except ValueError:
        return "unknown"
    if v != v or abs(v) == float("inf"):
        return "unknown"   # (inf / nan cells only occur in the dedicated extreme-fitness scenario, which counts rows)
    if v == int(v) and abs(v) < 10**9:
        return ["f", int(v)]
    return "T"  # a non-integral float: wall-clock time


def canon_name(s: str) -> str:
    return s.replace(" ", "_")


def real_name(s: str) -> str:
    return s.replace("_", " ")


def read_snapshot(path: str):
    """The file as a killed process would leave it: bytes through a second handle, csv-parsed.
    Returns (rows, problem) where problem is None or a description of an incomplete tail."""
    with open(path, "rb") as f:
        raw = f.read()
    text = raw.decode("utf-8")
    rows = list(csv.reader(io.StringIO(text, newline="")))
    problem = None
    if raw and not raw.endswith(b"\r\n"):
        problem = f"file does not end with a row terminator: ...{raw[-40:]!r}"
    out = []
    for n, row in enumerate(rows):
        if n == 0:
            out.append([canon_name(c) for c in row])
        else:
            out.append([decode_cell(c) for c in row])
    return out, problem


# ----------------------------------------------------------------------------------------
# cases
# ----------------------------------------------------------------------------------------

class Spy(SearchRecorder):
    def __init__(self):
        self.log = []

    def register(self, tracker, individual, problem, is_best=False):
        self.log.append((individual, bool(is_best)))


def make_problem(k: int, minimize, force_multi: bool):
    if k == 1 and not force_multi:
        return SingleObjectiveProblem(lambda p: p.fit[0], minimize=minimize[0])
    return MultiObjectiveProblem(list(minimize), lambda p: list(p.fit))


def aggregate(comps, minimize):
    return sum(-c if m else c for c, m in zip(comps, minimize))


def sx_fields(fields):
    return "default" if fields is None else [[n, cb] for n, cb in fields]


def sx_events(events):
    return [[iid, pid, list(comps), bool(best)] for (iid, pid, comps, best) in events]


def gen_case(h: Harness, kind: str):
    rng = h.rng
    k = rng.choice([1, 2, 3, 3, 4])
    only_best = rng.random() < 0.5
    pool = [f"c{n}" for n in range(8)]
    fields = None
    if kind != "simplegp" and rng.random() < 0.35:
        names = rng.sample(pool[:5] + ["Fitness0", "Phenotype"], rng.randint(1, 3))
        fields = [(n, rng.randrange(20)) for n in names]
    elif kind != "simplegp" and rng.random() < 0.15:
        fields = []      # an explicitly EMPTY set of fields: the log has the extra columns only
    n_extra = rng.choice([0, 1, 2, 2, 3]) if kind != "simplegp" else rng.choice([0, 1, 2, 2, 2, 3, 3])
    extra_names_pool = pool + [f"Fitness{j}" for j in range(k + 1)] * (1 if rng.random() < 0.4 else 0) \
        + (["Phenotype", "Execution_Time"] if rng.random() < 0.2 else [])
    if fields is not None and rng.random() < 0.5:
        extra_names_pool += [n for n, _ in fields]
    extras = [(n, 20 + rng.randrange(20)) for n in rng.sample(extra_names_pool, min(n_extra, len(extra_names_pool)))]
    hist_len = rng.choice([0, 1, 2, 3, 4, 5, 6, 8]) if not h.thorough else rng.choice([0, 1, 2, 3, 5, 8, 13, 21, 30])
    minimize = [rng.random() < 0.5 for _ in range(k)]
    history = []
    for iid in range(hist_len):
        pid = rng.randrange(max(2, hist_len))  # programs repeat
        comps = [rng.randint(-3, 9) for _ in range(k)]
        history.append((iid, pid, comps, rng.random() < 0.5))
    return dict(kind=kind, k=k, only_best=only_best, fields=fields, extras=extras, minimize=minimize, history=history,
                force_multi=rng.random() < 0.3)


CORPUS = [
    dict(kind="recorder", k=3, only_best=False, fields=None, extras=[], minimize=[False] * 3,
         history=[(0, 0, [10, 20, 30], True), (1, 1, [4, 5, 6], False)], force_multi=False),
    dict(kind="recorder", k=1, only_best=True, fields=None, extras=[], minimize=[True],
         history=[(0, 0, [5], True), (1, 1, [7], False), (2, 2, [3], True)], force_multi=False),
    dict(kind="recorder", k=2, only_best=False, fields=None, extras=[("Fitness1", 21), ("c3", 22)], minimize=[False, True],
         history=[(0, 3, [1, 2], True), (1, 3, [2, 1], True)], force_multi=False),
    dict(kind="recorder", k=4, only_best=False, fields=[("c0", 1), ("c1", 2)], extras=[("c1", 23), ("c2", 24)],
         minimize=[False] * 4, history=[(0, 1, [1, 2, 3, 4], False), (1, 2, [4, 3, 2, 1], True)], force_multi=False),
    dict(kind="recorder", k=2, only_best=True, fields=None, extras=[], minimize=[False, False], history=[], force_multi=False),
    dict(kind="recorder", k=2, only_best=False, fields=[], extras=[("c1", 23), ("c2", 24)], minimize=[False, True],
         history=[(0, 1, [1, 2], False), (1, 2, [4, 3], True)], force_multi=False),
    dict(kind="tracker", k=1, only_best=False, fields=[], extras=[("c0", 25)], minimize=[False],
         history=[(0, 0, [3], False), (1, 1, [5], False)], force_multi=False),
    dict(kind="tracker", k=1, only_best=True, fields=None, extras=[], minimize=[False],
         history=[(0, 0, [3], False), (1, 1, [3], False), (2, 2, [5], False), (3, 3, [4], False), (4, 0, [7], False)],
         force_multi=False),
    dict(kind="tracker", k=3, only_best=False, fields=None, extras=[("c0", 25)], minimize=[False, True, False],
         history=[(0, 0, [1, 2, 3], False), (1, 1, [3, 2, 1], False), (2, 2, [0, 0, 9], False)], force_multi=True),
    dict(kind="simplegp", k=1, only_best=False, fields=None, extras=[("c0", 30), ("c1", 31)], minimize=[False],
         history=[(0, 2, [1], False), (1, 3, [2], False)], force_multi=False),
    # ONE objective given as a list (`minimize=[True]`: a multi-objective problem with one objective), best-only log, ties in the history
    dict(kind="simplegp", k=1, only_best=True, fields=None, extras=[("c0", 30)], minimize=[True],
         history=[(0, 2, [3], False), (1, 3, [3], False), (2, 1, [2], False), (3, 4, [2], False), (4, 5, [5], False), (5, 6, [2], False)], force_multi=True),
    dict(kind="simplegp", k=1, only_best=True, fields=None, extras=[], minimize=[False],
         history=[(0, 2, [1], False), (1, 3, [1], False), (2, 1, [4], False), (3, 4, [4], False)], force_multi=True),
    dict(kind="simplegp", k=3, only_best=True, fields=None, extras=[("c0", 30), ("c1", 31), ("c2", 32)],
         minimize=[False, False, True], history=[(0, 2, [1, 5, 2], False), (1, 3, [2, 6, 1], False), (2, 1, [0, 0, 0], False)],
         force_multi=False),
]


def describe(case, upto=None) -> str:
    hist = case["history"] if upto is None else case["history"][:upto]
    ctor = {"recorder": "CSVSearchRecorder", "tracker": "CSVSearchRecorder under the real tracker",
            "simplegp": "SimpleGP.build_recorder"}[case["kind"]]
    return (f"{ctor}(objectives={case['k']}, fields={case['fields']}, extra_fields={case['extras']}, "
            f"only_record_best_individuals={case['only_best']}) after registering "
            f"{[(iid, 'P%d' % pid, comps, best) for iid, pid, comps, best in hist]}")


_KEEP_ALIVE: list = []


def run_case(h: Harness, case, tmp: str, n: int):
    kind, k, only_best = case["kind"], case["k"], case["only_best"]
    fields, extras, minimize = case["fields"], case["extras"], case["minimize"]
    path = os.path.join(tmp, f"case{n}.csv")
    problem = make_problem(k, minimize, case["force_multi"])
    site = "SimpleGP.build_recorder" if kind == "simplegp" else "CSVSearchRecorder.register"
    spy = Spy()
    recorder = None
    snaps, events = [], []
    try:
        if kind == "simplegp":
            from geml.simplegp import SimpleGP
            tracker = SimpleGP.build_recorder(None, problem, path, only_best, False,
                                              {real_name(n_): prog_callback(cb) for n_, cb in extras} if extras else None)
            recorder = tracker.recorders[0]
            tracker.recorders.append(spy)
        else:
            py_fields = None if fields is None else {real_name(n_): field_mapper(cb) for n_, cb in fields}
            py_extras = {real_name(n_): field_mapper(cb) for n_, cb in extras} if (extras or h.rng.random() < 0.5) else None
            recorder = CSVSearchRecorder(path, problem, fields=py_fields, extra_fields=py_extras,
                                         only_record_best_individuals=only_best)
            if kind == "tracker":
                cls = SingleObjectiveProgressTracker if isinstance(problem, SingleObjectiveProblem) else MultiObjectiveProgressTracker
                tracker = cls(problem, recorders=[recorder, spy])
            else:
                tracker = SimpleNamespace(start_time=monotonic_ns())
        snap, prob = read_snapshot(path)
        if prob:
            h.fail(site, "incomplete-row-on-disk", f"{describe(case, 0)}: {prob}", case)
        snaps.append(snap)
        other = None
        if n % 3 == 1:
            # the individuals have a past: they carry a fitness for ANOTHER problem (which stays alive) as well
            other = make_problem(k, minimize, True)
            _KEEP_ALIVE.append(other)
            del _KEEP_ALIVE[:-40]
        for j, (iid, pid, comps, best) in enumerate(case["history"]):
            ind = make_ind(iid, pid, comps)
            if other is not None:
                ind.set_fitness(other, Fitness(1234.0, [4321.0 + c for c in range(k)]))
            if kind == "recorder":
                ind.set_fitness(problem, Fitness(float(aggregate(comps, minimize)), [float(c) for c in comps]))
                recorder.register(tracker, ind, problem, is_best=best)
                flag = best
            else:
                # the batch arrives as a list, a generator or an iterator, in rotation (the signature says Iterable[Individual])
                tracker.evaluate([[ind], (x for x in [ind]), iter([ind]), (ind,)][(j + n) % 4])
                if len(spy.log) != j + 1:
                    h.fail("ProgressTracker.evaluate", "register-not-called-once",
                           f"{describe(case, j + 1)}: the tracker called register {len(spy.log)} times after {j + 1} evaluations (batch given as "
                           f"{['a list', 'a generator', 'an iterator', 'a tuple'][(j + n) % 4]})", case)
                    break
                flag = spy.log[-1][1]
                if len(spy.log) != j + 1 or spy.log[-1][0] is not ind:
                    h.fail("ProgressTracker.evaluate", "register-not-called-once",
                           f"{describe(case, j + 1)}: the tracker called register {len(spy.log)} times after {j + 1} evaluations", case)
            events.append((iid, pid, comps, flag))
            snap, prob = read_snapshot(path)
            if prob:
                h.fail(site, "incomplete-row-on-disk", f"{describe(case, j + 1)}: {prob}", case)
            snaps.append(snap)
    except Exception as e:  # noqa: BLE001
        h.fail(site, "raises", f"{describe(case)}: raised {type(e).__name__}: {e}", case)
        return
    finally:
        if recorder is not None:
            recorder.csv_file.close()
    nontrivial = (k >= 2 or len(extras) >= 1) and len(events) >= 2
    mk = "simplegp" if kind == "simplegp" else "recorder"
    if kind == "simplegp":
        op = ["simplegp", "fixed", k, sx_fields(extras), only_best, sx_events(events)]
    else:
        op = ["recorder", "fixed", k, sx_fields(fields), sx_fields(extras), only_best, sx_events(events)]
    h.agree(site, op, snaps, nontrivial=nontrivial, replay=case)
    for j in range(len(events) + 1):
        if j not in (0, len(events)) and len(events) > 10 and j % 5:
            continue
        h.holds(site, "column-not-faithful",
                ["prop_file", mk, k, sx_fields(None if kind == "simplegp" else fields), sx_fields(extras), only_best,
                 sx_events(events[:j]), snaps[j]],
                f"{describe(case, j)}: the file on disk parses to {snaps[j]}", case, nontrivial=nontrivial)
    # one objective: "best" can only mean a strict improvement -- also when the wrapper was given a one-element list
    # of directions (a MultiObjectiveProblem with a single objective)
    if (kind != "recorder" and isinstance(problem, SingleObjectiveProblem)) or (kind == "simplegp" and k == 1):
        aggs = [aggregate(c, minimize) for (_, _, c, _) in events]
        h.agree("SingleObjectiveProgressTracker.evaluate", ["track_flags", aggs], [f for (_, _, _, f) in events],
                nontrivial=len(aggs) >= 2, replay=case)
        h.holds("SingleObjectiveProgressTracker.evaluate", "row-flagged-best-is-not-a-strict-improvement",
                ["prop_flags", aggs, [f for (_, _, _, f) in events]],
                f"{describe(case)}: maximising aggregates {aggs} were announced to the recorder with is_best={[f for (_, _, _, f) in events]} "
                f"(so the best-only log {'holds' if only_best else 'would hold'} rows that are not strict improvements, or misses one)", case, nontrivial=len(aggs) >= 2)
    h.count(f"kind={kind}")
    h.count(f"objectives={k}")
    h.count(f"extras={len(extras)}")
    h.count(f"mode={'only_best' if only_best else 'all'}")
    h.count(f"fields={'default' if fields is None else 'user'}")
    h.count(f"history_len={len(events) if len(events) < 9 else '9+'}")


# ----------------------------------------------------------------------------------------
# a process that really is killed
# ----------------------------------------------------------------------------------------

KILL_SCRIPT = r"""
import json, os, signal, sys
sys.path.insert(0, {harness!r}); sys.path.insert(0, {props!r})
import c20
from geneticengine.evaluation.recorder import CSVSearchRecorder
from geneticengine.problems import Fitness
from types import SimpleNamespace
from time import monotonic_ns
case = json.loads({case!r})
problem = c20.make_problem(case["k"], case["minimize"], True)
extras = {{c20.real_name(n): c20.field_mapper(cb) for n, cb in case["extras"]}}
rec = CSVSearchRecorder({path!r}, problem, extra_fields=extras, only_record_best_individuals=case["only_best"])
t = SimpleNamespace(start_time=monotonic_ns())
for iid, pid, comps, best in case["history"]:
    ind = c20.make_ind(iid, pid, comps)
    ind.set_fitness(problem, Fitness(0.0, [float(c) for c in comps]))
    rec.register(t, ind, problem, is_best=best)
os.kill(os.getpid(), signal.SIGKILL)
"""


def run_killed(h: Harness, case, tmp: str, n: int):
    path = os.path.join(tmp, f"killed{n}.csv")
    here = os.path.dirname(os.path.abspath(__file__))
    script = KILL_SCRIPT.format(harness=os.path.dirname(here), props=here, case=json.dumps(case), path=path)
    env = dict(os.environ)
    env["PYTHONPATH"] = str(REPO) + os.pathsep + env.get("PYTHONPATH", "")
    p = subprocess.run([sys.executable, "-c", script], capture_output=True, text=True, timeout=120, env=env)
    if p.returncode != -signal.SIGKILL:
        from core import InfraError
        raise InfraError(f"kill child ended with rc={p.returncode}: {p.stderr[-1500:]}")
    snap, prob = read_snapshot(path)
    desc = f"process SIGKILLed right after its last register; {describe(case)}"
    if prob:
        h.fail("CSVSearchRecorder.register", "incomplete-row-on-disk", f"{desc}: {prob}", case)
    h.agree("CSVSearchRecorder.register",
            ["recorder_last", "fixed", case["k"], "default", sx_fields(case["extras"]), case["only_best"], sx_events(case["history"])],
            snap, replay=case)
    h.holds("CSVSearchRecorder.register", "column-not-faithful",
            ["prop_file", "recorder", case["k"], "default", sx_fields(case["extras"]), case["only_best"],
             sx_events(case["history"]), snap], f"{desc}: the file on disk parses to {snap}", case)
    h.count("killed-process")


# ----------------------------------------------------------------------------------------
# an end-to-end SimpleGP search (thorough tier; one in quick)
# ----------------------------------------------------------------------------------------

class SearchRoot(ABC):
    pass


@dataclass
class SearchLeaf(SearchRoot):
    v: Annotated[int, IntRange(0, 40)]

    def __str__(self):
        return prog_text(self.v)


@dataclass
class SearchNode(SearchRoot):
    a: Annotated[int, IntRange(0, 9)]
    b: Annotated[int, IntRange(0, 9)]

    def __str__(self):
        return prog_text(100 + 10 * self.a + self.b)


def search_pid(p):
    return p.v if isinstance(p, SearchLeaf) else 100 + 10 * p.a + p.b


def run_simplegp_search(h: Harness, tmp: str, n: int, k: int, only_best: bool, seed: int):
    from geneticengine.grammar.grammar import extract_grammar
    from geml.simplegp import SimpleGP

    pid = search_pid

    def fit(p):
        x = pid(p)
        return [(x * (j + 3)) % 11 - 2 for j in range(k)] if k > 1 else (x * 3) % 11 - 2

    g = extract_grammar([SearchLeaf, SearchNode], SearchRoot)
    path = os.path.join(tmp, f"search{n}.csv")
    extras = [("c0", 40), ("c1", 41), ("c2", 42)]
    spy = Spy()
    site = "SimpleGP.search"
    try:
        sgp = SimpleGP(fitness_function=fit, grammar=g, minimize=[False] * k if k > 1 else False, max_depth=3,
                       max_evaluations=40, max_time=60, population_size=8, elitism=1, novelty=1, seed=seed,
                       csv_output=path, only_record_best_individuals=only_best,
                       csv_extra_fields={n_: (lambda cb: (lambda p: f"x{cb}:{pid(p)}"))(cb) for n_, cb in extras})
        sgp.gp.tracker.recorders.append(spy)
        sgp.search()
        sgp.gp.tracker.recorders[0].csv_file.flush()
    except Exception as e:  # noqa: BLE001
        h.fail(site, "raises", f"SimpleGP(objectives={k}, csv_extra_fields=3).search() raised {type(e).__name__}: {e}", [k, only_best, seed])
        return
    snap, prob = read_snapshot(path)
    sgp.gp.tracker.recorders[0].csv_file.close()
    events = []
    for iid, (ind, best) in enumerate(spy.log):
        comps = [int(c) for c in ind.get_fitness(sgp.problem).fitness_components]
        events.append((iid, pid(ind.get_phenotype()), comps, best))
    desc = f"SimpleGP(objectives={k}, csv_extra_fields={extras}, only_best={only_best}, seed={seed}).search(): {len(events)} registrations"
    if prob:
        h.fail(site, "incomplete-row-on-disk", f"{desc}: {prob}", [k, only_best, seed])
    h.agree(site, ["simplegp_last", "fixed", k, sx_fields(extras), only_best, sx_events(events)], snap, replay=[k, only_best, seed])
    h.holds(site, "column-not-faithful", ["prop_file", "simplegp", k, "default", sx_fields(extras), only_best, sx_events(events), snap],
            f"{desc}: the file on disk parses to {snap[:4]}...", [k, only_best, seed])
    h.count("simplegp-search")


def check_second_search_same_log(h: Harness, tmp: str):
    """a tracker and its best-only CSV log live through SEVERAL searches (restarts with other seeds sharing one log): over the whole
    file a row is written for the first registration and for strict improvements on everything registered before -- a later search
    does not start over"""
    from geneticengine.algorithms.gp.gp import GeneticProgramming
    from geneticengine.algorithms.random_search import RandomSearch
    from geneticengine.evaluation.budget import EvaluationBudget
    from geneticengine.grammar.grammar import extract_grammar
    from geneticengine.random.sources import NativeRandomSource
    from geneticengine.representations.tree.initializations import MaxDepthDecider
    from geneticengine.representations.tree.treebased import TreeBasedRepresentation
    g = extract_grammar([SearchLeaf, SearchNode], SearchRoot)
    for trial, (minimize, algos) in enumerate([(False, ("gp", "gp")), (True, ("gp", "rs", "gp")), (False, ("rs", "gp"))]):
        path = os.path.join(tmp, f"second{trial}.csv")
        problem = SingleObjectiveProblem(lambda p: float((search_pid(p) * 7) % 23), minimize=minimize)
        recorder = CSVSearchRecorder(path, problem, only_record_best_individuals=True)
        spy = Spy()
        tracker = SingleObjectiveProgressTracker(problem, recorders=[recorder, spy])
        desc = f"one tracker + best-only log through the searches {algos} (minimize={minimize})"
        try:
            done = 0
            for j, algo in enumerate(algos):
                r = NativeRandomSource(10 * trial + j)
                rep = TreeBasedRepresentation(g, MaxDepthDecider(r, g, 3))
                done += 16
                if algo == "gp":
                    GeneticProgramming(problem, EvaluationBudget(done), rep, random=r, tracker=tracker, population_size=6).search()
                else:
                    RandomSearch(problem, EvaluationBudget(done), rep, random=r, tracker=tracker).search()
            recorder.csv_file.flush()
        except Exception as e:  # noqa: BLE001
            h.fail("GeneticProgramming.search", "raises", f"{desc}: {type(e).__name__}: {e}", [trial])
            continue
        finally:
            recorder.csv_file.close()
        aggs = [int(-i.get_fitness(problem).fitness_components[0] if minimize else i.get_fitness(problem).fitness_components[0]) for (i, _) in spy.log]
        flags = [f for (_, f) in spy.log]
        snap, prob = read_snapshot(path)
        rows = len(snap) - 1 if snap else -1
        h.count("second-search-same-log")
        h.seen(f"second-search:{trial}", nontrivial=True)
        h.holds("SingleObjectiveProgressTracker.evaluate", "row-flagged-best-is-not-a-strict-improvement", ["prop_flags", aggs, flags],
                f"{desc}: {len(aggs)} registrations, is_best flags {flags}", [trial])
        want = sum(1 for j, a in enumerate(aggs) if j == 0 or a > max(aggs[:j]))
        if rows != want:
            h.fail("CSVSearchRecorder.register", "best-only-log-misses-a-strict-improvement" if rows < want else "column-not-faithful",
                   f"{desc}: {want} registrations are the first or a strict improvement on everything registered before, the file has {rows} rows", [trial])


def check_reregistered_individuals(h: Harness, tmp: str):
    """an individual can be registered again later (an elite carried into the next generation): its row shows ITS fitness components
    again -- also when the fitness function fills and returns one preallocated list of floats, and other individuals were evaluated
    in between"""
    import csv as csvmod
    rng = h.rng
    for trial in range(h.n(12, 80)):
        k = rng.randint(1, 3)
        minimize = [rng.random() < 0.5 for _ in range(k)]
        buf: list = []

        def into_buffer(p, buf=buf):
            buf[:] = [float(c) for c in p.fit]
            return buf
        problem = MultiObjectiveProblem(list(minimize), into_buffer)
        path = os.path.join(tmp, f"rereg{trial}.csv")
        recorder = CSVSearchRecorder(path, problem, only_record_best_individuals=False)
        tracker = MultiObjectiveProgressTracker(problem, recorders=[recorder])
        n = rng.randint(3, 6)
        inds = [make_ind(i, 4 * i, [rng.randint(0, 9) + i * 10 for _ in range(k)]) for i in range(n)]
        order = list(range(n)) + [rng.randrange(n) for _ in range(rng.randint(2, 5))]
        rng.shuffle(order)
        desc = f"CSV log under the real multi-objective tracker, fitness function returns one reused list; presentation order {order}"
        try:
            for step_, j in enumerate(order):
                # (every other registration goes through `evaluate_single`, the entry point Population uses for each member of each generation)
                if (step_ + trial) % 2:
                    tracker.evaluate_single(inds[j])
                else:
                    tracker.evaluate([inds[j]])
            recorder.csv_file.flush()
        except Exception as e:  # noqa: BLE001
            h.fail("CSVSearchRecorder.register", "raises", f"{desc}: {type(e).__name__}: {e}", [trial])
            continue
        finally:
            recorder.csv_file.close()
        with open(path, newline="") as f:
            rows = list(csvmod.reader(f))
        h.count("reregistered-individuals")
        h.seen(f"rereg:{trial}:{order}", nontrivial=len(set(order)) < len(order))
        if len(rows) != len(order) + 1:
            h.fail("CSVSearchRecorder.register", "column-not-faithful", f"{desc}: {len(order)} registrations, {len(rows) - 1} rows", [trial])
            continue
        header = rows[0]
        cols = [header.index(f"Fitness{c}") for c in range(k)]
        for r, j in zip(rows[1:], order):
            got = [float(r[c]) for c in cols]
            want = [float(x) for x in inds[j].phenotype.fit]
            if got != want:
                h.fail("CSVSearchRecorder.register", "column-not-faithful",
                       f"{desc}: the row of individual #{j} (components {want}) shows the fitness columns {got}", [trial, order, j])
                break


def check_short_lived_individuals(h: Harness, tmp: str):
    """a search discards most individuals soon after they are registered, and the memory of a dead individual is handed to a later
    one: with the default columns, every row still shows the program of the individual registered THERE"""
    import csv as csvmod
    import gc
    rng = h.rng
    for trial in range(h.n(4, 30)):
        k = rng.randint(1, 3)
        problem = MultiObjectiveProblem([False] * k, lambda p: [float(c) for c in p.fit])
        path = os.path.join(tmp, f"shortlived{trial}.csv")
        recorder = CSVSearchRecorder(path, problem, only_record_best_individuals=False)
        tracker = MultiObjectiveProgressTracker(problem, recorders=[recorder])
        n = rng.randint(40, 90)
        pids = [rng.randrange(10 ** 6) for _ in range(n)]
        desc = f"CSV log with the default columns under the real tracker, {n} individuals each registered once and dropped at once"
        try:
            for i, pid in enumerate(pids):
                tracker.evaluate([make_ind(i, pid, [rng.randint(0, 9) for _ in range(k)])])
                if i % 7 == 0:
                    gc.collect()
            recorder.csv_file.flush()
        except Exception as e:  # noqa: BLE001
            h.fail("CSVSearchRecorder.register", "raises", f"{desc}: {type(e).__name__}: {e}", [trial])
            continue
        finally:
            recorder.csv_file.close()
        with open(path, newline="") as f:
            rows = list(csvmod.reader(f))
        h.count("short-lived-individuals")
        h.seen(f"shortlived:{trial}:{n}:{k}", nontrivial=True)
        if len(rows) != n + 1 or "Phenotype" not in rows[0]:
            h.fail("CSVSearchRecorder.register", "column-not-faithful", f"{desc}: {len(rows) - 1} rows, header {rows[:1]}", [trial])
            continue
        c = rows[0].index("Phenotype")
        for i, (r, pid) in enumerate(zip(rows[1:], pids)):
            if r[c] != prog_text(pid):
                h.fail("CSVSearchRecorder.register", "column-not-faithful",
                       f"{desc}: row {i} belongs to the program {prog_text(pid)!r}, its Phenotype column shows {r[c]!r}", [trial, i])
                break


def check_many_objectives(h: Harness, tmp: str):
    """with the default columns a problem of K objectives gets the columns Fitness0 .. Fitness{K-1}, and column FitnessJ shows component J
    of the individual of that row -- also for two- and three-digit J"""
    import csv as csvmod
    rng = h.rng
    for k in ((11, 12, 26) if not h.thorough else (10, 11, 12, 20, 21, 26, 101, 112)):
        minimize = [rng.random() < 0.5 for _ in range(k)]
        problem = MultiObjectiveProblem(list(minimize), lambda p: [float(c) for c in p.fit])
        path = os.path.join(tmp, f"many{k}.csv")
        recorder = CSVSearchRecorder(path, problem, only_record_best_individuals=False)
        tracker = MultiObjectiveProgressTracker(problem, recorders=[recorder])
        inds = [make_ind(i, 4 * i, [1000 * i + 7 * j + 1 for j in range(k)]) for i in range(4)]
        desc = f"CSV log with the default columns for a problem of {k} objectives"
        try:
            tracker.evaluate(inds)
            recorder.csv_file.flush()
        except Exception as e:  # noqa: BLE001
            h.fail("CSVSearchRecorder.register", "raises", f"{desc}: {type(e).__name__}: {e}", [k])
            continue
        finally:
            recorder.csv_file.close()
        with open(path, newline="") as f:
            rows = list(csvmod.reader(f))
        h.count("many-objectives")
        h.seen(f"many-objectives:{k}", nontrivial=True)
        missing = [f"Fitness{j}" for j in range(k) if f"Fitness{j}" not in (rows[0] if rows else [])]
        if len(rows) != len(inds) + 1 or missing:
            h.fail("CSVSearchRecorder.register", "column-not-faithful", f"{desc}: {len(rows) - 1} rows for {len(inds)} individuals, missing columns {missing[:5]}", [k])
            continue
        for i, r in enumerate(rows[1:]):
            got = [float(r[rows[0].index(f"Fitness{j}")]) for j in range(k)]
            want = [float(c) for c in inds[i].phenotype.fit]
            if got != want:
                j = next(j for j in range(k) if got[j] != want[j])
                h.fail("CSVSearchRecorder.register", "column-not-faithful",
                       f"{desc}: row {i}, column Fitness{j} shows {got[j]}, component {j} of that individual is {want[j]}", [k, i, j])
                break


def check_extreme_first(h: Harness, tmp: str):
    """the first registered individual is a new best whatever its fitness is -- also the worst value there is (inf when
    minimising, -inf when maximising) or NaN: its row opens the best-only log.  For the infinities the later flags are
    judged by `prop_flags` with the infinity mapped to an integer beyond all other values (the order is what matters)."""
    inf = float("inf")
    BIG = 10**9
    for first in (inf, -inf, float("nan")):
        for minimize in (True, False):
            vals = [first, 5.0, 3.0, 3.0, 7.0, 1.0, first]
            path = os.path.join(tmp, f"extreme{len(os.listdir(tmp))}.csv")
            problem = SingleObjectiveProblem(lambda p: p.fit[0], minimize=minimize)
            recorder = CSVSearchRecorder(path, problem, only_record_best_individuals=True)
            spy = Spy()
            tracker = SingleObjectiveProgressTracker(problem, recorders=[recorder, spy])
            desc = f"best-only log under the real tracker, minimize={minimize}, fitness history {vals}"
            try:
                for j, v in enumerate(vals):
                    tracker.evaluate([make_ind(j, 4 * j, [v])])
                recorder.csv_file.flush()
            except Exception as e:  # noqa: BLE001
                h.fail("SingleObjectiveProgressTracker.evaluate", "raises", f"{desc}: raised {type(e).__name__}: {e}", [repr(first), minimize])
                continue
            finally:
                recorder.csv_file.close()
            flags = [f for (_, f) in spy.log]
            snap, prob = read_snapshot(path)
            h.count("extreme-first-fitness")
            h.seen(f"extreme:{first!r}:{minimize}", nontrivial=True)
            rows = len(snap) - 1 if snap else -1
            if not flags or not flags[0]:
                h.fail("SingleObjectiveProgressTracker.evaluate", "first-individual-not-announced-as-best",
                       f"{desc}: the first registered individual was announced with is_best={flags[:1]}; the log has {rows} rows", [repr(first), minimize])
                continue
            if rows != sum(flags):
                h.fail("CSVSearchRecorder.register", "column-not-faithful", f"{desc}: {sum(flags)} registrations were flagged best, the file has {rows} rows",
                       [repr(first), minimize])
            if first != first:
                # NaN first: a later row is an improvement only if its value is strictly better than EVERY earlier one, and no value
                # compares better than NaN -- the log opens with the NaN row and has no other
                late = [j for j in range(1, len(flags)) if flags[j]]
                if late:
                    h.fail("SingleObjectiveProgressTracker.evaluate", "row-flagged-best-is-not-a-strict-improvement",
                           f"{desc}: registrations {late} were announced (and logged) as new best although none of them compares strictly better than the "
                           f"first value (NaN): is_best flags {flags}", [repr(first), minimize])
            if first == first:   # not NaN: comparisons are meaningful
                aggs = [(BIG if (v > 0) != minimize else -BIG) if abs(v) == inf else int(-v if minimize else v) for v in vals]
                h.holds("SingleObjectiveProgressTracker.evaluate", "row-flagged-best-is-not-a-strict-improvement", ["prop_flags", aggs, flags],
                        f"{desc}: is_best flags {flags}", [repr(first), minimize])


def check_users_own_order(h: Harness, tmp: str):
    """a problem whose author overrides `is_better` (lexicographic: the first component decides, the second breaks ties -- whatever the
    aggregate says): the best-only log has a row exactly for the registrations THAT order calls a strict improvement on the incumbent"""
    class Lexicographic(MultiObjectiveProblem):
        def is_better(self, a, b):
            return tuple(a.fitness_components) > tuple(b.fitness_components)
    rng = h.rng
    for trial in range(h.n(20, 200)):
        n = rng.randint(3, 9)
        hist = [(rng.randint(0, 3), rng.choice([0, 9, 20, 50])) for _ in range(n)]
        path = os.path.join(tmp, f"lex{len(os.listdir(tmp))}.csv")
        problem = Lexicographic([False, False], lambda p: [float(x) for x in p.fit])
        recorder = CSVSearchRecorder(path, problem, only_record_best_individuals=True)
        spy = Spy()
        tracker = SingleObjectiveProgressTracker(problem, recorders=[recorder, spy])
        desc = f"best-only log under the real single-objective tracker, problem with its own is_better (lexicographic on the components), history {hist}"
        try:
            for j, comps in enumerate(hist):
                tracker.evaluate([make_ind(j, 4 * j, list(comps))])
            recorder.csv_file.flush()
        except Exception as e:  # noqa: BLE001
            h.fail("SingleObjectiveProgressTracker.evaluate", "raises", f"{desc}: raised {type(e).__name__}: {e}", [hist])
            continue
        finally:
            recorder.csv_file.close()
        flags = [f for (_, f) in spy.log]
        want, inc = [], None
        for comps in hist:
            better = inc is None or tuple(comps) > inc
            want.append(better)
            if better:
                inc = tuple(comps)
        snap, prob = read_snapshot(path)
        rows = len(snap) - 1 if snap else -1
        h.count("users-own-order")
        h.seen(f"lex:{hist}", nontrivial=sum(want) >= 2)
        if flags != want:
            h.fail("SingleObjectiveProgressTracker.evaluate", "row-flagged-best-is-not-a-strict-improvement",
                   f"{desc}: is_best flags {flags}; by the problem's own order the strict improvements on the incumbent are {want}", [hist])
        elif rows != sum(want):
            h.fail("CSVSearchRecorder.register", "column-not-faithful", f"{desc}: {sum(want)} registrations are improvements, the file has {rows} rows", [hist])


def check_extra_fields_of_programs_that_print_alike(h: Harness, tmp: str):
    """SimpleGP's extra columns are computed from the ROW'S OWN program -- also when the programs' `__str__` does not tell them apart (constants
    printed rounded, a pretty-printer that abbreviates)"""
    from geml.simplegp import SimpleGP

    class Rounded:
        def __init__(self, pid, v):
            self.id, self.v, self.fit = pid, v, [v]

        def __str__(self):
            return f"Const({self.v // 10 * 10})"
    rng = h.rng
    for trial in range(h.n(6, 60)):
        n = rng.randint(4, 10)
        vals = [rng.randint(0, 39) for _ in range(n)]
        path = os.path.join(tmp, f"alike{len(os.listdir(tmp))}.csv")
        problem = SingleObjectiveProblem(lambda p: float(p.v), minimize=False)
        try:
            tracker = SimpleGP.build_recorder(None, problem, path, False, False, {"Value": lambda p: f"v{p.v}", "Twice": lambda p: f"w{2 * p.v}"})
            recorder = tracker.recorders[0]
            for j, v in enumerate(vals):
                ind = Individual(genotype=j, representation=StubRepresentation())
                ind.phenotype = Rounded(j, v)
                tracker.evaluate([ind])
            recorder.csv_file.flush()
            recorder.csv_file.close()
            with open(path, newline="") as f:
                rows = list(csv.DictReader(f))
        except Exception as e:  # noqa: BLE001
            h.fail("SimpleGP.build_recorder", "raises", f"extra fields over programs that print alike: {type(e).__name__}: {e}", [vals])
            continue
        h.count("extra-fields-of-programs-that-print-alike")
        h.seen(f"alike:{vals}", nontrivial=len({v // 10 for v in vals}) < len(set(vals)))
        got = [(r.get("Value"), r.get("Twice")) for r in rows]
        want = [(f"v{v}", f"w{2 * v}") for v in vals]
        if got != want:
            j = next((k for k in range(min(len(got), len(want))) if got[k] != want[k]), min(len(got), len(want)))
            h.fail("SimpleGP.build_recorder", "column-not-faithful",
                   f"SimpleGP.build_recorder with extra fields Value / Twice over programs with values {vals} (printed rounded to tens): row {j} shows "
                   f"{got[j] if j < len(got) else 'nothing'}, the row's own program gives {want[j] if j < len(want) else 'nothing'}", [vals, j])


def check_new_recorder_on_an_existing_path(h: Harness, tmp: str):
    """a recorder opened on a path that already holds the log of an EARLIER run (the same csv_path used twice): the file is this run's
    header and this run's rows -- nothing of the other run, whose columns may have been different"""
    rng = h.rng
    for trial in range(h.n(8, 60)):
        path = os.path.join(tmp, f"reopen{len(os.listdir(tmp))}.csv")
        k1, k2 = rng.choice([(1, 1), (1, 2), (2, 1), (3, 2)])
        rows_written = []
        try:
            for run_no, k in enumerate((k1, k2)):
                problem = MultiObjectiveProblem([False] * k, lambda p: [float(c) for c in p.fit])
                recorder = CSVSearchRecorder(path, problem, only_record_best_individuals=False)
                tracker = MultiObjectiveProgressTracker(problem, recorders=[recorder])
                n = rng.randint(1, 4)
                for j in range(n):
                    tracker.evaluate([make_ind(100 * run_no + j, 4 * j, [rng.randint(0, 9) for _ in range(k)])])
                recorder.csv_file.flush()
                recorder.csv_file.close()
                rows_written.append((k, n))
            with open(path, newline="") as f:
                rows = list(csv.reader(f))
        except Exception as e:  # noqa: BLE001
            h.fail("CSVSearchRecorder.__init__", "raises", f"second recorder on an existing path: {type(e).__name__}: {e}", [trial])
            continue
        h.count("new-recorder-on-an-existing-path")
        h.seen(f"reopen:{trial}:{rows_written}", nontrivial=True)
        k, n = rows_written[-1]
        widths = {len(r) for r in rows}
        if len(rows) != n + 1 or len(widths) != 1 or not rows or not any("itness" in c for c in rows[0]):
            h.fail("CSVSearchRecorder.__init__", "column-not-faithful",
                   f"a recorder ({k} objectives) opened on the path of an earlier run's log ({rows_written[0][0]} objectives, {rows_written[0][1]} rows) and given "
                   f"{n} registrations left a file of {len(rows)} lines with row widths {sorted(widths)}; expected its own header and its own {n} rows", [trial, rows_written])


def check_one_object_twice_in_a_batch(h: Harness, tmp: str):
    """the same individual OBJECT twice in one batch handed to the tracker (selection with replacement, an elite next to itself): in
    all-rows mode every registration has its row"""
    rng = h.rng
    for trial in range(h.n(10, 80)):
        path = os.path.join(tmp, f"twice{len(os.listdir(tmp))}.csv")
        multi = trial % 2 == 1
        problem = MultiObjectiveProblem([False, True], lambda p: [float(p.fit[0]), 1.0]) if multi else SingleObjectiveProblem(lambda p: float(p.fit[0]), minimize=trial % 4 == 0)
        try:
            recorder = CSVSearchRecorder(path, problem, only_record_best_individuals=False)
            tracker = (MultiObjectiveProgressTracker if multi else SingleObjectiveProgressTracker)(problem, recorders=[recorder])
            inds = [make_ind(j, 4 * j, [rng.randint(0, 9)]) for j in range(rng.randint(2, 4))]
            batch = [rng.choice(inds) for _ in range(rng.randint(3, 7))] + [inds[0], inds[0]]
            tracker.evaluate(batch)
            recorder.csv_file.flush()
            recorder.csv_file.close()
            with open(path, newline="") as f:
                rows = list(csv.reader(f))
        except Exception as e:  # noqa: BLE001
            h.fail("CSVSearchRecorder.register", "raises", f"one object twice in a batch: {type(e).__name__}: {e}", [trial])
            continue
        h.count("one-object-twice-in-a-batch")
        h.seen(f"twice:{trial}:{[i.genotype for i in batch]}", nontrivial=True)
        if len(rows) - 1 != len(batch):
            h.fail("CSVSearchRecorder.register", "column-not-faithful",
                   f"{'multi' if multi else 'single'}-objective tracker, all-rows log: one batch of {len(batch)} individuals (objects {[i.genotype for i in batch]}, some of "
                   f"them the same object more than once) left {len(rows) - 1} rows", [trial, [i.genotype for i in batch]])


TINY_SCALES = [("1+k*2^-52", lambda k: 1.0 + k * 2.0 ** -52), ("2e5+k*1e-6", lambda k: 200000.0 + k * 1e-6), ("1e12+k*2^-12", lambda k: 1e12 + k * 2.0 ** -12),
               ("-(3+k*1e-12)", lambda k: -(3.0 + (50 - k) * 1e-12)), ("k*1e-300", lambda k: k * 1e-300), ("k", float)]


def check_tiny_improvements(h: Harness, tmp: str):
    """a strict improvement is a strict improvement however small it is (neighbouring floats, a difference in the 12th digit):
    the best-only log has a row for it.  The flags are judged by `prop_flags` on the RANKS of the values."""
    rng = h.rng
    for trial in range(h.n(24, 200)):
        name, f = TINY_SCALES[trial % len(TINY_SCALES)]
        minimize = trial % 2 == 0
        ranks = [rng.randint(0, 50)] + [rng.randint(0, 50) for _ in range(rng.randint(3, 9))]
        if trial % 3 == 0:
            ranks = sorted(set(ranks), reverse=minimize)     # every registration improves, by one or a few steps
        vals = [f(k) for k in ranks]
        assert all((vals[a] < vals[b]) == (ranks[a] < ranks[b]) for a in range(len(ranks)) for b in range(len(ranks))), (name, ranks)
        path = os.path.join(tmp, f"tiny{len(os.listdir(tmp))}.csv")
        problem = SingleObjectiveProblem(lambda p: p.fit[0], minimize=minimize)
        recorder = CSVSearchRecorder(path, problem, only_record_best_individuals=True)
        spy = Spy()
        tracker = SingleObjectiveProgressTracker(problem, recorders=[recorder, spy])
        desc = f"best-only log under the real tracker, minimize={minimize}, fitness history {[repr(v) for v in vals]} (ranks {ranks}, scale {name})"
        replay = {"ranks": ranks, "scale": name, "minimize": minimize}
        try:
            for j, v in enumerate(vals):
                tracker.evaluate([make_ind(j, 4 * j, [v])])
            recorder.csv_file.flush()
        except Exception as e:  # noqa: BLE001
            h.fail("SingleObjectiveProgressTracker.evaluate", "raises", f"{desc}: raised {type(e).__name__}: {e}", replay)
            continue
        finally:
            recorder.csv_file.close()
        flags = [fl for (_, fl) in spy.log]
        snap, prob = read_snapshot(path)
        rows = len(snap) - 1 if snap else -1
        h.count("tiny-improvements:" + name)
        h.seen(f"tiny:{trial}:{ranks}", nontrivial=True)
        aggs = [-k if minimize else k for k in ranks]
        h.holds("SingleObjectiveProgressTracker.evaluate", "row-flagged-best-is-not-a-strict-improvement", ["prop_flags", aggs, flags],
                f"{desc}: is_best flags {flags}", replay)
        if rows != sum(flags):
            h.fail("CSVSearchRecorder.register", "column-not-faithful", f"{desc}: {sum(flags)} registrations were flagged best, the file has {rows} rows", replay)
        want = sum(1 for j, a in enumerate(aggs) if j == 0 or a > max(aggs[:j]))
        if rows != want:
            h.fail("CSVSearchRecorder.register", "best-only-log-misses-a-strict-improvement",
                   f"{desc}: {want} registrations are the first or a strict improvement, the file has {rows} rows", replay)


def run(h: Harness):
    tmp = tempfile.mkdtemp(prefix="c20-", dir="/tmp")
    try:
        check_extreme_first(h, tmp)
        check_users_own_order(h, tmp)
        check_new_recorder_on_an_existing_path(h, tmp)
        check_one_object_twice_in_a_batch(h, tmp)
        check_extra_fields_of_programs_that_print_alike(h, tmp)
        check_tiny_improvements(h, tmp)
        check_second_search_same_log(h, tmp)
        check_reregistered_individuals(h, tmp)
        check_short_lived_individuals(h, tmp)
        check_many_objectives(h, tmp)
        n = 0
        for case in CORPUS:
            run_case(h, case, tmp, n)
            n += 1
        for kind, (q, t) in (("recorder", (45, 2000)), ("tracker", (30, 1200)), ("simplegp", (30, 1200))):
            for _ in range(h.n(q, t)):
                run_case(h, gen_case(h, kind), tmp, n)
                n += 1
        for j in range(h.n(2, 12)):
            case = gen_case(h, "recorder")
            case["fields"] = None
            run_killed(h, case, tmp, j)
        for j in range(h.n(1, 6)):
            run_simplegp_search(h, tmp, j, [3, 1, 2, 4, 2, 3][j], j % 2 == 1, seed=h.rng.randrange(1000))
    finally:
        shutil.rmtree(tmp, ignore_errors=True)
