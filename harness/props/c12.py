"""C12 -- the reported best individual really is the best one evaluated.

Implementation side: the real SingleObjectiveProgressTracker / MultiObjectiveProgressTracker fed,
through the real SequentialEvaluator and the real problems, with individuals whose fitness is
scripted (every history over three values, exhaustively); a recording SearchRecorder observes the
`is_best` flags and the tracker's best individual(s) after every registration; and the four real
search algorithms, whose return value is compared with the best of everything they evaluated.
Model side: lean/GEVerif/Model/Eval.lean; theorems: lean/GEVerif/Props/C12.lean.
"""
from __future__ import annotations

import itertools

from core import Harness

from props.eval_common import MemLog, MutationOnlyRep, Recording, ScriptRep, as_int, logging_ff, mk_ind, uid

from geneticengine.algorithms.gp.gp import GeneticProgramming, default_generic_programming_step
from geneticengine.algorithms.gp.structure import GeneticStep
from geneticengine.algorithms.gp.operators.combinators import ParallelStep, SequenceStep
from geneticengine.algorithms.gp.operators.crossover import GenericCrossoverStep
from geneticengine.algorithms.gp.operators.elitism import ElitismStep
from geneticengine.algorithms.gp.operators.evaluation import EvaluateStep
from geneticengine.algorithms.gp.operators.mutation import GenericMutationStep
from geneticengine.algorithms.gp.operators.novelty import NoveltyStep
from geneticengine.algorithms.gp.operators.selection import TournamentSelection
from geneticengine.algorithms.hill_climbing import HC
from geneticengine.evaluation.recorder import SearchRecorder
from geneticengine.algorithms.one_plus_one import OnePlusOne
from geneticengine.algorithms.random_search import RandomSearch
from geneticengine.evaluation.budget import EvaluationBudget
from geneticengine.evaluation.sequential import SequentialEvaluator
from geneticengine.evaluation.tracker import MultiObjectiveProgressTracker, SingleObjectiveProgressTracker
from geneticengine.problems import MultiObjectiveProblem, SingleObjectiveProblem
from geneticengine.random.sources import NativeRandomSource
from geneticengine.solutions.individual import Individual

RULE = ("ALL histories of fitness values over {0,1,2} of length 1..6 (thorough: 1..9), both optimisation directions, fed to the real "
        "single-objective tracker one by one or as one batch; ALL histories of aggregates over {0,1,2} of length 1..6 (thorough 1..8) "
        "for the multi-objective tracker (two objectives, one minimised; default and user aggregate); random longer histories that "
        "re-present individuals; then real runs of RandomSearch, HC, OnePlusOne and GeneticProgramming (several steps) on single- and "
        "multi-objective problems, both directions, seeds from VERIF_SEED.  Level A: best individual(s) and is_best flags after every "
        "registration and the value returned by search() equal the model's; level B: the Lean predicates propSingle / propMulti / "
        "prop_returned (the property's own wording on raw fitness values) on what the implementation reported.  Non-trivial = the "
        "history contains a tie or a non-monotone stretch")
ASSUMPTIONS = [
    "fitness values are integer-valued floats, an arbitrary linear order in the model; NaN (all comparisons false) is outside the model",
    "'every individual evaluated so far' is read as every individual handed to the progress tracker; individuals evaluated by a "
    "GP step directly through the evaluator are additionally compared with the returned best by a Python-side oracle",
]


def nontrivial_history(vals):
    return len(set(vals)) < len(vals) or any(a > b for a, b in zip(vals, vals[1:]))


# ----------------------------------------------------------------------------------------
# trackers on scripted histories
# ----------------------------------------------------------------------------------------

_OTHER_PROBLEMS: list = []   # earlier problems stay alive (the individuals' fitness stores are weak-keyed)


def pre_evaluate(inds, multi: bool):
    """the individuals have a history: they were scored on ANOTHER problem before (hold-out set, previous stage)
    whose ranking is the reverse of the one the tracker will see"""
    other = (MultiObjectiveProblem([True, False], lambda ph: [float(ph[1]) + 1, float(-ph[1])]) if multi
             else SingleObjectiveProblem(lambda ph: float(-3 * ph[1] - 1), minimize=False))
    _OTHER_PROBLEMS.append(other)
    del _OTHER_PROBLEMS[:-50]
    SequentialEvaluator().evaluate(other, inds)


def run_single(vals, minimize, batching, repeats=None, pre=False):
    """Feed the values to a real single-objective tracker. `repeats`: list of positions; entry k of the
    presentation order is the individual created for position repeats[k] (re-presentation)."""
    rec = Recording()
    fn = lambda ph: ph[1]  # noqa: E731
    problem = SingleObjectiveProblem(fn, minimize=minimize)
    tracker = SingleObjectiveProgressTracker(problem, SequentialEvaluator(), recorders=[rec])
    inds = [mk_ind(i, v) for i, v in enumerate(vals)]
    if pre == "same-function":
        # the same individuals were searched before under ANOTHER problem over the SAME fitness function object, with the
        # opposite direction (a warm start); that problem is still alive
        other = SingleObjectiveProblem(fn, minimize=not minimize)
        _OTHER_PROBLEMS.append(other)
        del _OTHER_PROBLEMS[:-50]
        SequentialEvaluator().evaluate(other, inds)
    elif pre:
        pre_evaluate(inds, False)
    order = [inds[i] for i in (repeats if repeats is not None else range(len(vals)))]
    if batching == "one-by-one":
        for ind in order:
            tracker.evaluate([ind])
    elif batching == "single":
        for ind in order:
            tracker.evaluate_single(ind)
    elif batching == "generator":
        tracker.evaluate(x for x in order)      # a one-shot iterable (the signature says Iterable[Individual])
    else:
        tracker.evaluate(order)
    rec.presented = len(order)
    return rec, tracker


def all_reported(h: Harness, site, rec, label) -> bool:
    """every individual handed to the tracker is reported to the recorders (once per presentation)"""
    n = getattr(rec, "presented", None)
    if n is not None and len(rec.rows) != n:
        h.fail(site, "evaluated-individual-never-reported", f"{label}: {n} individuals were handed to the tracker, the recorder was told about {len(rec.rows)}",
               [label, n, len(rec.rows)])
        return False
    return True


def judge_single(h: Harness, site, rec, minimize, label):
    if not all_reported(h, site, rec, label):
        return
    hist_agg = [[r["uid"], as_int(r["agg"])] for r in rec.rows]
    hist_raw = [[r["uid"], as_int(r["comps"][0])] for r in rec.rows]
    bests = [r["best"] for r in rec.rows]
    flags = [bool(r["is_best"]) for r in rec.rows]
    vals = [x[1] for x in hist_raw]
    nt = nontrivial_history(vals)
    if any(b is None for b in bests):
        h.fail(site, "no-best-reported", f"{label}: get_best_individual() returned None after a registration; values {vals}", hist_raw)
        return
    h.agree(site, ["single_run", hist_agg], [bests, flags], nontrivial=nt)
    h.holds(site, "wrong-best-or-flag", ["prop_single", minimize, hist_raw, bests, flags],
            f"{label}: minimize={minimize} values(uid,value)={hist_raw} reported best uids={bests} is_best flags={flags}", hist_raw, nontrivial=nt)


def check_single_histories(h: Harness):
    L = h.n(6, 9)
    site = "SingleObjectiveProgressTracker.evaluate"
    k = 0
    for n in range(1, L + 1):
        for vals in itertools.product((0, 1, 2), repeat=n):
            for minimize in (False, True):
                batching = ("one-by-one", "batch", "single", "generator")[k % 4]
                k += 1
                pre = k % 4 == 1
                if k % 8 == 5:
                    pre = "same-function"
                rec, _ = run_single(vals, minimize, batching, pre=pre)
                judge_single(h, site, rec, minimize, f"history {list(vals)} ({batching}" + (", individuals scored on another problem before)" if pre is True else
                             (", individuals scored before on a live problem over the same fitness function with the opposite direction)" if pre else ")")))
        h.count(f"single:len{n}", 2 * 3 ** n)
    # re-presented individuals and longer histories over a wider range
    rng = h.rng
    for _ in range(h.n(200, 2000)):
        n = rng.randint(2, 14)
        vals = [rng.randint(-3, 3) for _ in range(n)]
        m = rng.randint(n, n + 6)
        repeats = list(range(n)) + [rng.randrange(n) for _ in range(m - n)]
        rng.shuffle(repeats)
        minimize = rng.random() < 0.5
        rec, _ = run_single(vals, minimize, rng.choice(["one-by-one", "batch", "generator"]), repeats)
        judge_single(h, site, rec, minimize, f"values {vals} presented in order {repeats}")
        h.count("single:re-presented")


def check_infinite_fitness(h: Harness):
    """fitness values at the ends of the number line: an infinitely GOOD individual (inf when maximising, -inf when minimising) is the
    best there is -- it is reported, flagged and returned; an infinitely bad one never displaces anything.  Judged by the same
    predicate with the infinities mapped to integers beyond all other values."""
    rng = h.rng
    inf = float("inf")
    BIG = 10**9
    site = "SingleObjectiveProgressTracker.evaluate"
    for trial in range(h.n(80, 800)):
        n = rng.randint(2, 8)
        vals = [float(rng.randint(-3, 3)) for _ in range(n)]
        for j in rng.sample(range(n), rng.randint(1, min(3, n))):
            vals[j] = rng.choice([inf, -inf])
        minimize = trial % 2 == 0
        rec = Recording()
        problem = SingleObjectiveProblem(lambda ph: ph[1], minimize=minimize)
        tracker = SingleObjectiveProgressTracker(problem, SequentialEvaluator(), recorders=[rec])
        inds = [mk_ind(i, v) for i, v in enumerate(vals)]
        try:
            if trial % 3 == 0:
                tracker.evaluate(inds)
            else:
                for ind in inds:
                    tracker.evaluate([ind])
        except Exception as e:  # noqa: BLE001
            h.fail(site, "raises", f"values {[repr(v) for v in vals]} (minimize={minimize}): {type(e).__name__}: {e}", [repr(v) for v in vals])
            continue

        def unit(v):
            return BIG if v == inf else (-BIG if v == -inf else int(v))
        hist_raw = [[r["uid"], unit(r["comps"][0])] for r in rec.rows]
        bests = [r["best"] for r in rec.rows]
        flags = [bool(r["is_best"]) for r in rec.rows]
        h.count("single:infinite-fitness")
        h.seen(f"inf12:{trial}", nontrivial=True)
        if len(rec.rows) != n or any(b is None for b in bests):
            h.fail(site, "evaluated-individual-never-reported", f"values {[repr(v) for v in vals]}: {len(rec.rows)} registrations for {n} individuals", [repr(v) for v in vals])
            continue
        h.holds(site, "wrong-best-or-flag", ["prop_single", minimize, hist_raw, bests, flags],
                f"fitness history {[repr(v) for v in vals]} (minimize={minimize}; infinities shown as +-10^9): values(uid,value)={hist_raw} reported best uids={bests} "
                f"is_best flags={flags}", hist_raw)


# monotone injective re-scalings of the fitness values: the trackers may depend on the ORDER of
# the values only (C12 speaks of better / at least as good), never on their magnitude or spacing
SCALES = [
    ("2e6+k*5e-4", lambda k: 2000000.0 + k * 0.0005),
    ("1+k*ulp", lambda k: 1.0 + k * 2.0 ** -52),
    ("1e12+k", lambda k: 1e12 + k),
    ("k*1e-300", lambda k: k * 1e-300),
    ("-1e9+k*1e-6", lambda k: -1e9 + k * 1e-6),
    ("k*1e-25", lambda k: k * 1e-25),
]


def check_scale_invariance(h: Harness):
    """the same history of RANKS under different monotone scalings must give the same flags and
    the same tracked best as under the identity scaling (which is compared with the model above)"""
    import itertools as it
    site = "Problem.is_better"
    L = h.n(4, 6)
    for n in range(2, L + 1):
        for ranks in it.product((0, 1, 2, 3), repeat=n):
            if len(set(ranks)) < 2:
                continue
            for minimize in (False, True):
                ref, _ = run_single(ranks, minimize, "single")
                ref_obs = ([r["best"] for r in ref.rows], [bool(r["is_best"]) for r in ref.rows])
                for name, f in SCALES:
                    vals = [f(k) for k in ranks]
                    if len(set(vals)) != len(set(ranks)):
                        continue
                    rec, _ = run_single(vals, minimize, "single")
                    obs = ([r["best"] for r in rec.rows], [bool(r["is_best"]) for r in rec.rows])
                    h.seen(f"scale:{name}:{ranks}:{minimize}")
                    if obs != ref_obs:
                        h.fail(site, "depends-on-magnitude-not-order",
                               f"single-objective tracker, minimize={minimize}: the history with ranks {list(ranks)} scaled by {name} "
                               f"(values {vals}) reports best uids / flags {obs}, the same order of plain integers gives {ref_obs}",
                               [list(ranks), name, minimize])
                        break
    # multi-objective: aggregates scaled through the user aggregate
    for n in range(2, h.n(4, 5) + 1):
        for ranks in it.product((0, 1, 2), repeat=n):
            if len(set(ranks)) < 2:
                continue
            outs = []
            for name, f in [("id", float)] + SCALES[:3]:
                rec = Recording()
                problem = MultiObjectiveProblem([False, False], lambda ph: [ph[1], 0.0], aggregate_fitness=lambda comps: comps[0])
                tracker = MultiObjectiveProgressTracker(problem, SequentialEvaluator(), recorders=[rec])
                for i, k in enumerate(ranks):
                    tracker.evaluate([mk_ind(i, f(k))])
                outs.append((name, [bool(r["is_best"]) for r in rec.rows], sorted(uid(x) for x in tracker.get_best_individuals())))
            h.seen(f"scale-multi:{ranks}")
            for name, flags, front in outs[1:]:
                if (flags, front) != (outs[0][1], outs[0][2]):
                    h.fail(site, "depends-on-magnitude-not-order",
                           f"multi-objective tracker: ranks {list(ranks)} scaled by {name} give flags {flags} / front {front}, plain integers give {outs[0][1]} / {outs[0][2]}",
                           [list(ranks), name])
                    break
    h.count("scale-invariance-histories")


def shaped(problem, shape):
    """the fitness function hands its components over as a list, a tuple, a numpy array or a one-shot generator (`(score(p, case) for
    case in cases)`): the library reads them once, and what it records and aggregates are those values"""
    if shape == "list":
        return problem
    f = problem.ff["ff"]
    if shape == "tuple":
        problem.ff["ff"] = lambda ph: tuple(f(ph))
    elif shape == "array":
        import numpy as np
        problem.ff["ff"] = lambda ph: np.array(f(ph), dtype=float)
    else:
        problem.ff["ff"] = lambda ph: (x for x in f(ph))
    return problem


def run_multi(aggs, variant, batching, repeats=None, pre=False, shape="list"):
    """Two objectives (first maximised, second minimised): components (a + d, d) have default aggregate a."""
    rec = Recording()
    if variant == "default":
        problem = MultiObjectiveProblem([False, True], lambda ph: [ph[1] + (ph[0] % 3), ph[0] % 3])
    elif variant == "bool":
        problem = MultiObjectiveProblem(True, lambda ph: [-ph[1] - (ph[0] % 2), ph[0] % 2])
    elif variant == "one-min":
        # a multi-objective problem that happens to have ONE objective, minimised (default aggregate = the negated component)
        problem = MultiObjectiveProblem([True], lambda ph: [-ph[1]])
    elif variant == "one-min-bool":
        problem = MultiObjectiveProblem(True, lambda ph: [-ph[1]])
    elif variant == "bool-max":
        # ONE bool for all objectives, and it says "maximise"
        problem = MultiObjectiveProblem(False, lambda ph: [ph[1] - (ph[0] % 2), ph[0] % 2])
    elif variant == "one-max-bool":
        problem = MultiObjectiveProblem(False, lambda ph: [ph[1]])
    else:
        problem = MultiObjectiveProblem([False, False], lambda ph: [ph[1], 7 - ph[0]], aggregate_fitness=lambda comps: comps[0])
    problem = shaped(problem, shape)
    tracker = MultiObjectiveProgressTracker(problem, SequentialEvaluator(), recorders=[rec])
    inds = [mk_ind(i, v) for i, v in enumerate(aggs)]
    if pre:
        pre_evaluate(inds, True)
    order = [inds[i] for i in (repeats if repeats is not None else range(len(aggs)))]
    if batching == "one-by-one":
        for ind in order:
            tracker.evaluate([ind])
    elif batching == "generator":
        tracker.evaluate(iter(order))
    else:
        tracker.evaluate(order)
    rec.presented = len(order)
    return rec, tracker


VARIANT_MINS = {"default": [False, True], "bool": [True, True], "one-min": [True], "one-min-bool": [True], "bool-max": [False, False], "one-max-bool": [False]}


def judge_multi(h: Harness, site, rec, label, variant=None):
    if not all_reported(h, site, rec, label):
        return
    hist = [[r["uid"], as_int(r["agg"])] for r in rec.rows]
    mins = VARIANT_MINS.get(variant)
    if mins is not None:
        # without a user-supplied aggregate, "best aggregate" is the sum of the components with the minimised ones negated:
        # computed here from the components the individuals carry and the DECLARED directions
        hist = [[r["uid"], sum(-as_int(c) if m else as_int(c) for c, m in zip(r["comps"], mins))] for r in rec.rows]
    elif variant == "user":
        # the user's aggregate is the first component -- also when that is exactly 0
        hist = [[r["uid"], as_int(r["comps"][0])] for r in rec.rows]
    fronts = [list(r["front"]) for r in rec.rows]
    flags = [bool(r["is_best"]) for r in rec.rows]
    vals = [x[1] for x in hist]
    nt = nontrivial_history(vals)
    h.agree(site, ["multi_run", hist], [fronts, flags], nontrivial=nt)
    h.holds(site, "reported-best-below-best-aggregate", ["prop_multi", hist, fronts, flags],
            f"{label}: aggregates(uid,agg)={hist} reported best lists={fronts} is_best flags={flags}", hist, nontrivial=nt)


def check_multi_histories(h: Harness):
    L = h.n(6, 8)
    site = "MultiObjectiveProgressTracker.evaluate"
    k = 0
    for n in range(1, L + 1):
        for aggs in itertools.product((0, 1, 2), repeat=n):
            variant = ("default", "bool", "user", "one-min", "one-min-bool", "bool-max", "one-max-bool")[k % 7]
            batching = ("one-by-one", "batch", "generator")[(k // 7) % 3]
            k += 1
            pre = k % 4 == 1
            shape = ("list", "generator", "list", "tuple", "array")[(k // 3) % 5]
            try:
                rec, _ = run_multi(aggs, variant, batching, pre=pre, shape=shape)
            except Exception as e:  # noqa: BLE001
                h.fail(site, "raises", f"aggregate history {list(aggs)} ({variant} aggregate, {batching}, fitness function returns a {shape}): "
                       f"{type(e).__name__}: {e}", {"aggs": list(aggs), "variant": variant, "shape": shape})
                continue
            h.count(f"multi:components-as-{shape}")
            judge_multi(h, site, rec, f"aggregate history {list(aggs)} ({variant} aggregate, {batching}, fitness function returns a {shape}"
                        + (", individuals scored on another problem before)" if pre else ")"), variant)
        h.count(f"multi:len{n}", 3 ** n)
    rng = h.rng
    for _ in range(h.n(150, 1500)):
        n = rng.randint(2, 12)
        aggs = [rng.randint(-3, 3) for _ in range(n)]
        m = rng.randint(n, n + 5)
        repeats = list(range(n)) + [rng.randrange(n) for _ in range(m - n)]
        rng.shuffle(repeats)
        variant = rng.choice(["default", "bool", "user", "one-min", "one-min-bool", "bool-max", "one-max-bool"])
        rec, _ = run_multi(aggs, variant, rng.choice(["one-by-one", "batch", "generator"]), repeats)
        judge_multi(h, site, rec, f"aggregates {aggs} presented in order {repeats} ({variant} aggregate)", variant)
        h.count("multi:re-presented")


# ----------------------------------------------------------------------------------------
# the four search algorithms
# ----------------------------------------------------------------------------------------

def gp_steps():
    return [
        ("default", default_generic_programming_step),
        ("elitism|novelty", lambda: ParallelStep([ElitismStep(), NoveltyStep()], weights=[1, 1])),
        ("tournament;crossover(1);mutation(1)", lambda: SequenceStep(TournamentSelection(2), GenericCrossoverStep(1), GenericMutationStep(1))),
        ("novelty", lambda: NoveltyStep()),
        # the last step evaluates (through the bare evaluator) before the tracker sees the generation
        ("tournament;mutation(1);elitism", lambda: SequenceStep(TournamentSelection(2), GenericMutationStep(1), ElitismStep())),
    ]


def track_handed(tracker):
    """records the uid of every individual handed to tracker.evaluate (whether or not it had a fitness already)"""
    handed: set = set()
    orig = tracker.evaluate

    def evaluate(individuals):
        individuals = list(individuals)
        handed.update(uid(i) for i in individuals)
        return orig(individuals)
    tracker.evaluate = evaluate
    return handed


def configurations(h: Harness):
    rng = h.rng
    reps = h.n(8, 60)
    for _ in range(reps):
        yield ("RandomSearch", None, rng.randint(1, 12))
        yield ("OnePlusOne", None, rng.randint(1, 12))
        yield ("HC", rng.randint(1, 4), rng.randint(1, 14))
        for name, mk in gp_steps():
            yield ("GeneticProgramming", (name, mk, rng.randint(2, 6)), rng.randint(1, 25))


def check_searches(h: Harness):
    rng = h.rng
    for (algo, param, n) in configurations(h):
        for kind in ("single-max", "single-min", "multi"):
            keys = [rng.randint(0, 4) for _ in range(40)]
            log = MemLog()
            rec = Recording()
            if kind == "multi":
                problem = MultiObjectiveProblem([False, True], logging_ff(log, 0, lambda k: [k, 1]))
                tracker = MultiObjectiveProgressTracker(problem, SequentialEvaluator(), recorders=[rec])
                minimize = False
            else:
                minimize = kind == "single-min"
                problem = SingleObjectiveProblem(logging_ff(log, 0, lambda k: k), minimize=minimize)
                tracker = SingleObjectiveProgressTracker(problem, SequentialEvaluator(), recorders=[rec])
            budget = EvaluationBudget(n)
            handed = track_handed(tracker)
            random = NativeRandomSource(rng.randrange(10**6))
            if algo == "RandomSearch":
                rep = ScriptRep(keys)
                alg = RandomSearch(problem, budget, rep, random, tracker)
                desc = f"RandomSearch(EvaluationBudget({n}))"
            elif algo == "OnePlusOne":
                rep = MutationOnlyRep(keys)
                alg = OnePlusOne(problem, budget, rep, random, tracker)
                desc = f"OnePlusOne(EvaluationBudget({n}))"
            elif algo == "HC":
                rep = MutationOnlyRep(keys)
                alg = HC(problem, budget, rep, random, tracker, number_of_mutations=param)
                desc = f"HC(EvaluationBudget({n}), number_of_mutations={param})"
            else:
                name, mk, pop = param
                rep = ScriptRep(keys)
                alg = GeneticProgramming(problem, budget, rep, random, tracker, population_size=pop, step=mk())
                desc = f"GeneticProgramming(EvaluationBudget({n}), population_size={pop}, step={name})"
            site = f"{algo}.search"
            desc += f" on a {kind} problem, scripted fitness keys {keys[:12]}…"
            try:
                ret = alg.search()
            except Exception as e:  # noqa: BLE001
                h.fail(site, "raises", f"{desc} raised {type(e).__name__}: {e}", {"algo": algo, "kind": kind, "n": n})
                continue
            h.count(f"search:{algo}:{kind}")
            hist_agg = [[r["uid"], as_int(r["agg"])] for r in rec.rows]
            hist_raw = [[r["uid"], as_int(r["comps"][0])] for r in rec.rows] if kind != "multi" else hist_agg
            vals = [x[1] for x in hist_raw]
            nt = nontrivial_history(vals)
            if ret is None and rec.rows:
                h.fail(site, "returns-none", f"{desc}: search() returned None although {len(rec.rows)} individuals were evaluated "
                       f"(aggregates {vals[:10]}…)", {"algo": algo, "kind": kind, "n": n, "keys": keys})
                continue
            rid = None if ret is None else uid(ret)
            h.agree(site, ["search_result", "multi" if kind == "multi" else "single", hist_agg], rid, nontrivial=nt)
            h.holds(site, "returned-not-best", ["prop_returned", minimize, hist_raw, rid],
                    f"{desc}: returned uid {rid}; registrations (uid,value)={hist_raw}", {"algo": algo, "kind": kind, "n": n, "keys": keys}, nontrivial=nt)
            if kind == "multi":
                judge_multi(h, "MultiObjectiveProgressTracker.evaluate", rec, desc)
            else:
                judge_single(h, "SingleObjectiveProgressTracker.evaluate", rec, minimize, desc)
            # Python-side oracle: nothing that was EVALUATED (fitness function invoked) beats the returned individual
            if ret is not None:
                rv = ret.get_fitness(problem).maximizing_aggregate
                registered = {r["uid"] for r in rec.rows}
                for (_, u) in log.read():
                    k = keys[u % len(keys)]
                    agg = -k if kind == "single-min" else (k - 1 if kind == "multi" else k)
                    if agg > rv:
                        h.fail(site, "individual-handed-to-the-tracker-better-than-returned" if u in handed else "evaluated-individual-better-than-returned",
                               f"{desc}: individual uid {u} was evaluated with aggregate {agg} but search() returned uid {rid} with aggregate {as_int(rv)}"
                               f" (uid {u} {'was' if u in handed else 'was never'} handed to the tracker, {'was' if u in registered else 'was never'} announced to recorders)",
                               {"algo": algo, "kind": kind, "n": n, "keys": keys})
                        break


def check_helpers(h: Harness):
    """the public ranking helpers (`problems.helpers.best_individual`, `is_better`): on evaluated populations they name the individual
    the model's `helperBest` names (the first of maximal aggregate -- what a tracker holds after the same individuals in the same
    order, `C12_helper_best_eq_tracker`) and compare as the model's `helperIsBetter`"""
    from geneticengine.problems import helpers
    rng = h.rng
    for trial in range(h.n(150, 1500)):
        n = rng.randint(1, 7)
        vals = [rng.randint(-2, 3) for _ in range(n)]
        kind = ("single-max", "single-min", "multi")[trial % 3]
        if kind == "multi":
            problem = MultiObjectiveProblem([False, True], lambda ph: [ph[1] + 1, 1])
        else:
            problem = SingleObjectiveProblem(lambda ph: ph[1], minimize=kind == "single-min")
        inds = [mk_ind(i, v) for i, v in enumerate(vals)]
        SequentialEvaluator().evaluate(problem, inds)
        hist = [[uid(i), as_int(i.get_fitness(problem).maximizing_aggregate)] for i in inds]
        try:
            b = helpers.best_individual(list(inds), problem)
            a, c = rng.choice(inds), rng.choice(inds)
            better = helpers.is_better(problem, a, c)
        except Exception as e:  # noqa: BLE001
            h.fail("helpers.best_individual", "raises", f"problems.helpers on a {kind} population with values {vals}: {type(e).__name__}: {e}", {"vals": vals, "kind": kind})
            continue
        h.count(f"helpers:{kind}")
        h.agree("helpers.best_individual", ["helper_best", hist], uid(b), nontrivial=n >= 2)
        h.agree("helpers.is_better", ["helper_is_better", [hist[uid(a)], hist[uid(c)]]], bool(better), nontrivial=uid(a) != uid(c))
        # the statement itself, judged by the declaration: nobody in the population is strictly fitter than the one returned
        bv = float(b.genotype[1])
        fitter = [v for v in vals if (v < bv if kind == "single-min" else v > bv)]
        if fitter:
            h.fail("helpers.best_individual", "best-is-not-best", f"best_individual on a {kind} population with fitness values {vals} returned the individual "
                   f"with value {bv}; the population holds {fitter[0]}", {"vals": vals, "kind": kind})


def check_single_tracker_over_components(h: Harness):
    """a SingleObjectiveProgressTracker tracking a problem with SEVERAL components (a multi-objective problem judged by its aggregate):
    individuals whose aggregates tie are no improvement on each other, whatever their components are"""
    rng = h.rng
    for trial in range(h.n(60, 600)):
        n = rng.randint(2, 8)
        comps = [(rng.randint(0, 3), rng.randint(0, 3)) for _ in range(n)]
        problem = MultiObjectiveProblem([False, False], lambda ph: [float(ph[1][0]), float(ph[1][1])])
        rec = Recording()
        tracker = SingleObjectiveProgressTracker(problem, SequentialEvaluator(), recorders=[rec])
        try:
            for i, c in enumerate(comps):
                tracker.evaluate([mk_ind(i, c)])
        except Exception as e:  # noqa: BLE001
            h.fail("SingleObjectiveProgressTracker.evaluate", "raises", f"components {comps}: {type(e).__name__}: {e}", {"comps": comps})
            continue
        h.count("single-tracker-over-components")
        aggs = [a + b_ for a, b_ in comps]
        h.seen(f"single-over-components:{comps}", nontrivial=len(set(aggs)) < len(aggs))
        want, inc = [], None
        for a in aggs:
            better = inc is None or a > inc
            want.append(better)
            inc = a if better else inc
        flags = [bool(r["is_best"]) for r in rec.rows]
        if flags != want:
            j = next(k for k in range(len(flags)) if flags[k] != want[k])
            h.fail("SingleObjectiveProgressTracker.evaluate", "is-best-flag-wrong",
                   f"single-objective tracker over a two-component problem (aggregate = sum, maximise), components {comps}: registration #{j} announced with "
                   f"is_best={flags[j]}; its aggregate {aggs[j]} {'is' if want[j] else 'is not'} a strict improvement on {aggs[:j]}", {"comps": comps})


def check_population_recorder(h: Harness):
    """`geml.common.PopulationRecorder` (what the sklearn-style wrappers report as their population): its head is the individual most
    recently announced as best -- the tracker's best -- however many improvements a run has (more than its number of slots included),
    and it holds the last `slots` improvements, newest first"""
    try:
        from geml.common import PopulationRecorder
    except Exception as e:  # noqa: BLE001
        h.notes.append(f"geml.common not importable ({type(e).__name__}): PopulationRecorder not checked")
        return
    rng = h.rng
    for trial in range(h.n(6, 40)):
        slots = rng.choice([100, 100, 3, 10])
        n = rng.choice([slots + 5, 2 * slots + 7, slots - 1 if slots > 1 else 1, 250])
        minimize = trial % 2 == 0
        vals = []
        v = 0
        for _ in range(n):
            v += rng.choice([1, 1, 2, 0, -1])      # mostly improving, some ties and steps back
            vals.append(-v if minimize else v)
        rec = PopulationRecorder(slots) if slots != 100 else PopulationRecorder()
        problem = SingleObjectiveProblem(lambda ph: ph[1], minimize=minimize)
        tracker = SingleObjectiveProgressTracker(problem, SequentialEvaluator(), recorders=[rec])
        announced = []
        ok = True
        for i, x in enumerate(vals):
            before = tracker.get_best_individual()
            tracker.evaluate([mk_ind(i, x)])
            b = tracker.get_best_individual()
            if b is not before:
                announced.insert(0, uid(b))
            head = rec.best_individuals[0] if rec.best_individuals else None
            if head is not b:
                h.fail("PopulationRecorder.register", "reported-best-is-not-the-best",
                       f"PopulationRecorder(slots={slots}) after {i + 1} registrations ({len(announced)} improvements, {'min' if minimize else 'max'}imise): its head "
                       f"has fitness {None if head is None else head.genotype[1]}, the tracker's best has {b.genotype[1]}", {"vals": vals[: i + 1], "slots": slots})
                ok = False
                break
        h.count("population-recorder-histories")
        h.seen(f"population-recorder:{trial}:{slots}:{n}", nontrivial=len(announced) > slots)
        if ok and [uid(x) for x in rec.best_individuals] != announced[:slots]:
            h.fail("PopulationRecorder.register", "reported-best-is-not-the-best",
                   f"PopulationRecorder(slots={slots}) after {n} registrations holds the improvements {[uid(x) for x in rec.best_individuals][:8]}…, "
                   f"the last {slots} announced (newest first) are {announced[:8]}…", {"vals": vals, "slots": slots})


def check_real_programs_with_ties(h: Harness):
    """real programs of a tree grammar (they carry size and depth metadata) under a coarse fitness: many ties between programs of
    different sizes.  A tie is no improvement, whatever else distinguishes the two programs: the flags are 'first or strictly better than
    everything before', and search() returns the first individual that reached the best value"""
    from props import steps_common as sc
    from geneticengine.grammar.grammar import extract_grammar
    from geneticengine.representations.tree.treebased import TreeBasedRepresentation
    import synth
    g = extract_grammar([sc.Leaf, sc.Node], sc.Root)
    rng = h.rng
    for trial in range(h.n(10, 100)):
        minimize = trial % 2 == 0
        r = NativeRandomSource(rng.randrange(10**6))
        rep = TreeBasedRepresentation(g, synth.make_decider("grow", 5, r, g))
        rows = []

        class Rec(SearchRecorder):
            def register(self, tracker, individual, problem, is_best):
                rows.append((individual, individual.get_fitness(problem).fitness_components[0], bool(is_best)))
        import numpy as _np
        # (every third run: the direction comes out of a numpy comparison -- a numpy bool, truthy like any other)
        problem = SingleObjectiveProblem(lambda p: float(len(repr(p)) % 3), minimize=_np.bool_(minimize) if trial % 3 == 0 else minimize)
        tracker = SingleObjectiveProgressTracker(problem, SequentialEvaluator(), recorders=[Rec()])
        try:
            algo = rng.choice(["rs", "hc", "gp"])
            budget = EvaluationBudget(rng.randint(8, 30))
            if algo == "rs":
                ret = RandomSearch(problem, budget, rep, r, tracker).search()
            elif algo == "hc":
                ret = HC(problem, budget, rep, r, tracker, number_of_mutations=2).search()
            else:
                ret = GeneticProgramming(problem, budget, rep, r, tracker, population_size=4).search()
        except Exception as e:  # noqa: BLE001
            h.fail("search", "raises", f"{type(e).__name__}: {e}"[:200], {"trial": trial})
            continue
        h.count(f"real-programs-with-ties:{algo}")
        vals = [v for _, v, _ in rows]
        h.seen(f"real-ties:{trial}:{vals}", nontrivial=len(set(vals)) < len(vals))
        want, inc, first_best = [], None, None
        for ind, v, _ in rows:
            better = inc is None or (v < inc if minimize else v > inc)
            want.append(better)
            if better:
                inc, first_best = v, ind
        flags = [f for _, _, f in rows]
        sizes = [getattr(i.get_phenotype(), "gengy_nodes", None) for i, _, _ in rows]
        if flags != want:
            j = next(k for k in range(len(flags)) if flags[k] != want[k])
            h.fail("SingleObjectiveProgressTracker.evaluate", "is-best-flag-wrong",
                   f"{algo} over real tree programs, {'min' if minimize else 'max'}imise, fitness values {vals} (program sizes {sizes}): registration #{j} was announced "
                   f"with is_best={flags[j]}; it {'is' if want[j] else 'is not'} a strict improvement on everything before", {"trial": trial, "vals": vals})
        elif ret is not first_best and rows:
            h.fail(f"search[{algo}]", "returned-not-the-tracked-best", f"{algo} over real tree programs with fitness values {vals}: search() returned another "
                   f"individual than the first one that reached the best value", {"trial": trial, "vals": vals})


def check_one_tracker_several_searches(h: Harness):
    """one tracker lives through SEVERAL searches (a random-search warm start followed by hill climbing or GP, the same algorithm
    object searched twice, individuals evaluated through the tracker before the search): "every individual evaluated so far" is
    counted from the tracker's first evaluation -- the second search returns the best of everything, and recorders are told
    "new best" only for strict improvements on everything announced before"""
    rng = h.rng
    for trial in range(h.n(60, 500)):
        kind = ("single-max", "single-min", "multi")[trial % 3]
        keys = [rng.randint(0, 6) for _ in range(50)]
        # (the better values come first: what the later searches find is, more often than not, no improvement)
        if trial % 2 == 0:
            head = sorted(keys[:10], reverse=(kind != "single-min"))
            keys = head + keys[10:]
        rec = Recording()
        if kind == "multi":
            problem = MultiObjectiveProblem([False, True], lambda ph: [ph[1], 1])
            tracker = MultiObjectiveProgressTracker(problem, SequentialEvaluator(), recorders=[rec])
            minimize = False
        else:
            minimize = kind == "single-min"
            problem = SingleObjectiveProblem(lambda ph: ph[1], minimize=minimize)
            tracker = SingleObjectiveProgressTracker(problem, SequentialEvaluator(), recorders=[rec])
        rep = ScriptRep(keys)
        random = NativeRandomSource(rng.randrange(10**6))
        phases = []
        site = "search"
        ret = None
        try:
            n_phases = rng.choice([2, 2, 3])
            same = None
            for ph in range(n_phases):
                total = tracker.get_number_evaluations()
                algo = rng.choice(["seed", "RandomSearch", "OnePlusOne", "HC", "GeneticProgramming", "again"])
                if algo == "again" and same is None:
                    algo = "RandomSearch"
                if algo == "seed" and ph == n_phases - 1:
                    algo = "HC"       # (the history ends with a search: its return value is what is judged)
                if algo == "seed":
                    m = rng.randint(1, 5)
                    tracker.evaluate([Individual(rep.create_genotype(random), rep) for _ in range(m)])
                    phases.append(f"tracker.evaluate({m} new individuals)")
                    continue
                # (sometimes the budget is ALREADY spent when the search starts -- the same object searched twice, a search after a
                # warm start that used everything up: the search does little or nothing, and still returns the best individual known)
                budget = EvaluationBudget(total + (0 if (total > 0 and rng.random() < 0.25) else rng.randint(1, 9)))
                if algo == "again":
                    same.budget = budget
                    alg = same
                    phases.append(f"the same {type(alg).__name__} object searched again")
                elif algo == "RandomSearch":
                    alg = RandomSearch(problem, budget, rep, random, tracker)
                elif algo == "OnePlusOne":
                    alg = OnePlusOne(problem, budget, rep, random, tracker)
                elif algo == "HC":
                    alg = HC(problem, budget, rep, random, tracker, number_of_mutations=rng.randint(1, 3))
                else:
                    alg = GeneticProgramming(problem, budget, rep, random, tracker, population_size=rng.randint(2, 4), step=default_generic_programming_step())
                if algo != "again":
                    phases.append(f"{algo}(EvaluationBudget({budget.evaluations_budget}))")
                same = alg
                site = f"{type(alg).__name__}.search"
                ret = alg.search()
        except Exception as e:  # noqa: BLE001
            h.fail(site, "raises", f"one tracker through {phases} on a {kind} problem: {type(e).__name__}: {e}", {"trial": trial, "kind": kind, "keys": keys})
            continue
        desc = f"one tracker through {phases} on a {kind} problem, scripted fitness keys {keys[:12]}…"
        h.count(f"several-searches:{kind}")
        if site == "search":
            continue
        hist_agg = [[r["uid"], as_int(r["agg"])] for r in rec.rows]
        hist_raw = [[r["uid"], as_int(r["comps"][0])] for r in rec.rows] if kind != "multi" else hist_agg
        nt = nontrivial_history([x[1] for x in hist_raw])
        replay = {"trial": trial, "kind": kind, "keys": keys, "phases": phases}
        if ret is None and rec.rows:
            h.fail(site, "returns-none", f"{desc}: the last search() returned None although the tracker had evaluated {len(rec.rows)} individuals", replay)
            continue
        rid = None if ret is None else uid(ret)
        h.agree(site, ["search_result", "multi" if kind == "multi" else "single", hist_agg], rid, nontrivial=nt)
        h.holds(site, "returned-not-best", ["prop_returned", minimize, hist_raw, rid],
                f"{desc}: the last search returned uid {rid}; registrations over the tracker's lifetime (uid,value)={hist_raw}", replay, nontrivial=nt)
        if kind == "multi":
            judge_multi(h, "MultiObjectiveProgressTracker.evaluate", rec, desc)
        else:
            judge_single(h, "SingleObjectiveProgressTracker.evaluate", rec, minimize, desc)


def check_adaptive_gp(h: Harness):
    """AdaptiveGeneticProgramming re-draws its population size when the search stagnates.  Whatever size the next generation has, every
    individual the steps evaluated on the way reaches the tracker: at the end of the search the returned individual is at least as
    good as everything the fitness function was ever asked about"""
    from geneticengine.algorithms.gp.adaptive import AdaptiveGeneticProgramming
    from geneticengine.algorithms.gp.structure import PopulationInitializer
    from geneticengine.evaluation.budget import AnyOf, TimeBudget

    class Plain(PopulationInitializer):
        def initialize(self, problem, representation, random, target_size, **kwargs):
            for _ in range(target_size):
                yield Individual(representation.create_genotype(random), representation)
    from geneticengine.evaluation.budget import SearchBudget
    from geneticengine.evaluation.recorder import SearchRecorder

    class Audited(SearchBudget):
        """the budget the search was given, unchanged; at every check (the tracker has just taken over a generation) it compares the
        tracker's best with everything the fitness function has been asked about so far"""

        def __init__(self, inner, seen, minimize, registered):
            self.inner, self.seen, self.minimize, self.registered, self.first_gap, self.first_lost = inner, seen, minimize, registered, None, None
            self.checks = 0
            self.judged = 0

        def is_done(self, tracker):
            self.checks += 1
            b = tracker.get_best_individual()
            if b is not None and self.seen and self.first_gap is None:
                vals = [v for _, v in self.seen]
                bv, best_seen = float(b.genotype[1]), (min(vals) if self.minimize else max(vals))
                if (best_seen < bv) if self.minimize else (best_seen > bv):
                    self.first_gap = (self.checks, bv, best_seen, len(self.seen))
            if self.first_lost is None:
                for u, _ in self.seen[self.judged:]:
                    if u not in self.registered:
                        self.first_lost = (self.checks, u)
                        break
                self.judged = len(self.seen)
            return self.inner.is_done(tracker)
    rng = h.rng

    def one_run(keys, minimize, budget_n, pop, seedv):
        seen: list = []          # (uid, value) of every program the fitness function was asked about, in order
        registered: set = set()

        def ff(ph, seen=seen):
            seen.append((ph[0], ph[1]))
            return float(ph[1])

        class Reg(SearchRecorder):
            def register(self, tracker, individual, problem, is_best):
                registered.add(individual.genotype[0])
        problem = SingleObjectiveProblem(ff, minimize=minimize)
        tracker = SingleObjectiveProgressTracker(problem, SequentialEvaluator(), recorders=[Reg()])
        rep = ScriptRep(keys)
        audit = Audited(AnyOf(EvaluationBudget(budget_n), TimeBudget(60)), seen, minimize, registered)
        alg = AdaptiveGeneticProgramming(problem, audit, rep, NativeRandomSource(seedv), tracker)
        alg.population_initializer = Plain()
        alg.population_size = pop
        ret = alg.search()
        return ret, audit, seen

    for trial in range(h.n(6, 80)):
        minimize = trial % 2 == 0
        if trial % 3 == 2:
            keys = [rng.randint(0, 2000) for _ in range(997)]
        else:
            # a landscape on which new records keep coming, about every other generation (a slow drift under heavy-tailed noise): the
            # generations in which the search stagnates are followed by generations that hold a new best somewhere
            drift = rng.choice([0.0, 0.05, 0.15])
            keys = [int(i * drift + rng.expovariate(1 / 40.0)) for i in range(6000)]
            if minimize:
                keys = [-k for k in keys]
        budget_n, pop, seedv = rng.choice([2500, 4000]), rng.choice([300, 500]), rng.randrange(10**6)
        try:
            ret, audit, seen = one_run(keys, minimize, budget_n, pop, seedv)
            if audit.first_gap is None and audit.first_lost is not None and audit.first_lost[1] < len(keys):
                # an evaluated program never reached the tracker (it happened not to be a new best: no violation yet).  SEARCH: the same
                # run once more, with that one program given a fitness beyond all others -- everything up to its evaluation is identical
                lost_uid = audit.first_lost[1]
                keys2 = list(keys)
                keys2[lost_uid] = (min(keys) - 10**6) if minimize else (max(keys) + 10**6)
                h.count("adaptive-gp-runs:replayed-with-the-lost-program-made-best")
                ret, audit, seen = one_run(keys2, minimize, budget_n, pop, seedv)
        except Exception as e:  # noqa: BLE001
            h.fail("AdaptiveGeneticProgramming.search", "raises", f"AdaptiveGeneticProgramming raised {type(e).__name__}: {e}"[:300], {"trial": trial})
            continue
        h.count("adaptive-gp-runs")
        h.seen(f"adaptive-gp:{trial}", nontrivial=len(seen) > 600)
        h.count("adaptive-gp-budget-checks", audit.checks)
        vals = [v for _, v in seen]
        if audit.first_gap is not None:
            k, bv, best_seen, n = audit.first_gap
            h.fail("AdaptiveGeneticProgramming.search", "evaluated-individual-never-reached-the-tracker",
                   f"AdaptiveGeneticProgramming ({'min' if minimize else 'max'}imise, population {pop}, seed {seedv}): at budget check #{k} ({n} evaluations so far) the "
                   f"tracker's best has fitness {bv}, but the fitness function had already returned {best_seen} for a program evaluated during the search",
                   {"trial": trial, "check": k, "seed": seedv, "population": pop, "budget": budget_n})
            continue
        if ret is None:
            continue
        rv = float(ret.genotype[1])
        best_seen = min(vals) if minimize else max(vals)
        if (best_seen < rv) if minimize else (best_seen > rv):
            h.fail("AdaptiveGeneticProgramming.search", "evaluated-individual-never-reached-the-tracker",
                   f"AdaptiveGeneticProgramming ({'min' if minimize else 'max'}imise, {len(seen)} evaluations): search() returned an individual of fitness {rv}, "
                   f"but the fitness function had returned {best_seen} for a program evaluated during the search", {"trial": trial})


class TapStep(GeneticStep):
    """the real step, unchanged; remembers the uid of every individual it yields (the members of the generations)"""

    def __init__(self, inner):
        self.inner = inner
        self.members: set = set()

    def iterate(self, problem, evaluator, representation, random, population, target_size, generation):
        for ind in self.inner.apply(problem, evaluator, representation, random, population, target_size, generation):
            self.members.add(uid(ind))
            yield ind


def check_gp_in_step_evaluation(h: Harness):
    """GP steps receive the bare evaluator.  A composition that varies first and selects afterwards evaluates
    offspring (counted against the budget) that may never be handed to the tracker: open finding, re-confirmed here."""
    rng = h.rng
    site = "GeneticProgramming.search"
    for trial in range(h.n(60, 300)):
        keys = [rng.randint(0, 9) for _ in range(60)]
        if trial % 3 == 0:
            keys = list(range(60))          # an improving landscape: whatever is created last is best
        log, rec = MemLog(), Recording()
        problem = SingleObjectiveProblem(logging_ff(log, 0, lambda k: k))
        tracker = SingleObjectiveProgressTracker(problem, SequentialEvaluator(), recorders=[rec])
        pop, n = rng.randint(2, 5), rng.randint(4, 16)
        handed = track_handed(tracker)
        stepname, step = rng.choice([("SequenceStep(GenericMutationStep(1), TournamentSelection(2))", lambda: SequenceStep(GenericMutationStep(1), TournamentSelection(2))),
                                     ("SequenceStep(TournamentSelection(2), GenericMutationStep(1), ElitismStep())",
                                      lambda: SequenceStep(TournamentSelection(2), GenericMutationStep(1), ElitismStep())),
                                     # (EvaluateStep evaluates the whole slice and yields it in the order it came: the best need not be first)
                                     ("SequenceStep(TournamentSelection(2), GenericMutationStep(1), EvaluateStep())",
                                      lambda: SequenceStep(TournamentSelection(2), GenericMutationStep(1), EvaluateStep()))])
        tap = TapStep(step())
        gp = GeneticProgramming(problem, EvaluationBudget(n), ScriptRep(keys), NativeRandomSource(rng.randrange(10**6)), tracker,
                                population_size=pop, step=tap)
        try:
            ret = gp.search()
        except Exception as e:  # noqa: BLE001
            h.notes.append(f"C12 GP mutation;tournament run raised {type(e).__name__}: {e}")
            continue
        h.count("search:GP:in-step:" + ("elitism-last" if "Elitism" in stepname else ("evaluate-last" if "EvaluateStep" in stepname else "mutation;tournament")))
        rv = as_int(ret.get_fitness(problem).maximizing_aggregate)
        registered = {r["uid"] for r in rec.rows}
        evaluated = [(u, keys[u % len(keys)]) for (_, u) in log.read()]
        h.seen(f"gp-in-step {keys} {pop} {n}")
        better = [(u, v) for (u, v) in evaluated if v > rv]
        if better:
            u, v = better[0]
            tracked = [(u, v) for (u, v) in better if u in handed]
            # a member of a generation (something the step yielded) that the tracker never got to see: NOT the open finding,
            # which is about offspring evaluated inside a step and dropped by it
            members = [(u, v) for (u, v) in better if u in tap.members and u not in handed]
            if tracked:
                u, v = tracked[0]
            elif members:
                u, v = members[0]
            h.fail(site, "individual-handed-to-the-tracker-better-than-returned" if tracked else
                   ("generation-member-better-than-returned-never-reached-the-tracker" if members else
                    # (the open finding is about a step that varies first and SELECTS afterwards: what it drops was evaluated; a composition whose
                    # last step evaluates exactly what it yields loses nothing -- a different failure)
                    ("evaluated-individual-better-than-returned" if not ("Elitism" in stepname or "EvaluateStep" in stepname) else "evaluated-by-the-last-step-never-reported")),
                   f"GeneticProgramming(EvaluationBudget({n}), population_size={pop}, step={stepname}): "
                   f"individual uid {u} was evaluated (counted) with fitness {v} but search() returned uid {uid(ret)} with fitness {rv}; "
                   f"uid {u} {'was' if u in handed else 'was never'} handed to the tracker ({len(evaluated)} evaluated, {len(handed)} handed to the tracker, "
                   f"{len(registered)} announced)", {"keys": keys, "pop": pop, "n": n, "step": stepname})


def check_parallel_search(h: Harness):
    """real tree programs of different sizes, neighbourhoods evaluated as ONE batch on the parallel evaluator (hill
    climbing): the returned individual is at least as good as every program the fitness function was called on, and its
    recorded fitness is the fitness of ITS program"""
    import os
    import tempfile
    import pargrammar
    import synth
    from geneticengine.algorithms.hill_climbing import HC
    from geneticengine.evaluation.parallel import ParallelEvaluator
    from geneticengine.representations.tree.treebased import TreeBasedRepresentation
    g = pargrammar.grammar()
    fd, path = tempfile.mkstemp(prefix="c12-ff.")
    os.close(fd)
    os.environ["VERIF_FF_LOG"] = path
    try:
        for trial in range(h.n(3, 12)):
            for minimize in (False, True):
                open(path, "w").close()
                r = NativeRandomSource(1000 + trial)
                rep = TreeBasedRepresentation(g, synth.make_decider("grow", 5, r, g))
                problem = SingleObjectiveProblem(pargrammar.ff_report, minimize=minimize)
                tracker = SingleObjectiveProgressTracker(problem, ParallelEvaluator())
                desc = f"HC(number_of_mutations=4, EvaluationBudget(12)) on the ParallelEvaluator, tree programs, minimize={minimize}, seed {1000 + trial}"
                try:
                    ret = HC(problem, EvaluationBudget(12), rep, r, tracker, number_of_mutations=4).search()
                except Exception as e:  # noqa: BLE001
                    h.fail("HC.search[ParallelEvaluator]", "raises", f"{desc}: raised {type(e).__name__}: {e}", [trial, minimize])
                    continue
                with open(path) as f:
                    seen_vals = [float(len(ln.strip())) for ln in f if ln.strip()]
                h.count("search:HC:parallel-evaluator")
                h.seen(f"par-search:{trial}:{minimize}", nontrivial=len(set(seen_vals)) >= 2)
                rv = ret.get_fitness(problem).fitness_components[0]
                own = pargrammar.ff_plain(ret.get_phenotype())
                if rv != own:
                    h.fail("HC.search[ParallelEvaluator]", "returned-fitness-not-of-its-program",
                           f"{desc}: the returned individual carries fitness {rv}, its program evaluates to {own}", [trial, minimize])
                    continue
                best_seen = min(seen_vals) if minimize else max(seen_vals)
                if (best_seen < rv) if minimize else (best_seen > rv):
                    h.fail("HC.search[ParallelEvaluator]", "evaluated-program-better-than-returned",
                           f"{desc}: a program with fitness {best_seen} was evaluated, search() returned one with fitness {rv} "
                           f"({len(seen_vals)} evaluations)", [trial, minimize])
    finally:
        os.environ.pop("VERIF_FF_LOG", None)
        os.unlink(path)


def run(h: Harness):
    check_parallel_search(h)
    check_gp_in_step_evaluation(h)
    check_single_histories(h)
    check_infinite_fitness(h)
    check_multi_histories(h)
    h.exhaustive = True
    check_scale_invariance(h)
    check_searches(h)
    check_helpers(h)
    check_population_recorder(h)
    check_single_tracker_over_components(h)
    check_real_programs_with_ties(h)
    check_one_tracker_several_searches(h)
    check_adaptive_gp(h)
