"""C10 -- the grammar is read-only during synthesis and search.

Every grammar observable (alternatives, distanceToTerminal, recursive_prods, terminals,
non_terminals, get_weights(), all_nodes) is snapshotted before and after every API call --
creation with every decider, mutation, crossover, mapping with the four linear representations,
whole searches -- including calls that fail or backtrack internally (grammars whose dependent
refinements raise SynthesisException in some contexts).  After the whole history the observables
are also compared with the model's analysis of the class declarations (level A).
Model: Model/GrammarState.lean (retry loop with the grammar as state), Model/Grammar.lean.
"""
from __future__ import annotations

import warnings

import gram
import synth
from core import Harness, ScriptedSource, sx
from props import c05

from geneticengine.algorithms.gp.gp import GeneticProgramming
from geneticengine.algorithms.hill_climbing import HC
from geneticengine.algorithms.one_plus_one import OnePlusOne
from geneticengine.algorithms.random_search import RandomSearch
from geneticengine.evaluation.budget import EvaluationBudget
from geneticengine.problems import SingleObjectiveProblem
from geneticengine.random.sources import NativeRandomSource
from geneticengine.representations.tree.treebased import TreeBasedRepresentation

RULE = ("generated grammars, 60% with a production made infeasible in some contexts by a dependent refinement "
        "(Dependent(vars, VarRange) over a possibly empty list -> SynthesisException -> backtracking), histories of 8..20 "
        "operations over all representations incl. failing ones and small searches; non-trivial = a history in which at least "
        "one operation backtracked or failed; distinct = distinct (spec, history seed)")
ASSUMPTIONS = [
    "class objects themselves (their __gengy__ dicts) are mutated by extract_grammar when weights are declared -- that is extraction, not synthesis, and is covered by C19",
]


def snapshot(b: gram.Built, g):
    alts = sorted(([b.index[p], [b.index[c] for c in cs]] for p, cs in g.alternatives.items()), key=lambda x: x[0])
    dist = sorted(((str(c05.sym_of(b, s)), g.distanceToTerminal[s]) for s in g.all_nodes))
    rec = c05.syms(b, g.recursive_prods)
    # (weights that are not dyadic fractions move by an ulp when another grammar over the same classes re-normalises them:
    # compared to 12 digits, the tolerance C19 grants re-extraction)
    weights = sorted((str(c05.sym_of(b, s)), round(float(w), 12)) for s, w in g.get_weights().items())
    return {"start": str(c05.sym_of(b, g.starting_symbol)), "alts": alts, "dist": dist, "rec": rec, "terminals": c05.syms(b, g.terminals),
            "nonterminals": c05.syms(b, g.non_terminals), "weights": weights, "nodes": c05.syms(b, g.all_nodes),
            "refinements": refinement_state(b.classes),
            # (entries of the minimum-depth table for anything that is not a registered symbol: none after extraction, none later)
            "dist_other": sorted((str(k), v) for k, v in g.distanceToTerminal.items() if k not in g.all_nodes)}


def refinement_state(classes):
    """the parameters of the refinement OBJECTS the productions carry (bounds, option lists, matrices): part of the productions"""
    from geneticengine.grammar.utils import get_arguments
    out = []
    for cls in classes:
        try:
            args = get_arguments(cls)
        except Exception:  # noqa: BLE001
            continue
        for name, ty in args:
            if hasattr(ty, "__metadata__"):
                mh = ty.__metadata__[0]
                state = sorted((k, repr(v.tolist()) if hasattr(v, "tolist") else repr(v)) for k, v in vars(mh).items() if not callable(v))
                out.append([cls.__name__, name, type(mh).__name__, state])
    return out


def backtracking_spec(rng):
    """productive grammar + a production that raises SynthesisException when its list is empty"""
    spec = gram.productive_spec(rng, max_classes=rng.choice([3, 4, 5]), opts={"float": False})
    n = len(spec.classes)
    spec.classes.append(gram.ClassSpec(f"V{n}", False, 0, [
        ("vars", ("ann", ("list", ("ann", "str", ("varRange", ["x", "y"]))), ("listSize", 0, rng.choice([1, 2])))),
        ("x", ("ann", "str", ("depVarFrom", "vars")))]))
    spec.considered.append(n)
    if rng.random() < 0.5:  # put it first so that deciders meet it often
        spec.considered.remove(n)
        spec.considered.insert(0, n)
    return spec


def history(h: Harness, spec, rng):
    import linear
    from linear import DSGE, GE, SGE, Stack, safe
    b = gram.build(spec)
    try:
        g = b.extract()
    except Exception:  # noqa: BLE001
        return
    mind = g.get_min_tree_depth()
    if mind >= 1000000:
        return
    line_spec = gram.spec_sx(spec)
    first = snapshot(b, g)
    events = 0
    seedv = rng.randrange(10**6)

    def guard(site, label, fn):
        nonlocal events
        before = snapshot(b, g)
        st, out = safe(fn)
        if st == "err":
            events += 1
            h.count("failing-operations")
        after = snapshot(b, g)
        if after != before:
            diff = next(k for k in before if before[k] != after[k])
            h.fail(site, "grammar-modified", f"{label} changed Grammar.{diff}: {before[diff]} -> {after[diff]}",
                   [sx(line_spec), label, seedv])
        return st, out

    src = ScriptedSource([rng.randrange(0, 1000) for _ in range(6000)])
    pool = []
    nops = rng.randint(8, 20)
    for k in range(nops):
        kind = rng.choice(["grow", "full", "pigrow", "progressive"])
        d = max(0, mind + rng.choice([-1, 0, 0, 1, 2, 3]))
        with warnings.catch_warnings():
            warnings.simplefilter("ignore")
            st, rep = guard("decider construction", f"{kind}({d})", lambda: TreeBasedRepresentation(g, synth.make_decider(kind, d, src, g)))
            if st != "ok":
                continue
            r = rng.random()
            if r < 0.5 or len(pool) < 2:
                st, v = guard("create_node", f"create_genotype[{kind},{d}]", lambda: rep.create_genotype(src))
                if st == "ok":
                    pool.append(v)
            elif r < 0.75:
                st, v = guard("create_node", f"mutate[{kind},{d}]", lambda: rep.mutate(src, rng.choice(pool)))
            else:
                st, v = guard("create_node", f"crossover[{kind},{d}]", lambda: rep.crossover(src, pool[0], pool[-1]))
    # subtrees requested for OTHER symbols than the root (the public `random_node`), with limits that are feasible for the root
    # but may be too tight for the requested symbol: such a request fails, and fails without leaving a trace on the grammar
    from geneticengine.representations.tree.treebased import random_node
    class_syms = [t for t in g.all_nodes if t in b.index]
    for k in range(4):
        sym = rng.choice(class_syms)
        kind = rng.choice(["grow", "full", "pigrow"])
        d = max(0, mind + rng.choice([0, 0, 1, 2]))
        with warnings.catch_warnings():
            warnings.simplefilter("ignore")
            st, dec = safe(lambda: synth.make_decider(kind, d, src, g))
            if st == "ok":
                guard("random_node", f"random_node({getattr(sym, '__name__', sym)}) with {kind}({d}) [min depth of that symbol {g.distanceToTerminal[sym]}]",
                      lambda: random_node(src, g, sym, dec))
                h.count("random_node:non-root" if sym is not g.starting_symbol else "random_node:root")
    # other grammars over the same classes come into being while this one is in use
    from geneticengine.grammar.grammar import extract_grammar
    # (for WEIGHTED grammars only when every registered class is reachable from the start symbol: the usable sub-grammar drops
    # unreachable siblings, and a grammar over other sibling sets re-normalises the class-level weights this grammar reads -- see below)
    weighted = any(c.weight is not None for c in spec.classes)

    def mentioned(ty):
        if isinstance(ty, tuple) and ty and ty[0] == "cls":
            yield ty[1]
        elif isinstance(ty, tuple):
            for x in ty[1:]:
                if isinstance(x, tuple):
                    yield from mentioned(x)
    alts0 = {p_: cs for p_, cs in c05.observe(b, g)[0]}
    reach, todo = {spec.start}, [spec.start]
    while todo:
        i = todo.pop()
        nxt = alts0.get(i, []) if i in alts0 else [j for _, t in spec.classes[i].fields for j in mentioned(t)]
        for j in nxt:
            if j not in reach:
                reach.add(j)
                todo.append(j)
    registered = {b.index[t] for t in g.all_nodes if t in b.index}
    if not weighted or registered <= reach:
        guard("usable_grammar", "g.usable_grammar()", lambda: g.usable_grammar())
    else:
        h.count("usable-grammar-guard-skipped:weighted-grammar-with-unreachable-siblings")
    guard("extract_grammar", "extract_grammar(same classes, other depth mode)", lambda: extract_grammar(b.considered(), b.start, not spec.expansion))
    # (not for weighted grammars: production weights are stored on the classes, so a grammar over OTHER sibling sets re-normalises
    # what this grammar reads -- extracting a different grammar is not one of the operations C10 speaks of; recorded as an observation)
    if len(b.considered()) > 1 and not any(c.weight is not None for c in spec.classes):
        guard("extract_grammar", "extract_grammar(subset of the productions)", lambda: extract_grammar(b.considered()[1:], b.start, spec.expansion))
    # linear representations
    shared = NativeRandomSource(seedv)
    d = mind + 1
    for name, mk in (("GE", lambda: GE(g, synth.make_decider("grow", d, shared, g), gene_length=32)),
                     ("SGE", lambda: SGE(g, synth.make_decider("pigrow", d, shared, g), gene_length=16)),
                     ("DynamicSGE", lambda: DSGE(g, d)), ("Stack", lambda: Stack(g, gene_length=128))):
        st, rep = guard(name, f"{name}()", mk)
        if st != "ok":
            continue
        st, ge1 = guard(name, f"{name}.create_genotype", lambda: rep.create_genotype(shared))
        if st != "ok":
            continue
        guard(name, f"{name}.genotype_to_phenotype", lambda: rep.genotype_to_phenotype(ge1))
        st, ge2 = guard(name, f"{name}.mutate", lambda: rep.mutate(shared, ge1))
        if st == "ok":
            guard(name, f"{name}.crossover", lambda: rep.crossover(shared, ge1, ge2))
            guard(name, f"{name}.genotype_to_phenotype", lambda: rep.genotype_to_phenotype(ge2))
    # whole searches
    if rng.random() < 0.5:
        problem = SingleObjectiveProblem(lambda p: float(len(repr(p)) % 17))
        for algo in ("gp", "rs", "hc", "opo"):
            r = NativeRandomSource(seedv)
            with warnings.catch_warnings():
                warnings.simplefilter("ignore")
                st, rep = safe(lambda: TreeBasedRepresentation(g, synth.make_decider("grow", mind + 2, r, g)))
            if st != "ok":
                continue
            mk = {"gp": lambda: GeneticProgramming(problem, EvaluationBudget(24), rep, random=r, population_size=6),
                  "rs": lambda: RandomSearch(problem, EvaluationBudget(8), rep, random=r),
                  "hc": lambda: HC(problem, EvaluationBudget(8), rep, random=r, number_of_mutations=3),
                  "opo": lambda: OnePlusOne(problem, EvaluationBudget(8), rep, random=r)}[algo]
            guard(f"search[{algo}]", f"{algo}.search()", lambda: mk().search())
            h.count("searches")
    # "the set of programs creatable from a grammar neither shrinks nor grows": after the history (deciders of several
    # depth limits were used on this grammar object) creation is still, draw by draw, what the model creates from the
    # declarations -- for limits other than the ones used last, too
    degenerate = any(g.distanceToTerminal[s] >= 1000000 for s in g.all_nodes)
    for dd in (0, 3, 1, 2):
        for kind in ("grow", "full", "pigrow"):
            draws = [rng.randrange(0, 1000) for _ in range(96)]
            res, _, _ = synth.create(b, kind, mind + dd, draws)
            if res is not None and not (degenerate and res[0] == "err"):
                h.agree("creatable-set-after-history", ["create", line_spec, [kind, mind + dd], draws], res, nontrivial=True)
            # the same draws on a grammar extracted afresh from the same classes: the used grammar must create the same
            used = b.grammar
            try:
                with warnings.catch_warnings():
                    warnings.simplefilter("ignore")
                    b.grammar = extract_grammar(b.considered(), b.start, spec.expansion)
                fresh_res, _, _ = synth.create(b, kind, mind + dd, draws)
            except Exception:  # noqa: BLE001
                fresh_res = None
            finally:
                b.grammar = used
            if res is not None and fresh_res is not None and res != fresh_res:
                h.fail("history", "creatable-set-changed",
                       f"after the history, {kind} creation at max depth {mind + dd} with draws {draws[:8]}... gives {sx(res)[:120]} on the used grammar "
                       f"and {sx(fresh_res)[:120]} on a grammar freshly extracted from the same classes", [sx(line_spec), kind, mind + dd, draws])
    # after the whole history: the grammar is what the model derives from the class declarations
    alts, dist = c05.observe(b, g)
    obs = [["error", False], ["alts", alts], ["dist", dist], ["rec", c05.syms(b, g.recursive_prods)],
           ["terminals", c05.syms(b, g.terminals)], ["nonterminals", c05.syms(b, g.non_terminals)]]
    h.agree("grammar-after-history", ["analyse_nousable", line_spec], obs, nontrivial=events > 0)
    if snapshot(b, g) != first:
        h.fail("history", "grammar-modified", "grammar differs from its state right after extraction", [sx(line_spec), seedv])
    h.count("histories")
    h.count("histories-with-failing-operations" if events else "histories-without-failures")


def retry_model(h: Harness):
    """the retry loop's state model against the real loop: a grammar whose first production
    fails (SynthesisException) -- chosen production and grammar afterwards"""
    spec = gram.Spec([
        gram.ClassSpec("A0", True, None),
        gram.ClassSpec("V1", False, 0, [("vars", ("ann", ("list", ("ann", "str", ("varRange", ["x"]))), ("listSize", 0, 0))),
                                        ("x", ("ann", "str", ("depVarFrom", "vars")))]),
        gram.ClassSpec("L2", False, 0, []),
        gram.ClassSpec("L3", False, 0, [("k", ("ann", "int", ("intRange", 0, 1)))]),
    ], 0, [1, 2, 3])
    b = gram.build(spec)
    g = b.extract()
    for c0 in range(3):
        for c1 in range(2):
            src = ScriptedSource([c0, 0, c1, 0, 0, 0])
            rep = TreeBasedRepresentation(g, synth.make_decider("grow", 3, src, g))
            v = rep.create_genotype(src)
            alts_after = sorted([b.index[p], [b.index[c] for c in cs]] for p, cs in g.alternatives.items())
            # production V1 (index 1) always fails: its list is always empty
            chosen = b.index[type(v)]
            h.agree("create_node retry loop", ["retry", [[0, [1, 2, 3]]], 0, [1], [c0, c1]], [chosen, alts_after])


def unknown_symbol_history(h: Harness, rng):
    """a refinement that sometimes asks the synthesiser for a class the grammar was never told about: those operations
    fail (GeneticEngineError); failing or not, no operation may change the grammar (productions, depths, recursive set,
    weights, symbols)"""
    import ctxgrammar
    from linear import GE, safe
    g = ctxgrammar.unknown_symbol_grammar()

    def snap():
        return {"alts": sorted((k.__name__, [c.__name__ for c in v]) for k, v in g.alternatives.items()),
                "dist": sorted((getattr(k, "__name__", str(k)), v) for k, v in g.distanceToTerminal.items()),
                "rec": sorted(getattr(k, "__name__", str(k)) for k in g.recursive_prods),
                "nodes": sorted(getattr(k, "__name__", str(k)) for k in g.all_nodes),
                "weights": sorted((getattr(k, "__name__", str(k)), w) for k, w in g.get_weights().items())}
    first = snap()
    r = NativeRandomSource(rng.randrange(10**6))
    ok = failed = 0
    for k in range(h.n(60, 300)):
        d = rng.choice([2, 3, 4])
        kind = rng.choice(["grow", "full", "pigrow"])
        if k % 3 == 2:
            rep = GE(g, synth.make_decider(kind, d, r, g), gene_length=32)
            st, _ = safe(lambda: rep.genotype_to_phenotype(rep.create_genotype(r)))
        else:
            st, _ = safe(lambda: TreeBasedRepresentation(g, synth.make_decider(kind, d, r, g)).create_genotype(r))
        ok += st == "ok"
        failed += st == "err"
        now = snap()
        if now != first:
            diff = next(key for key in first if first[key] != now[key])
            h.fail("create_node", "grammar-modified",
                   f"operation #{k} ({'GE mapping' if k % 3 == 2 else 'tree creation'}, {kind}, depth {d}; {st}) on a grammar whose refinement asks for an "
                   f"unregistered class changed Grammar.{diff}: {first[diff]} -> {now[diff]}", ["unknown-symbol", k])
            break
    h.count("unknown-symbol-history:ok-operations", ok)
    h.count("unknown-symbol-history:failing-operations", failed)
    h.seen("unknown-symbol-history", nontrivial=failed > 0 and ok > 0)


def two_level_context_history(h: Harness, rng):
    """the binding-context language with a two-level hierarchy (the productions of the body type are themselves abstract) and the
    context handed down through `initial_values`: a variable -- in one variant the atoms' ONLY production -- is infeasible in the
    empty context, so whole sub-symbols fail and creation retries; no operation, failing or not, changes the grammar"""
    import ctxgrammar
    from linear import GE, safe
    for only_var in (False, True):
        g = ctxgrammar.two_level_context_grammar(only_var)

        def snap():
            return {"alts": sorted((k.__name__, [c.__name__ for c in v]) for k, v in g.alternatives.items()),
                    "dist": sorted((getattr(k, "__name__", str(k)), v) for k, v in g.distanceToTerminal.items()),
                    "rec": sorted(getattr(k, "__name__", str(k)) for k in g.recursive_prods),
                    "nodes": sorted(getattr(k, "__name__", str(k)) for k in g.all_nodes),
                    "weights": sorted((getattr(k, "__name__", str(k)), w) for k, w in g.get_weights().items())}
        first = snap()
        r = NativeRandomSource(rng.randrange(10**6))
        ok = failed = 0
        pool = []
        for k in range(h.n(50, 300)):
            d = rng.choice([3, 4, 5, 6])
            kind = rng.choice(["grow", "full", "pigrow"])
            what = rng.choice(["create", "create", "map", "mutate", "crossover"])
            if what == "map":
                rep = GE(g, synth.make_decider(kind, d, r, g), gene_length=64)
                st, _ = safe(lambda: rep.genotype_to_phenotype(rep.create_genotype(r)))
            else:
                rep = TreeBasedRepresentation(g, synth.make_decider(kind, d, r, g))
                if what == "create" or len(pool) < 2:
                    st, v = safe(lambda: rep.create_genotype(r))
                    if st == "ok":
                        pool.append(v)
                elif what == "mutate":
                    st, _ = safe(lambda: rep.mutate(r, rng.choice(pool)))
                else:
                    st, _ = safe(lambda: rep.crossover(r, rng.choice(pool), rng.choice(pool)))
            ok += st == "ok"
            failed += st == "err"
            now = snap()
            if now != first:
                diff = next(key for key in first if first[key] != now[key])
                h.fail("create_node", "grammar-modified",
                       f"operation #{k} ({what}, {kind}, depth {d}; {st}) on the two-level binding-context grammar"
                       f"{' (variables are the only atoms)' if only_var else ''} changed Grammar.{diff}: {first[diff]} -> {now[diff]}",
                       ["two-level-context", only_var, k])
                break
        h.count("two-level-context-history:ok-operations", ok)
        h.count("two-level-context-history:failing-operations", failed)
        h.seen(f"two-level-context-history:{only_var}", nontrivial=ok > 0)


def simplegp_history(h: Harness, rng):
    """a whole search through the geml front end (SimpleGP) on the user's grammar object -- a WEIGHTED grammar whose start symbol has a
    sibling that cannot be reached from it: when the search is over, the grammar (weights included) is what it was"""
    from geml.simplegp import SimpleGP
    from linear import safe
    C = gram.ClassSpec
    specs = [gram.Spec([C("Node", True, None), C("Decl", False, 0, [("k", ("ann", "int", ("intRange", 0, 3)))], weight=1), C("Expr", True, 0, weight=3),
                        C("Lit", False, 2, [("v", ("ann", "int", ("intRange", 0, 9)))], weight=2), C("Add", False, 2, [("l", ("cls", 2)), ("r", ("cls", 2))], weight=2)],
                       2, [1, 3, 4, 2]),
             gram.Spec([C("A0", True, None), C("Lit", False, 0, [("v", ("ann", "int", ("intRange", 0, 9)))], weight=3), C("Neg", False, 0, [("e", ("cls", 0))], weight=1),
                        C("Off", False, 0, [("e", ("cls", 0))], weight=0)], 0, [1, 2, 3])]
    for spec in specs:
        b = gram.build(spec)
        g = b.extract()
        first = snapshot(b, g)
        for seed in range(h.n(2, 6)):
            st, out = safe(lambda: SimpleGP(lambda p: float(len(repr(p)) % 13), g, minimize=False, max_depth=5, max_evaluations=40, max_time=30,
                                           population_size=8, elitism=1, novelty=1, seed=seed).search())
            h.count(f"simplegp-searches:{st}")
            h.seen(f"simplegp-history:{gram.spec_sx_str(spec)[:30]}:{seed}", nontrivial=st == "ok")
            now = snapshot(b, g)
            if now != first:
                diff = next(key for key in first if first[key] != now[key])
                h.fail("search[SimpleGP]", "grammar-modified",
                       f"SimpleGP(...).search() (seed {seed}; {st}) on a weighted grammar changed Grammar.{diff} of the user's grammar object: "
                       f"{first[diff]} -> {now[diff]}", [sx(gram.spec_sx(spec)), seed])
                break


def refinement_parameters_history(h: Harness, rng):
    """a refinement object that lives as long as the grammar and has parameters of its own (a WeightedStringHandler with its
    probability matrix): creating and mapping never rewrites them, and the set of creatable strings stays what the matrix
    says -- a letter of probability 0 at a position is never created there, before or after any number of operations"""
    import wsgrammar
    from linear import GE, safe
    g = wsgrammar.grammar()
    before = wsgrammar.MATRIX.copy()
    letters = ["A", "C", "G", "T"]
    r = NativeRandomSource(rng.randrange(10**6))
    made = 0
    for k in range(h.n(40, 300)):
        kind = rng.choice(["grow", "full", "pigrow"])
        if k % 3 == 2:
            rep = GE(g, synth.make_decider(kind, 3, r, g), gene_length=48)
            st, p = safe(lambda: rep.genotype_to_phenotype(rep.create_genotype(r)))
        else:
            st, p = safe(lambda: TreeBasedRepresentation(g, synth.make_decider(kind, 3, r, g)).create_genotype(r))
        if st != "ok":
            continue
        made += 1
        if not (wsgrammar.MATRIX == before).all():
            h.fail("WeightedStringHandler.generate", "refinement-parameters-modified",
                   f"operation #{k} rewrote the probability matrix of the grammar's WeightedStringHandler: {before.tolist()} -> {wsgrammar.MATRIX.tolist()}",
                   ["weighted-string", k])
            break
        todo = [p]
        while todo:
            x = todo.pop()
            if isinstance(x, wsgrammar.Join):
                todo += [x.l, x.r]
            elif isinstance(x, wsgrammar.Seq):
                for pos, ch in enumerate(x.s):
                    row = before[pos]
                    if int(sum(row) * 100000) > 0 and ch in letters and row[letters.index(ch)] == 0:
                        h.fail("WeightedStringHandler.generate", "creatable-set-changed",
                               f"operation #{k} created the string {x.s!r}: letter {ch!r} has probability 0 at position {pos} (row {row.tolist()})",
                               ["weighted-string", k, x.s])
                        todo = []
                        break
    wsgrammar.MATRIX[:] = before
    h.count("refinement-parameters-history:programs", made)
    h.seen("refinement-parameters-history", nontrivial=made > 10)


def empty_refinement_history(h: Harness, rng):
    """a production whose refinement admits NO value (an integer range written with its bounds the wrong way round: a declaration error
    the library reports by failing every creation through it): however often it is tried and fails, the production stays what it was
    declared -- its bounds are not rewritten, and no program with that production ever appears"""
    from linear import DSGE, GE, SGE, safe
    C = gram.ClassSpec
    spec = gram.Spec([C("A0", True, None), C("Lit", False, 0, [("k", ("ann", "int", ("intRange", 0, 3)))]),
                      C("Bad", False, 0, [("k", ("ann", "int", ("intRange", 5, 2)))]), C("Neg", False, 0, [("e", ("cls", 0))])], 0, [2, 1, 3])
    b = gram.build(spec)
    g = b.extract()
    first = snapshot(b, g)
    r = NativeRandomSource(rng.randrange(10**6))
    made = failed = 0
    bad_cls = b.classes[2]
    with warnings.catch_warnings():
        warnings.simplefilter("ignore")
        reps = [TreeBasedRepresentation(g, synth.make_decider(k, 4, r, g)) for k in ("grow", "full", "pigrow")]
        reps += [GE(g, synth.make_decider("grow", 4, r, g), gene_length=32), SGE(g, synth.make_decider("grow", 4, r, g), gene_length=16), DSGE(g, 4)]
    for k in range(h.n(60, 400)):
        rep = reps[k % len(reps)]
        st, p = safe(lambda: rep.genotype_to_phenotype(rep.create_genotype(r)))
        if st != "ok":
            failed += 1
            continue
        made += 1
        # (judged where values come from a random source; a genotype-backed source reduces its gene modulo the -- here negative -- width
        # of the range and returns something: a range without values has no right answer, C18 speaks about non-empty ones)
        if k % len(reps) < 3 and "Bad" in repr(p):
            h.fail("create_genotype", "creatable-set-changed", f"operation #{k} created {p!r}: the production Bad(k: IntRange(5, 2)) admits no value", ["empty-refinement", k])
            break
    now = snapshot(b, g)
    h.count("empty-refinement-history:created", made)
    h.count("empty-refinement-history:failed", failed)
    h.seen("empty-refinement-history", nontrivial=failed > 0)
    if now != first:
        key = next(k for k in first if first[k] != now[k])
        h.fail("IntRange.generate", "grammar-modified", f"after {made + failed} creations ({failed} failed in the production with the empty range) the grammar's "
               f"{key} changed: {first[key]} -> {now[key]}", ["empty-refinement"])


def geml_declaration_history(h: Harness):
    """the sklearn-style regressors of `geml` extract their grammar from the declared production list
    `geml.grammars.symbolic_regression.components` plus one Var production for the data set: a fit (a search) leaves that declaration
    as it was, and a grammar extracted from it afterwards has the productions it had before"""
    try:
        import numpy as np
        import pandas as pd
        from geml.grammars import symbolic_regression as sr
        from geml import regressors
        from geneticengine.grammar.grammar import extract_grammar
    except Exception as e:  # noqa: BLE001
        h.notes.append(f"geml wrappers not importable here ({type(e).__name__}): declaration history skipped")
        return
    names = lambda: [c.__name__ for c in sr.components]   # noqa: E731
    prods = lambda: sorted(p.__name__ for p in extract_grammar(list(sr.components), sr.Expression).alternatives[sr.Expression])   # noqa: E731
    declared, ids, extracted = names(), [id(c) for c in sr.components], prods()
    rs = np.random.RandomState(h.rng.randrange(10**6))
    kinds = [regressors.RandomSearchRegressor] + ([regressors.HillClimbingRegressor, regressors.GeneticProgrammingRegressor] if h.thorough else [])
    for j, kind in enumerate(kinds):
        cols = [f"c{j}a", f"c{j}b"]
        data = pd.DataFrame({c: rs.rand(12) for c in cols})
        try:
            kind(max_time=1, seed=j, remove_time_overheads=False).fit(data, data[cols[0]] + data[cols[1]])
        except Exception as e:  # noqa: BLE001
            h.notes.append(f"geml {kind.__name__}.fit raised {type(e).__name__}: {e}")
            continue
        h.count(f"geml-fit:{kind.__name__}")
        h.seen(f"geml-declaration:{kind.__name__}", nontrivial=True)
        if names() != declared or [id(c) for c in sr.components] != ids:
            h.fail(f"{kind.__name__}.fit", "grammar-declaration-modified",
                   f"{kind.__name__}.fit changed the declared production list geml.grammars.symbolic_regression.components: {declared} -> {names()}", ["geml", kind.__name__])
            del sr.components[len(declared):]
            return
        if prods() != extracted:
            h.fail(f"{kind.__name__}.fit", "creatable-set-changed", f"a grammar extracted from the declaration after {kind.__name__}.fit has the productions "
                   f"{prods()}, before it had {extracted}", ["geml", kind.__name__])
            return


def corpus():
    """fixed witnesses: a failing production that is the ONLY alternative of a nested abstract symbol / one of two /
    sits below a list, with the failure certain (list always empty) or possible"""
    C = gram.ClassSpec
    out = []
    for hi in (0, 1):
        failing = [("vars", ("ann", ("list", ("ann", "str", ("varRange", ["x", "y"]))), ("listSize", 0, hi))), ("x", ("ann", "str", ("depVarFrom", "vars")))]
        # Sel is abstract with the single production Pick
        out.append(gram.Spec([C("A0", True, None), C("Leaf", False, 0, []), C("Sel", True, None), C("Pick", False, 2, failing),
                              C("Node", False, 0, [("s", ("cls", 2)), ("k", ("ann", "int", ("intRange", 0, 3)))])], 0, [1, 3, 4, 2]))
        # the same with Sel nested under the start symbol and a second alternative
        out.append(gram.Spec([C("A0", True, None), C("Leaf", False, 0, []), C("Sel", True, 0), C("Pick", False, 2, failing),
                              C("Other", False, 2, [("b", "bool")]), C("Node", False, 0, [("s", ("cls", 2))])], 0, [3, 1, 4, 5, 2]))
        # below a list
        out.append(gram.Spec([C("A0", True, None), C("Leaf", False, 0, []), C("Sel", True, None), C("Pick", False, 2, failing),
                              C("Many", False, 0, [("xs", ("ann", ("list", ("cls", 2)), ("listSize", 1, 2)))])], 0, [4, 1, 3, 2]))
    # production weights with a sibling production that has NO finite derivation (Loop needs a B, every B needs a B): whatever
    # other grammars are derived from this one (the usable sub-grammar drops or keeps such productions), its weights stay
    out.append(gram.Spec([C("A0", True, None), C("Lit", False, 0, [("k", ("ann", "int", ("intRange", 0, 3)))], weight=2), C("Neg", False, 0, [("e", ("cls", 0))], weight=1),
                          C("B", True, None), C("Only", False, 3, [("b", ("cls", 3))]), C("Loop", False, 0, [("b", ("cls", 3))], weight=1)], 0, [1, 2, 4, 5, 3]))
    out.append(gram.Spec([C("A0", True, None), C("Lit", False, 0, [], weight=0.5), C("Pair", False, 0, [("l", ("cls", 0)), ("r", ("cls", 0))], weight=0.25),
                          C("Stuck", False, 0, [("s", ("cls", 3))], weight=0.25)], 0, [1, 2, 3]))
    # a production that is switched off (weight 0) beside weighted siblings: it stays switched off whatever maps programs from this grammar
    out.append(gram.Spec([C("A0", True, None), C("Lit", False, 0, [("k", "int")], weight=3), C("Legacy", False, 0, [("k", "int")], weight=0),
                          C("Neg", False, 0, [("e", ("cls", 0))], weight=1)], 0, [1, 2, 3]))
    # an abstract symbol WITHOUT productions (an unimplemented extension point) used as a field type: operations that
    # meet it fail, and must leave the grammar as it was
    out.append(gram.Spec([C("A0", True, None), C("Leaf", False, 0, [("k", ("ann", "int", ("intRange", 0, 3)))]), C("Plugin", True, None),
                          C("Ext", False, 0, [("p", ("cls", 2))]), C("Neg", False, 0, [("e", ("cls", 0))])], 0, [1, 3, 4, 2]))
    # a start symbol in the MIDDLE of a hierarchy (its parent and the parent's other productions are registered through the parent link and
    # cannot be reached from the start): read-only queries such as usable_grammar() leave those rules where they are
    out.append(gram.Spec([C("Root", True, None), C("Mid", True, 0), C("Other", False, 0, [("k", ("ann", "int", ("intRange", 0, 3)))]),
                          C("Leaf", False, 1, [("k", ("ann", "int", ("intRange", 0, 3)))]), C("Pair", False, 1, [("l", ("cls", 1)), ("r", ("cls", 1))])], 1, [2, 3, 4]))
    # a Union whose alternative WRAPS a recursive symbol (a list of it, a bounded list, a tuple): the wrapper is not a symbol of
    # the grammar, and asking whether such an alternative is recursive must not make it one
    for wrapped in (("list", ("cls", 0)), ("ann", ("list", ("cls", 0)), ("listSize", 1, 2)), ("tuple", ("cls", 0), "int")):
        out.append(gram.Spec([C("A0", True, None), C("Leaf", False, 0, [("k", ("ann", "int", ("intRange", 0, 3)))]),
                              C("Node", False, 0, [("u", ("union", ("cls", 1), wrapped))]), C("Neg", False, 0, [("e", ("cls", 0))])], 0, [1, 2, 3]))
    return out


def run(h: Harness):
    rng = h.rng
    retry_model(h)
    unknown_symbol_history(h, rng)
    refinement_parameters_history(h, rng)
    two_level_context_history(h, rng)
    simplegp_history(h, rng)
    empty_refinement_history(h, rng)
    geml_declaration_history(h)
    for spec in corpus():
        for _ in range(3):
            history(h, spec, rng)
        h.count("corpus-histories", 3)
    for _ in range(h.n(60, 900)):
        spec = backtracking_spec(rng) if rng.random() < 0.6 else gram.productive_spec(rng, max_classes=rng.choice([3, 4, 6]))
        if rng.random() < 0.25:
            # production weights (stored on the classes; every grammar over the same classes re-normalises them)
            for i, c in enumerate(spec.classes):
                if c.parent is not None and rng.random() < 0.6:
                    c.weight = rng.choice([1, 2, 3, 0.5, 0.25, 0])
            for a in range(len(spec.classes)):      # (a rule whose registered productions are ALL switched off cannot be normalised)
                kids = [c for i, c in enumerate(spec.classes) if c.parent == a and (i in spec.considered or c.abstract)]
                if kids and all(c.weight is not None and c.weight == 0 for c in kids):
                    kids[0].weight = 2
            h.count("weighted-grammar")
        history(h, spec, rng)
