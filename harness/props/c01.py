"""C01 -- every program the library produces is well-typed for its grammar.

Implementation: TreeBasedRepresentation.create_genotype under the four tree deciders with a
scripted source; the five representations' create / map / mutate / crossover are added by
c01's later sections as their models land.  Model: lean/GEVerif/Model/{Grammar,Tree,Synth}.lean.
"""
from __future__ import annotations

import gram
import synth
from core import Harness, sx

RULE = ("generated productive class hierarchies (all type forms: base, list, tuple, union, annotated incl. dependent) x "
        "decider in {grow, full, pigrow, progressive} x max depth from min-1 to min+4 x scripted draw sequences; "
        "non-trivial = the produced program has at least 2 grammar nodes or creation failed; distinct = distinct (spec, decider, script)")
ASSUMPTIONS = [
    "float values are not modelled (canonicalised to a placeholder); their draw count is",
    "str fields without a refinement are always '' in this library (no draw)",
]


def check_create(h: Harness, spec, b, kind, depth, draws):
    res, v, src = synth.create(b, kind, depth, draws)
    if res is None:
        h.count("skipped-recursion")
        return
    line_spec = gram.spec_sx(spec)
    site = f"TreeBasedRepresentation.create_genotype[{kind}]"
    nontrivial = res[0] == "err" or sx(res).count("(n ") >= 2
    h.agree(site, ["create", line_spec, [kind, depth], list(draws)], res, nontrivial=nontrivial)
    h.count(f"decider={kind}")
    if res[0] == "ok":
        h.count("created")
        h.holds(site, "ill-typed-program", ["prop_wt", line_spec, res[1]],
                f"created program is not well-typed: {sx(res[1])[:300]}", [sx(line_spec), kind, depth, list(draws)])
    else:
        h.count("error:" + res[1])
        if res[1].startswith("foreign"):
            h.fail(site, "foreign-error", f"creation failed with {res[1]} instead of the library's error", [sx(line_spec), kind, depth, list(draws)])


def run(h: Harness):
    rng = h.rng
    nspecs = h.n(120, 2400)
    for _ in range(nspecs):
        dep = rng.random() < 0.25
        spec = gram.productive_spec(rng, max_classes=rng.choice([3, 4, 6]))
        if dep:
            gram.add_dependent_fields(rng, spec)
        b = gram.build(spec)
        try:
            g = b.extract()
        except Exception:  # noqa: BLE001
            h.count("extract-error")
            continue
        mind = g.get_min_tree_depth()
        if mind >= 1000000:
            h.count("unproductive")
            continue
        for _ in range(5):
            kind = rng.choice(["grow", "grow", "full", "pigrow", "progressive"])
            depth = max(0, mind + rng.choice([-1, 0, 0, 1, 1, 2, 3, 4]))
            draws = [rng.randrange(0, 1000) for _ in range(rng.choice([8, 32, 128]))]
            check_create(h, spec, b, kind, depth, draws)
