"""C01 -- every program the library produces is well-typed for its grammar.

Implementation: TreeBasedRepresentation.create_genotype under the four tree deciders with a
scripted source; the five representations' create / map / mutate / crossover are added by
c01's later sections as their models land.  Model: lean/GEVerif/Model/{Grammar,Tree,Synth}.lean.
"""
from __future__ import annotations

import sys

import gram
import synth
from core import Harness, sx

RULE = ("generated productive class hierarchies (all type forms: base, list, tuple, union, annotated incl. dependent) x "
        "decider in {grow, full, pigrow, progressive} x max depth from min-1 to min+4 x scripted draw sequences; "
        "non-trivial = the produced program has at least 2 grammar nodes or creation failed; distinct = distinct (spec, decider, script)")
ASSUMPTIONS = [
    "float values are not modelled (canonicalised to a placeholder); their draw count is",
    "str fields without a refinement are always '' in this library (no draw)",
]


def check_create(h: Harness, spec, b, kind, depth, draws):
    res, v, src = synth.create(b, kind, depth, draws)
    if res is None:
        h.count("skipped-recursion")
        return
    line_spec = gram.spec_sx(spec)
    site = f"TreeBasedRepresentation.create_genotype[{kind}]"
    nontrivial = res[0] == "err" or sx(res).count("(n ") >= 2
    # ProgressivelyTerminalDecider does not filter by feasibility: on a grammar with an unproductive
    # symbol its heuristic weights go negative (outside the model) -- checked by the predicate only,
    # under its own finding key
    degenerate = kind == "progressive" and any(b.grammar.distanceToTerminal[s] >= 1000000 for s in b.grammar.all_nodes)
    if not degenerate:
        h.agree(site, ["create", line_spec, [kind, depth], list(draws)], res, nontrivial=nontrivial)
    h.count(f"decider={kind}")
    if res[0] == "ok":
        h.count("created")
        h.holds("ProgressivelyTerminalDecider" if degenerate else site,
                "unproductive-symbol-instantiated" if degenerate else "ill-typed-program", ["prop_wt", line_spec, res[1]],
                f"created program is not well-typed: {sx(res[1])[:300]}", [sx(line_spec), kind, depth, list(draws)])
    else:
        h.count("error:" + res[1])
        if res[1].startswith("foreign") and not degenerate:
            h.fail(site, "foreign-error", f"creation failed with {res[1]} instead of the library's error", [sx(line_spec), kind, depth, list(draws)])


def check_linear(h: Harness, spec, b, g, mind, rng):
    """create / mutate / crossover genotypes of GE, SGE, dynamic SGE and stack; every mapped
    program must be well-typed (or mapping must fail with the library's error)."""
    import linear
    from linear import DSGE, GE, SGE, CountingSource, Stack, safe
    from core import ScriptedSource
    from geneticengine.random.sources import NativeRandomSource
    line_spec = gram.spec_sx(spec)
    d = mind + rng.choice([0, 1, 2])
    kind = rng.choice(["grow", "full", "pigrow"])
    shared = NativeRandomSource(rng.randrange(10**6))
    reps = [("GE", GE(g, synth.make_decider(kind, d, shared, g), gene_length=rng.choice([16, 64]))),
            ("SGE", SGE(g, synth.make_decider(kind, d, shared, g), gene_length=rng.choice([16, 64]))),
            ("DynamicSGE", DSGE(g, d)),
            ("Stack", Stack(g, gene_length=rng.choice([128, 512])))]
    try:
        g.get_all_mentioned_symbols()
    except RecursionError:
        h.fail("Stack.genotype_to_phenotype", "foreign-error:RecursionError",
               "Grammar.get_all_mentioned_symbols() (used by every stack mapping) recurses forever on this grammar", [sx(line_spec)])
        reps = reps[:3]
    for name, rep in reps:
        src = ScriptedSource([rng.randrange(0, 5000) for _ in range(600)]) if name == "DynamicSGE" else shared
        pool = []
        for step in range(h.n(4, 8)):
            r = rng.random()
            if len(pool) < 2 or r < 0.34:
                st, x = safe(lambda: rep.create_genotype(src))
                out = [x] if st == "ok" else []
            elif r < 0.67:
                st, x = safe(lambda: rep.mutate(src, rng.choice(pool)))
                out = [x] if st == "ok" else []
            else:
                st, x = safe(lambda: rep.crossover(src, rng.choice(pool), rng.choice(pool)))
                out = list(x) if st == "ok" else []
            if st == "err":
                h.fail(f"{name}.operators", "foreign-error" if x.startswith("foreign") else "operator-fails",
                       f"genotype operator raised {x}", [sx(line_spec), name, step])
                continue
            for geno in out:
                pool.append(geno)
                st, p = safe(lambda: rep.genotype_to_phenotype(geno))
                site = f"{name}.genotype_to_phenotype"
                h.count(f"{name}:{st}")
                if st == "skip":
                    continue
                if st == "err":
                    h.seen(sx([name, line_spec, step, "err"]))
                    if p.startswith("foreign"):
                        degenerate = any(g.distanceToTerminal[s] >= 1000000 for s in g.all_nodes)
                        h.fail(site, "unproductive-symbol:" + p if degenerate else "foreign-error",
                               f"mapping failed with {p} instead of the library's error", [sx(line_spec), name, kind, d])
                    continue
                try:
                    c = gram.canon(p, b)
                    # structure only for the stack machine (its refined fields are C02's open finding)
                    # the stack machine fills a refined tuple field with the base type's default `()`:
                    # same root cause as C02's open finding, but here it breaks the structure too
                    stack_default = name == "Stack" and "(t)" in sx(c) and "interval" in sx(line_spec)
                    h.holds(site, "refined-tuple-field-is-empty-tuple" if stack_default else "ill-typed-program",
                            ["prop_wt_struct" if name == "Stack" else "prop_wt", line_spec, c],
                            f"mapped program is not well-typed: {sx(c)[:300]}", [sx(line_spec), name, kind, d])
                except RecursionError:
                    h.count("skipped-recursion")


def check_tree_ops(h: Harness, spec, b, g, mind, rng):
    """finite sequences of create / mutate / crossover on a pool of tree individuals"""
    import warnings
    from core import ScriptedSource
    from geneticengine.representations.tree.treebased import TreeBasedRepresentation
    line_spec = gram.spec_sx(spec)
    d = mind + rng.choice([0, 1, 2, 3])
    kind = rng.choice(["grow", "full", "pigrow", "progressive"])
    src = ScriptedSource([rng.randrange(0, 1000) for _ in range(4000)])
    with warnings.catch_warnings():
        warnings.simplefilter("ignore")
        rep = TreeBasedRepresentation(g, synth.make_decider(kind, d, src, g))
    from linear import safe
    pool = []
    for step in range(h.n(6, 12)):
        r = rng.random()
        if len(pool) < 2 or r < 0.3:
            op, (st, x) = "create", safe(lambda: rep.create_genotype(src))
            out = [x] if st == "ok" else []
        elif r < 0.65:
            op, (st, x) = "mutate", safe(lambda: rep.mutate(src, rng.choice(pool)))
            out = [x] if st == "ok" else []
        else:
            op, (st, x) = "crossover", safe(lambda: rep.crossover(src, rng.choice(pool), rng.choice(pool)))
            out = list(x) if st == "ok" else []
        site = f"TreeBasedRepresentation.{op}[{kind}]"
        degenerate = kind == "progressive" and any(g.distanceToTerminal[s] >= 1000000 for s in g.all_nodes)
        if degenerate:
            site = "ProgressivelyTerminalDecider"
        if st == "err" and x.startswith("foreign") and not degenerate:
            h.fail(site, "foreign-error", f"{op} failed with {x} instead of the library's error", [sx(line_spec), kind, d, step])
        for v in out:
            if len(pool) < 6:
                pool.append(v)
            try:
                c = gram.canon(v, b)
                h.holds(site, "unproductive-symbol-instantiated" if degenerate else "ill-typed-program", ["prop_wt", line_spec, c],
                        f"program after {op} is not well-typed: {sx(c)[:300]}", [sx(line_spec), kind, d, step])
            except RecursionError:
                h.count("skipped-recursion")


def retarget_scenario(h: Harness, rng):
    """The documented way of re-parameterising a grammar: assign a new declared type to
    `Cls.__init__.__annotations__[field]` and extract again.  The second grammar (same classes, same
    process) must follow the NEW declaration."""
    for _ in range(h.n(15, 150)):
        spec = gram.productive_spec(rng, max_classes=rng.choice([3, 4]), opts={"float": False})
        b = gram.build(spec)
        try:
            g = b.extract()
        except Exception:  # noqa: BLE001
            continue
        if g.get_min_tree_depth() >= 1000000:
            continue
        # use the first grammar once (creation walks every class's declared arguments)
        synth.create(b, "grow", g.get_min_tree_depth() + 2, [rng.randrange(0, 1000) for _ in range(64)])
        changed = False
        for i, c in enumerate(spec.classes):
            for j, (fn, ft) in enumerate(c.fields):
                if isinstance(ft, tuple) and ft[0] == "ann" and ft[1] == "int" and ft[2][0] == "intRange":
                    new = ("ann", "int", ("intRange", 40 + rng.randint(0, 5), 50 + rng.randint(0, 5)))
                elif ft == "int":
                    new = ("ann", "str", ("varRange", ["p", "q"]))
                elif ft == "bool":
                    new = ("ann", "int", ("intList", [7, 8]))
                else:
                    continue
                c.fields[j] = (fn, new)
                pt = gram.py_type(new, b.classes)
                b.classes[i].__init__.__annotations__[fn] = pt
                b.classes[i].__annotations__[fn] = pt
                gram._collect_tymap(new, pt, b.tymap)
                changed = True
        if not changed:
            continue
        try:
            g2 = b.extract()
        except Exception:  # noqa: BLE001
            continue
        mind = g2.get_min_tree_depth()
        if mind >= 1000000:
            continue
        h.count("retargeted-grammars")
        for _ in range(4):
            kind = rng.choice(["grow", "full", "pigrow"])
            check_create(h, spec, b, kind, mind + rng.choice([0, 1, 2]), [rng.randrange(0, 1000) for _ in range(128)])


def check_evaluators(h: Harness):
    """what the FITNESS FUNCTION is handed, for every representation under both evaluators (the
    parallel one crosses a process boundary): each logged argument must be a well-typed program"""
    import os
    import tempfile
    import pargrammar
    from core import parse_sx
    from linear import DSGE, GE, SGE, Stack
    from geneticengine.evaluation.parallel import ParallelEvaluator
    from geneticengine.evaluation.sequential import SequentialEvaluator
    from geneticengine.exceptions import GeneticEngineError
    from geneticengine.problems import SingleObjectiveProblem
    from geneticengine.random.sources import NativeRandomSource
    from geneticengine.representations.tree.treebased import TreeBasedRepresentation
    from geneticengine.solutions.individual import Individual
    g = pargrammar.grammar()
    spec, _ = pargrammar.built()
    line_spec = gram.spec_sx(spec)
    fd, path = tempfile.mkstemp(prefix="c01-ff.")
    os.close(fd)
    os.environ["VERIF_FF_LOG"] = path
    try:
        for name in ("tree", "GE", "SGE", "DynamicSGE", "Stack"):
            for evk in ("SequentialEvaluator", "ParallelEvaluator"):
                for seed in range(h.n(2, 10)):
                    r = NativeRandomSource(7919 * seed + 11)
                    rep = {"tree": lambda: TreeBasedRepresentation(g, synth.make_decider("grow", 4, r, g)),
                           "GE": lambda: GE(g, synth.make_decider("grow", 4, r, g), gene_length=32),
                           "SGE": lambda: SGE(g, synth.make_decider("grow", 4, r, g), gene_length=32),
                           "DynamicSGE": lambda: DSGE(g, 4), "Stack": lambda: Stack(g, gene_length=128)}[name]()
                    inds = []
                    for _ in range(3):
                        try:
                            inds.append(Individual(rep.create_genotype(r), rep))
                        except GeneticEngineError:
                            pass
                    open(path, "w").close()
                    ev = ParallelEvaluator() if evk == "ParallelEvaluator" else SequentialEvaluator()
                    try:
                        ev.evaluate(SingleObjectiveProblem(pargrammar.ff_report), inds)
                    except Exception as e:  # noqa: BLE001
                        h.count(f"evaluator:{name}:{evk}:raised:{type(e).__name__}")
                        continue
                    h.count(f"evaluator:{name}:{evk}")
                    with open(path) as f:
                        lines = [ln.strip() for ln in f if ln.strip()]
                    for ln in lines:
                        prog = parse_sx(ln)
                        h.holds(f"{evk}.evaluate[{name}]", "fitness-function-handed-ill-typed-value", ["prop_wt_struct" if name == "Stack" else "prop_wt", line_spec, prog],
                                f"the fitness function was handed {ln[:200]}, which is not a well-typed program of the grammar",
                                {"rep": name, "evaluator": evk, "seed": seed})
    finally:
        os.environ.pop("VERIF_FF_LOG", None)
        os.unlink(path)


def preset_scenario(h: Harness, rng):
    """a user refinement that presets one field of the node it creates (`rec(base, initial_values={...})`, as the library's
    context-passing example does): only THAT node takes the preset; a production further down with a like-named field of
    another type is filled according to its own declaration.  (User metahandlers are outside the Lean grammar language:
    judged by an independent walk over the dataclass fields.)"""
    import ctxgrammar
    from linear import DSGE, GE, SGE, safe
    from geneticengine.random.sources import NativeRandomSource
    from geneticengine.representations.tree.treebased import TreeBasedRepresentation
    g = ctxgrammar.preset_grammar()
    for trial in range(h.n(6, 40)):
        r = NativeRandomSource(rng.randrange(10**6))
        reps = [("tree", TreeBasedRepresentation(g, synth.make_decider(rng.choice(["grow", "pigrow", "full"]), 5, r, g))),
                ("GE", GE(g, synth.make_decider("grow", 5, r, g), gene_length=64)),
                ("SGE", SGE(g, synth.make_decider("grow", 5, r, g), gene_length=64)), ("DynamicSGE", DSGE(g, 5))]
        for name, rep in reps:
            st, geno = safe(lambda: rep.create_genotype(r))
            for step in range(4):
                if st != "ok":
                    break
                st2, p = safe(lambda: rep.genotype_to_phenotype(geno))
                if st2 == "ok":
                    h.count(f"preset:{name}")
                    h.seen(f"preset:{name}:{trial}:{step}", nontrivial="Stroke" in repr(p))
                    bad = ctxgrammar.preset_ill_typed(p)
                    if bad:
                        h.fail(f"{name}.genotype_to_phenotype" if name != "tree" else "TreeBasedRepresentation.create_genotype", "ill-typed-program",
                               f"grammar with a refinement that presets Canvas.width: {bad[0]} ({len(bad)} ill-typed fields) in {repr(p)[:160]}", [name, trial, step])
                        break
                st, geno = safe(lambda: rep.mutate(r, geno))


def int_literal_float_bounds(h: Harness, rng):
    """float fields refined with int-literal bounds (FloatRange(0, 9)): whatever representation creates the program and whatever
    gene selects the value -- the extreme genes included -- the field holds a value of exactly the declared base type, a float"""
    import ctxgrammar
    from geneticengine.representations.grammatical_evolution import dynamic_structured_ge as dsge_mod
    from linear import DSGE, GE, SGE, safe
    from geneticengine.random.sources import NativeRandomSource
    from geneticengine.representations.tree.treebased import TreeBasedRepresentation
    g = ctxgrammar.int_literal_float_grammar()
    r = NativeRandomSource(rng.randrange(10**6))
    programs = []
    # dynamic SGE genotypes whose float genes are the extreme ones (0, the maximum 1024, values congruent to them, huge ones)
    rep = DSGE(g, 4)
    for genes in ([1024] * 12, [0] * 12, [2049, 1024, 0, 1025] * 3, [sys.maxsize, 1024 + 1025 * 7, 3] * 4, [rng.randrange(0, 1025) for _ in range(12)]):
        for first in (0, 1):
            geno = dsge_mod.Genotype(r, {float: list(genes), ctxgrammar.FX: [first, 0, 1, 0, 0, 1, 0, 0]})
            st, p = safe(lambda: rep.genotype_to_phenotype(geno))
            if st == "ok":
                programs.append(("DynamicSGE", f"float genes {genes[:4]}...", p))
    for name, mk in (("tree", lambda: TreeBasedRepresentation(g, synth.make_decider("grow", 4, r, g))), ("GE", lambda: GE(g, synth.make_decider("grow", 4, r, g), gene_length=64)),
                     ("SGE", lambda: SGE(g, synth.make_decider("grow", 4, r, g), gene_length=64)), ("DynamicSGE", lambda: DSGE(g, 4))):
        rp = mk()
        for _ in range(h.n(8, 60)):
            st, geno = safe(lambda: rp.create_genotype(r))
            if st != "ok":
                continue
            st, p = safe(lambda: rp.genotype_to_phenotype(geno))
            if st == "ok":
                programs.append((name, "created with NativeRandomSource", p))
            st, geno2 = safe(lambda: rp.mutate(r, geno))
            if st == "ok":
                st, p = safe(lambda: rp.genotype_to_phenotype(geno2))
                if st == "ok":
                    programs.append((name, "mutant", p))
    for name, how, p in programs:
        h.count(f"int-literal-float-bounds:{name}")
        h.seen(f"float-literal:{name}:{how}:{repr(p)[:80]}", nontrivial=True)
        for path, v, lo, hi in ctxgrammar.float_fields(p):
            if type(v) is not float:
                h.fail(f"{name}.genotype_to_phenotype" if name != "tree" else "TreeBasedRepresentation.create_genotype", "ill-typed-program",
                       f"field {path} declared Annotated[float, FloatRange({lo}, {hi})] holds {v!r} of type {type(v).__name__} ({how}) in {repr(p)[:120]}",
                       [name, how, path])
                break


def boundary_genes(h: Harness, rng):
    """every genotype is a legal genotype: genes at the ends of their range (0, sys.maxsize) and constant genotypes map to a
    well-typed program or fail with the library's error -- on grammars with PLAIN float / int / str fields too, whose values are
    computed from the genes by the derived primitives (normalvariate, random_float, ...)"""
    import linear
    from linear import GE, SGE, Stack, safe
    from geneticengine.random.sources import NativeRandomSource
    C = gram.ClassSpec
    specs = [gram.Spec([C("A0", True, None), C("L", False, 0, [("x", "float"), ("k", "int")]), C("N", False, 0, [("l", ("cls", 0)), ("r", ("cls", 0))])], 0, [1, 2]),
             gram.Spec([C("A0", True, None), C("M", False, 0, [("y", "float"), ("s", "str"), ("z", "float")]), C("W", False, 0, [("e", ("cls", 0)), ("f", "float"), ("b", "bool")])], 0, [1, 2])]
    top = sys.maxsize
    patterns = [lambda n: [0] * n, lambda n: [top] * n, lambda n: [0, top] * (n // 2 + 1), lambda n: [top, 0] * (n // 2 + 1), lambda n: [top - 1] * n,
                lambda n: [1] * n, lambda n: [0, 0, top, 1] * (n // 4 + 1), lambda n: [rng.choice([0, top, 1, top - 1, rng.randrange(top)]) for _ in range(n)]]
    for spec in specs:
        b = gram.build(spec)
        g = b.extract()
        line_spec = gram.spec_sx(spec)
        for kind in ("grow", "full", "pigrow"):
            shared = NativeRandomSource(1)
            reps = [("GE", GE(g, synth.make_decider(kind, 3, shared, g), gene_length=32)), ("SGE", SGE(g, synth.make_decider(kind, 3, shared, g), gene_length=16)),
                    ("Stack", Stack(g, gene_length=128))]
            for name, rep in reps:
                for pi, pat in enumerate(patterns):
                    proto = rep.create_genotype(shared)
                    if isinstance(proto.dna, dict):
                        geno = type(proto)(dna={k: pat(len(v))[:len(v)] for k, v in proto.dna.items()})
                    else:
                        geno = type(proto)(dna=pat(len(proto.dna))[:len(proto.dna)])
                    import signal

                    def alarm(signum, frame):
                        raise TimeoutError()
                    old_handler = signal.signal(signal.SIGALRM, alarm)
                    signal.alarm(8)
                    try:
                        st, p = safe(lambda: rep.genotype_to_phenotype(geno))
                    except TimeoutError:
                        st, p = "err", "foreign:does-not-terminate"
                    finally:
                        signal.alarm(0)
                        signal.signal(signal.SIGALRM, old_handler)
                    if st == "err" and p == "foreign:TimeoutError":
                        p = "foreign:does-not-terminate"
                    site = f"{name}.genotype_to_phenotype"
                    h.count(f"boundary-genes:{name}:{st}")
                    h.seen(f"boundary:{name}:{kind}:{pi}:{sx(line_spec)[:30]}", nontrivial=True)
                    if st == "err" and p.startswith("foreign"):
                        h.fail(site, "foreign-error", f"a genotype of boundary genes (pattern #{pi}: {str(geno.dna)[:80]}...) made the mapping "
                               + ("run for more than 8 s without returning (it reads the genome round and round)" if p.endswith("does-not-terminate") else f"fail with {p}")
                               + " instead of returning a program or the library's error", [sx(line_spec), name, kind, pi])
                    elif st == "ok":
                        c = gram.canon(p, b)
                        h.holds(site, "ill-typed-program", ["prop_wt_struct" if name == "Stack" else "prop_wt", line_spec, c],
                                f"mapped program is not well-typed: {sx(c)[:300]}", [sx(line_spec), name, kind, pi])


def cooperative_gp(h: Harness, rng):
    """CooperativeGP evolves two species over two DIFFERENT grammars; in every round, every program handed to the user's
    function in the first position is a well-typed program of grammar 1 and in the second position one of grammar 2 -- and so
    are the two programs search() returns"""
    import pargrammar
    from props import steps_common as sc
    from geneticengine.algorithms.gp.cooperativegp import CooperativeGP
    from geneticengine.evaluation.budget import EvaluationBudget
    from geneticengine.grammar.grammar import extract_grammar
    from geneticengine.random.sources import NativeRandomSource
    from geneticengine.representations.tree.treebased import TreeBasedRepresentation
    g1 = extract_grammar([sc.Leaf, sc.Node], sc.Root)
    g2 = pargrammar.grammar()
    _, b1 = gram.reflect([sc.Leaf, sc.Node], sc.Root)
    _, b2 = pargrammar.built()
    s1, s2 = gram.spec_sx(b1.spec), gram.spec_sx(b2.spec)
    for rounds, (n1, n2) in ((1, (4, 4)), (3, (4, 6)), (2, (5, 3))):
        r = NativeRandomSource(rng.randrange(10**6))
        seen = {"calls": 0, "bad": []}

        def battle(a, b_, seen=seen):
            seen["calls"] += 1
            if not isinstance(a, sc.Root) and len(seen["bad"]) < 3:
                seen["bad"].append(("first", repr(a)[:80]))
            if not isinstance(b_, pargrammar.E) and len(seen["bad"]) < 3:
                seen["bad"].append(("second", repr(b_)[:80]))
            return float(len(repr(a)) - len(repr(b_)))
        desc = f"CooperativeGP(population sizes {n1}/{n2}, coevolutions={rounds}) over two different grammars"
        try:
            co = CooperativeGP(g1, g2, battle, TreeBasedRepresentation(g1, synth.make_decider("grow", 4, r, g1)), TreeBasedRepresentation(g2, synth.make_decider("grow", 4, r, g2)),
                               population1_size=n1, population2_size=n2, coevolutions=rounds, random=r,
                               kwargs1={"budget": EvaluationBudget(3 * n1)}, kwargs2={"budget": EvaluationBudget(3 * n2)})
            best1, best2 = co.search()
        except Exception as e:  # noqa: BLE001
            h.fail("CooperativeGP.search", "foreign-error", f"{desc}: {type(e).__name__}: {e}"[:300], [rounds, n1, n2])
            continue
        h.count("cooperative-gp-runs")
        h.seen(f"cooperative:{rounds}:{n1}:{n2}", nontrivial=seen["calls"] > 10)
        if seen["bad"]:
            pos, what = seen["bad"][0]
            h.fail("CooperativeGP.search", "ill-typed-program", f"{desc}: the user's function was handed {what} in the {pos} position, which is not a program of "
                   f"grammar {1 if pos == 'first' else 2} ({len(seen['bad'])}+ such calls of {seen['calls']})", [rounds, n1, n2])
            continue
        for which, (p, b, line) in enumerate(((best1, b1, s1), (best2, b2, s2)), start=1):
            h.holds("CooperativeGP.search", "ill-typed-program", ["prop_wt", line, gram.canon(p, b)],
                    f"{desc}: the program returned for species {which} is not well-typed for grammar {which}: {repr(p)[:160]}", [rounds, n1, n2, which])


def warm_started_searches(h: Harness, rng):
    """a search warm-started from seeds of every form the wrapper accepts -- raw programs, individuals of the representation the search
    uses, individuals of ANOTHER representation object over the same grammar (the result of an earlier run): every program the fitness
    function is handed and the program search() returns are programs of the grammar"""
    from props import steps_common as sc
    from geneticengine.algorithms.gp.gp import GeneticProgramming
    from geneticengine.evaluation.budget import EvaluationBudget
    from geneticengine.grammar.grammar import extract_grammar
    from geneticengine.problems import SingleObjectiveProblem
    from geneticengine.random.sources import NativeRandomSource
    from geneticengine.representations.tree.operators import GrowInitializer, InjectInitialPopulationWrapper
    from geneticengine.representations.tree.treebased import TreeBasedRepresentation
    from geneticengine.solutions.individual import Individual
    g = extract_grammar([sc.Leaf, sc.Node], sc.Root)
    _, b = gram.reflect([sc.Leaf, sc.Node], sc.Root)
    line = gram.spec_sx(b.spec)
    for form in ("raw programs", "individuals of this representation", "individuals of another representation object", "a mixture"):
        r = NativeRandomSource(rng.randrange(10**6))
        rep = TreeBasedRepresentation(g, synth.make_decider("grow", 4, r, g))
        other = TreeBasedRepresentation(g, synth.make_decider("grow", 4, r, g))
        raw = [other.create_genotype(r) for _ in range(5)]
        seeds = {"raw programs": raw, "individuals of this representation": [Individual(p, rep) for p in raw],
                 "individuals of another representation object": [Individual(p, other) for p in raw],
                 "a mixture": [raw[0], Individual(raw[1], other), Individual(raw[2], rep), raw[3], Individual(raw[4], other)]}[form]
        bad = []

        def ff(p, bad=bad):
            if not isinstance(p, sc.Root) and len(bad) < 3:
                bad.append(repr(p)[:100])
            return float(len(repr(p)))
        problem = SingleObjectiveProblem(ff, minimize=False)
        desc = f"GeneticProgramming warm-started from {len(seeds)} seeds given as {form}"
        try:
            best = GeneticProgramming(problem, EvaluationBudget(30), rep, random=r, population_size=8,
                                      population_initializer=InjectInitialPopulationWrapper(seeds, GrowInitializer())).search()
        except Exception as e:  # noqa: BLE001
            h.fail("InjectInitialPopulationWrapper.initialize", "foreign-error", f"{desc}: {type(e).__name__}: {e}"[:300], [form])
            continue
        h.count("warm-started-searches")
        h.seen(f"warm-start:{form}", nontrivial=True)
        if bad:
            h.fail("InjectInitialPopulationWrapper.initialize", "ill-typed-program",
                   f"{desc}: the fitness function was handed {bad[0]}, which is not a program of the grammar ({len(bad)}+ such calls)", [form])
            continue
        p = best.get_phenotype()
        if not isinstance(p, sc.Root):
            h.fail("GeneticProgramming.search", "ill-typed-program", f"{desc}: search() returned {repr(p)[:100]}, which is not a program of the grammar", [form])
            continue
        h.holds("GeneticProgramming.search", "ill-typed-program", ["prop_wt", line, gram.canon(p, b)],
                f"{desc}: the returned program is not well-typed: {repr(p)[:160]}", [form])


def handed_down_values_typed(h: Harness, rng):
    """values handed down to a child through `initial_values` land in the field they are named for, wherever that field stands among
    the constructor's parameters: every field of every program holds a value of its declared type, in every representation"""
    import ctxgrammar
    from linear import DSGE, GE, SGE, safe
    from geneticengine.random.sources import NativeRandomSource
    from geneticengine.representations.tree.treebased import TreeBasedRepresentation
    for trial in range(h.n(10, 60)):
        # (every other round: a refinement with SEVERAL dependencies of different types, named in another order than the fields are
        # declared -- the callable's arguments follow the names)
        units = trial % 2 == 1
        g = ctxgrammar.units_grammar(expansion=trial % 4 == 3) if units else ctxgrammar.levels_grammar()
        r = NativeRandomSource(rng.randrange(10**6))
        reps = [("tree", TreeBasedRepresentation(g, synth.make_decider("grow", 6, r, g))), ("GE", GE(g, synth.make_decider("grow", 6, r, g), gene_length=64)),
                ("SGE", SGE(g, synth.make_decider("grow", 6, r, g), gene_length=64)), ("DynamicSGE", DSGE(g, 6))]
        for name, rep in reps:
            genos = []
            foreign = None
            for _ in range(3):
                st, a = safe(lambda: rep.create_genotype(r))
                if st == "ok":
                    genos.append(a)
                elif st == "err" and str(a).startswith("foreign"):
                    foreign = a
            if foreign is not None and units:
                # ("creation either returns such a fully built program or fails with the library's own error type")
                h.fail(f"{name}.create_genotype" if name != "tree" else "TreeBasedRepresentation.create_genotype", "foreign-error",
                       f"creation on the units grammar (Union with a Dependent alternative, a refined slot of an abstract type; expansion_depthing={trial % 4 == 3}) "
                       f"failed with {foreign} instead of the library's own error type", [name, trial])
                break
            if len(genos) >= 2:
                st, m = safe(lambda: rep.mutate(r, genos[0]))
                if st == "ok":
                    genos.append(m)
                st, cs = safe(lambda: rep.crossover(r, genos[0], genos[1]))
                if st == "ok":
                    genos += list(cs)
            for geno in genos:
                st, p = safe(lambda: rep.genotype_to_phenotype(geno))
                if st == "err" and str(p).startswith("foreign") and units:
                    h.fail(f"{name}.genotype_to_phenotype" if name != "tree" else "TreeBasedRepresentation.create_genotype", "foreign-error",
                           f"mapping on the units grammar (expansion_depthing={trial % 4 == 3}) failed with {p} instead of the library's own error type", [name, trial])
                    break
                if st != "ok":
                    continue
                h.count(f"{'several-dependencies-typed' if units else 'handed-down-values-typed'}:{name}")
                h.seen(f"levels-typed:{name}:{repr(p)[:70]}", nontrivial="LTail" in repr(p) or "LNest" in repr(p) or units)
                bad = ctxgrammar.units_type_errors(p) if units else ctxgrammar.level_type_errors(p)
                if bad:
                    site = f"{name}.genotype_to_phenotype" if name != "tree" else "TreeBasedRepresentation.create_genotype"
                    h.fail(site, "ill-typed-program", f"{bad[0]} ({len(bad)} such fields) in {repr(p)[:160]}", [name, trial])
                    break


def weighted_string_grammar(h: Harness, rng):
    """a refinement object with parameters of its own (WeightedStringHandler: rows with zero entries, an all-zero row, a row below the chooser's
    resolution) and bounded lists that generate their elements themselves (ListSizeBetweenWithoutListOperations): creation and mapping return a
    program whose fields hold values of their declared types, or fail with the library's own error"""
    import wsgrammar
    from dataclasses import dataclass
    from typing import Annotated
    from linear import DSGE, GE, SGE, safe
    from geneticengine.grammar.grammar import extract_grammar
    from geneticengine.grammar.metahandlers.lists import ListSizeBetweenWithoutListOperations
    from geneticengine.random.sources import NativeRandomSource
    from geneticengine.representations.tree.treebased import TreeBasedRepresentation

    Many = wsgrammar.Many
    g = wsgrammar.grammar_with_lists()
    for trial in range(h.n(8, 60)):
        r = NativeRandomSource(rng.randrange(10**6))
        reps = [("tree", TreeBasedRepresentation(g, synth.make_decider(rng.choice(["grow", "full", "pigrow"]), 3, r, g))),
                ("GE", GE(g, synth.make_decider("grow", 3, r, g), gene_length=64)), ("SGE", SGE(g, synth.make_decider("grow", 3, r, g), gene_length=32)),
                ("DynamicSGE", DSGE(g, 3))]
        for name, rep in reps:
            st, geno = safe(lambda: rep.create_genotype(r))
            out = (st, geno)
            if st == "ok":
                out = safe(lambda: rep.genotype_to_phenotype(geno))
            st, p = out
            h.count(f"weighted-string-grammar:{name}:{st}")
            site = f"{name}.genotype_to_phenotype" if name != "tree" else "TreeBasedRepresentation.create_genotype"
            if st == "err" and str(p).startswith("foreign"):
                h.fail(site, "foreign-error", f"creation on a grammar with a WeightedStringHandler field and a ListSizeBetweenWithoutListOperations field failed with {p} "
                       "instead of the library's own error type", [name, trial])
                continue
            if st != "ok":
                continue
            h.seen(f"ws-typed:{name}:{repr(p)[:60]}", nontrivial=True)
            todo, bad = [p], None
            while todo and bad is None:
                x = todo.pop()
                if isinstance(x, wsgrammar.Join):
                    todo += [x.l, x.r]
                elif isinstance(x, Many):
                    if not isinstance(x.items, list) or not all(isinstance(i, wsgrammar.Seq) for i in x.items):
                        bad = f"Many.items holds {x.items!r} where a list of Seq is declared"
                    todo += list(x.items) if isinstance(x.items, list) else []
                elif isinstance(x, wsgrammar.Seq):
                    if type(x.s) is not str or type(x.k) is not int:
                        bad = f"Seq holds s={x.s!r}, k={x.k!r} where str and int are declared"
                else:
                    bad = f"{x!r} is not a production of the grammar"
            if bad:
                h.fail(site, "ill-typed-program", bad, [name, trial])


def ranking_fresh_individuals(h: Harness, rng):
    """`Individual.key_function(problem)` is public: ranking individuals that nothing has mapped or evaluated yet (sorted / max over a
    freshly created population) maps and evaluates them -- the fitness function is handed programs of the grammar"""
    from linear import DSGE, GE, SGE, Stack, safe
    from props import steps_common as sc
    from geneticengine.grammar.grammar import extract_grammar
    from geneticengine.problems import MultiObjectiveProblem, SingleObjectiveProblem
    from geneticengine.random.sources import NativeRandomSource
    from geneticengine.representations.tree.treebased import TreeBasedRepresentation
    from geneticengine.solutions.individual import Individual
    g = extract_grammar([sc.Leaf, sc.Node], sc.Root)
    for name in ("tree", "GE", "SGE", "DynamicSGE", "Stack"):
        r = NativeRandomSource(rng.randrange(10**6))
        rep = {"tree": lambda: TreeBasedRepresentation(g, synth.make_decider("grow", 4, r, g)), "GE": lambda: GE(g, synth.make_decider("grow", 4, r, g), gene_length=32),
               "SGE": lambda: SGE(g, synth.make_decider("grow", 4, r, g), gene_length=16), "DynamicSGE": lambda: DSGE(g, 4),
               "Stack": lambda: Stack(g, gene_length=128)}[name]()
        for multi in (False, True):
            bad = []

            def ff(p, bad=bad, multi=multi):
                if not isinstance(p, sc.Root) and len(bad) < 3:
                    bad.append(repr(p)[:80])
                v = float(len(repr(p)))
                return [v, 1.0] if multi else v
            problem = MultiObjectiveProblem([False, True], ff) if multi else SingleObjectiveProblem(ff, minimize=False)
            pop = [Individual(rep.create_genotype(r), rep) for _ in range(6)]
            st, out = safe(lambda: (sorted(pop, key=Individual.key_function(problem)), max(pop, key=Individual.key_function(problem))))
            h.count(f"ranking-fresh-individuals:{name}")
            h.seen(f"ranking-fresh:{name}:{multi}", nontrivial=True)
            if bad:
                h.fail("Individual.key_function", "ill-typed-program",
                       f"ranking six freshly created {name} individuals with Individual.key_function: the fitness function was handed {bad[0]}, "
                       "which is not a program of the grammar", [name, multi])
            elif st == "err" and str(out).startswith("foreign"):
                h.fail("Individual.key_function", "foreign-error", f"ranking six freshly created {name} individuals raised {out}", [name, multi])


def very_deep_programs(h: Harness, rng):
    """programs several hundred levels deep (a depth limit of 700 and a decider that fills it), in a FRESH interpreter that only
    imports the library: created, then mutated and crossed over -- the variation operators work at every depth creation works at,
    and return programs of the grammar"""
    import os
    import subprocess
    import sys
    code = r"""
import sys
from abc import ABC
from dataclasses import dataclass
from geneticengine.grammar.grammar import extract_grammar
from geneticengine.random.sources import NativeRandomSource
from geneticengine.representations.tree.initializations import FullDecider
from geneticengine.representations.tree.treebased import TreeBasedRepresentation
class E(ABC):
    pass
@dataclass
class Lit(E):
    k: int
@dataclass
class Neg(E):
    e: E
@dataclass
class Tag(E):
    e: E
    b: bool
def depth(p):
    d = 0
    while not isinstance(p, Lit):
        p, d = p.e, d + 1
    return d + 1
g = extract_grammar([Lit, Neg, Tag], E)
limit, seed = int(sys.argv[1]), int(sys.argv[2])
r = NativeRandomSource(seed)
rep = TreeBasedRepresentation(g, FullDecider(r, g, limit))
try:
    p = rep.create_genotype(r)
except BaseException as e:
    print("CREATE-ERROR", type(e).__name__); sys.exit(0)
print("CREATED", depth(p))
cur = p
for k in range(4):
    try:
        q = rep.mutate(r, cur) if k < 3 else rep.crossover(r, cur, p)[0]
    except BaseException as e:
        print("VARIATION-ERROR", k, type(e).__name__); sys.exit(0)
    if not isinstance(q, E):
        print("ILL-TYPED", k, type(q).__name__); sys.exit(0)
    cur = q
print("OK")
"""
    for limit in ((700,) if not h.thorough else (300, 700, 1500)):
        seed = rng.randrange(10**6)
        env = dict(os.environ, PYTHONPATH=os.environ.get("VERIF_REPO", "/repo"))
        try:
            out = subprocess.run([sys.executable, "-c", code, str(limit), str(seed)], capture_output=True, text=True, env=env, timeout=300).stdout.strip().splitlines()
        except subprocess.TimeoutExpired:
            h.notes.append(f"very deep programs: the fresh interpreter for limit {limit} timed out")
            continue
        h.count("very-deep-programs")
        last = out[-1] if out else "NO-OUTPUT"
        h.seen(f"very-deep:{limit}", nontrivial=last == "OK")
        created = next((ln for ln in out if ln.startswith("CREATED")), None)
        if last.startswith("VARIATION-ERROR") and created:
            _, k, err = last.split()
            h.fail("TreeBasedRepresentation.mutate" if int(k) < 3 else "TreeBasedRepresentation.crossover", "foreign-error",
                   f"in a fresh interpreter: a program {created.split()[1]} levels deep was created under the depth limit {limit} (full), its "
                   f"{'mutation' if int(k) < 3 else 'crossover'} (step {k}) raised {err}", [limit, seed])
        elif last.startswith("ILL-TYPED"):
            h.fail("TreeBasedRepresentation.mutate", "ill-typed-program", f"variation of a deep program returned a {last.split()[2]}", [limit, seed])
        elif last.startswith("CREATE-ERROR") and last.split()[1] not in ("GeneticEngineError",):
            h.fail("TreeBasedRepresentation.create_genotype", "foreign-error", f"in a fresh interpreter: creation under the depth limit {limit} (full) raised {last.split()[1]}", [limit, seed])


def dsge_wrapped_union_keys(h: Harness, rng):
    """dynamic SGE keeps one gene list per symbol it expanded, Union types included; on grammars whose unions have wrapped / refined
    alternatives (the key then mentions a refinement object) every mapped genotype can still be mutated and crossed over, and the
    offspring map to well-typed programs"""
    from linear import DSGE, safe
    from geneticengine.random.sources import NativeRandomSource
    for spec in corpus()[2:4]:
        b = gram.build(spec)
        g = b.extract()
        line_spec = gram.spec_sx(spec)
        r = NativeRandomSource(rng.randrange(10**6))
        rep = DSGE(g, g.get_min_tree_depth() + 2)
        for trial in range(h.n(12, 80)):
            geno = rep.create_genotype(r)
            if safe(lambda: rep.genotype_to_phenotype(geno))[0] != "ok":
                continue
            cur = geno
            for k in range(8):
                st, m = safe(lambda: rep.mutate(r, cur)) if k % 3 else safe(lambda: rep.crossover(r, cur, geno)[0])
                h.count("dsge-wrapped-union-keys:operations")
                h.seen(f"dsge-union:{sx(line_spec)[:20]}:{trial}:{k}", nontrivial=True)
                if st == "err":
                    h.fail("DynamicSGE.operators", "foreign-error" if m.startswith("foreign") else "operator-fails",
                           f"{'mutation' if k % 3 else 'crossover'} of a mapped dynamic-SGE genotype raised {m} (gene-list keys: "
                           f"{[str(kk)[:60] for kk in cur.dna][:6]})", [sx(line_spec), trial, k])
                    break
                if st != "ok":
                    break
                st2, p = safe(lambda: rep.genotype_to_phenotype(m))
                if st2 == "ok":
                    h.holds("DynamicSGE.genotype_to_phenotype", "ill-typed-program", ["prop_wt", line_spec, gram.canon(p, b)],
                            f"offspring of a mapped genotype maps to an ill-typed program: {repr(p)[:200]}", [sx(line_spec), trial, k])
                elif st2 == "err" and p.startswith("foreign"):
                    h.fail("DynamicSGE.genotype_to_phenotype", "foreign-error", f"mapping an offspring failed with {p}", [sx(line_spec), trial, k])
                    break
                cur = m


def stack_wrapped_fields(h: Harness, rng):
    """the stack representation assembles tuples, lists and unions from their component stacks: on a fixed grammar with such fields
    (plain base types inside, so that the stack machine can fill them) every mapped program is structurally well-typed"""
    from linear import Stack, safe
    from geneticengine.random.sources import NativeRandomSource
    C = gram.ClassSpec
    spec = gram.Spec([C("A0", True, None), C("Leaf", False, 0, [("k", "int")]), C("Pair", False, 0, [("p", ("tuple", "int", "bool"))]),
                      C("Both", False, 0, [("t", ("tuple", ("cls", 0), "int")), ("xs", ("list", "int"))]),
                      C("Either", False, 0, [("u", ("union", ("cls", 1), "bool"))]),
                      ], 0, [1, 2, 3, 4])
    # tuples that REPEAT a component type with another type in between (every position holds its own declared type); the only
    # productions of this grammar, so that every mapped program has one
    spec2 = gram.Spec([C("A0", True, None), C("T3", False, 0, [("t", ("tuple", "int", "bool", "int"))]),
                       C("T4", False, 0, [("s", ("tuple", "bool", "int", "bool", "int"))]), C("T5", False, 0, [("u", ("tuple", "int", "int", "bool", "int"))])], 0, [1, 2, 3])
    for spec_ in (spec, spec2):
        stack_programs(h, spec_, rng)


def stack_programs(h: Harness, spec, rng):
    from linear import Stack, safe
    from geneticengine.random.sources import NativeRandomSource
    b = gram.build(spec)
    g = b.extract()
    line_spec = gram.spec_sx(spec)
    r = NativeRandomSource(rng.randrange(10**6))
    rep = Stack(g, gene_length=256)
    got = 0
    for trial in range(h.n(80, 400)):
        geno = rep.create_genotype(r)
        st, p = safe(lambda: rep.genotype_to_phenotype(geno))
        if st == "err" and p.startswith("foreign"):
            h.fail("Stack.genotype_to_phenotype", "foreign-error", f"mapping failed with {p} instead of the library's error", [sx(line_spec), trial])
            continue
        if st != "ok":
            continue
        got += 1
        c = gram.canon(p, b)
        h.seen(f"stack-wrapped:{sx(c)[:60]}", nontrivial="(t " in sx(c) or "(l " in sx(c))
        h.holds("Stack.genotype_to_phenotype", "ill-typed-program", ["prop_wt_struct", line_spec, c],
                f"mapped program is not well-typed: {sx(c)[:300]}", [sx(line_spec), trial])
    h.count("stack-wrapped-fields:programs", got)


def postponed_annotations(h: Harness, rng):
    """a grammar declared in a module with `from __future__ import annotations` (every reading of the annotations builds new refinement
    objects): in every representation genotypes created at different moments can be crossed over and mutated, nothing fails with a
    foreign error, and the offspring map to well-typed programs"""
    import futgrammar
    from linear import DSGE, GE, SGE, Stack, safe
    from geneticengine.random.sources import NativeRandomSource
    from geneticengine.representations.tree.treebased import TreeBasedRepresentation
    g = futgrammar.grammar()
    for trial in range(h.n(4, 30)):
        r = NativeRandomSource(rng.randrange(10**6))
        reps = [("tree", TreeBasedRepresentation(g, synth.make_decider("grow", 4, r, g))), ("GE", GE(g, synth.make_decider("grow", 4, r, g), gene_length=48)),
                ("SGE", SGE(g, synth.make_decider("grow", 4, r, g), gene_length=16)), ("DynamicSGE", DSGE(g, 4))]
        for name, rep in reps:
            site = f"{name}.operators"
            st, a = safe(lambda: rep.create_genotype(r))
            st2, b_ = safe(lambda: rep.create_genotype(r))
            if st != "ok" or st2 != "ok":
                continue
            safe(lambda: rep.genotype_to_phenotype(a))
            offspring = []
            for label, op in (("crossover", lambda: list(rep.crossover(r, a, b_))), ("mutate", lambda: [rep.mutate(r, a)]), ("mutate", lambda: [rep.mutate(r, b_)])):
                st, out = safe(op)
                h.count(f"postponed-annotations:{name}:{label}")
                h.seen(f"postponed:{name}:{trial}:{label}", nontrivial=True)
                if st == "err" and out.startswith("foreign"):
                    h.fail(site, "foreign-error", f"{label} of two {name} genotypes of a grammar declared under postponed annotations raised {out}", [name, trial, label])
                elif st == "ok":
                    offspring += out
            for geno in [a, b_] + offspring:
                st, p = safe(lambda: rep.genotype_to_phenotype(geno))
                if st == "err" and p.startswith("foreign"):
                    h.fail(f"{name}.genotype_to_phenotype", "foreign-error", f"mapping failed with {p} (grammar declared under postponed annotations)", [name, trial])
                elif st == "ok":
                    bad = futgrammar.ill_typed(p)
                    if bad:
                        h.fail(f"{name}.genotype_to_phenotype" if name != "tree" else "TreeBasedRepresentation.create_genotype", "ill-typed-program",
                               f"{bad[0]} in {repr(p)[:160]}", [name, trial])
                        break


def corpus():
    """fixed witnesses of type shapes the generator only meets by luck: size-refined lists whose elements are lists /
    refined values / tuples / unions, nested wrappers"""
    C = gram.ClassSpec
    r02 = ("ann", "int", ("intRange", 0, 2))
    return [
        # an ABSTRACT class that declares the fields its (absent) subclasses share and has NO production in this grammar (a sub-grammar of
        # a larger language): it is never instantiated -- programs use the other alternatives only
        gram.Spec([C("A0", True, None), C("Lit", False, 0, [("k", r02)]), C("BinOp", True, 0, [("l", ("cls", 0)), ("r", ("cls", 0))]),
                   C("Neg", False, 0, [("e", ("cls", 0))])], 0, [1, 3, 2]),
        gram.Spec([C("A0", True, None), C("Lit", False, 0, [("k", r02)]), C("Ext", True, None, [("k", r02)]),
                   C("Use", False, 0, [("x", ("union", ("cls", 2), ("cls", 1))), ("e", ("cls", 0))])], 0, [1, 3, 2]),
        # two CONCRETE classes that mention each other in their fields (through a union and a list, so that programs are finite)
        gram.Spec([C("A0", True, None), C("Leaf", False, 0, [("k", r02)]),
                   C("Ping", False, 0, [("p", ("union", ("cls", 3), ("cls", 1)))]), C("Pong", False, 0, [("q", ("list", ("cls", 2))), ("k", r02)])], 0, [1, 2, 3]),
        gram.Spec([C("A0", True, None), C("Leaf", False, 0, [("k", r02)]),
                   C("Grid", False, 0, [("cells", ("ann", ("list", ("list", r02)), ("listSize", 1, 2)))]),
                   C("Bag", False, 0, [("xs", ("ann", ("list", r02), ("listSize", 1, 3))), ("n", ("ann", ("list", ("ann", "str", ("varRange", ["x", "y"]))), ("listSize", 0, 2)))]),
                   C("Mix", False, 0, [("ps", ("ann", ("list", ("tuple", ("cls", 0), "bool")), ("listSize", 1, 2))),
                                       ("us", ("ann", ("list", ("union", ("cls", 1), r02)), ("listSize", 1, 2)))])], 0, [1, 2, 3, 4]),
        gram.Spec([C("A0", True, None), C("Leaf", False, 0, []),
                   C("Deep", False, 0, [("m", ("list", ("ann", ("list", ("ann", ("list", ("cls", 0)), ("listSize", 1, 1))), ("listSize", 1, 2))))]),
                   C("T", False, 0, [("t", ("tuple", ("list", r02), ("ann", ("tuple", "int", "int"), ("interval", 1, 2, 4))))])], 0, [1, 2, 3]),
        # unions one of whose alternatives is a WRAPPED type (a list / a tuple / a refined list of the recursive symbol) beside a plain class:
        # the alternative chosen is built as declared -- a list where the list was chosen, never a bare element
        gram.Spec([C("A0", True, None), C("Lit", False, 0, [("k", r02)]), C("Add", False, 0, [("l", ("cls", 0)), ("r", ("cls", 0))]),
                   C("Block", False, 0, [("body", ("union", ("list", ("cls", 0)), ("cls", 1)))]),
                   C("Pick", False, 0, [("c", ("union", ("tuple", ("cls", 0), "bool"), ("cls", 1))),
                                        ("d", ("union", ("cls", 1), ("ann", ("list", ("cls", 0)), ("listSize", 1, 2))))])], 0, [1, 2, 3, 4]),
        gram.Spec([C("A0", True, None), C("Lit", False, 0, []), C("Neg", False, 0, [("e", ("cls", 0))]),
                   C("Prog", False, None, [("main", ("union", ("list", ("cls", 0)), ("cls", 1))), ("k", r02)])], 3, [1, 2, 3]),
    ]


def run(h: Harness):
    rng = h.rng
    check_evaluators(h)
    preset_scenario(h, rng)
    int_literal_float_bounds(h, rng)
    boundary_genes(h, rng)
    cooperative_gp(h, rng)
    warm_started_searches(h, rng)
    handed_down_values_typed(h, rng)
    ranking_fresh_individuals(h, rng)
    weighted_string_grammar(h, rng)
    very_deep_programs(h, rng)
    dsge_wrapped_union_keys(h, rng)
    stack_wrapped_fields(h, rng)
    postponed_annotations(h, rng)
    retarget_scenario(h, rng)
    for spec in corpus():
        b = gram.build(spec)
        try:
            g = b.extract()
        except Exception as e:  # noqa: BLE001   (a grammar the library declines to extract yields no programs to judge)
            h.count(f"corpus-grammar-not-extracted:{type(e).__name__}")
            continue
        mind = g.get_min_tree_depth()
        for kind in ("grow", "full", "pigrow", "progressive"):
            for depth in (mind, mind + 1, mind + 2):
                for _ in range(2):
                    check_create(h, spec, b, kind, depth, [rng.randrange(0, 1000) for _ in range(128)])
        check_tree_ops(h, spec, b, g, mind, rng)
        check_linear(h, spec, b, g, mind, rng)
        h.count("corpus-grammars")
    nspecs = h.n(120, 2400)
    for _ in range(nspecs):
        dep = rng.random() < 0.25
        spec = gram.productive_spec(rng, max_classes=rng.choice([3, 4, 6]))
        if dep:
            gram.add_dependent_fields(rng, spec)
        b = gram.build(spec)
        try:
            g = b.extract()
        except Exception:  # noqa: BLE001
            h.count("extract-error")
            continue
        mind = g.get_min_tree_depth()
        if mind >= 1000000:
            h.count("unproductive")
            continue
        for _ in range(5):
            kind = rng.choice(["grow", "grow", "full", "pigrow", "progressive"])
            depth = max(0, mind + rng.choice([-1, 0, 0, 1, 1, 2, 3, 4]))
            draws = [rng.randrange(0, 1000) for _ in range(rng.choice([8, 32, 128]))]
            check_create(h, spec, b, kind, depth, draws)
        if rng.random() < 0.5:
            check_tree_ops(h, spec, b, g, mind, rng)
        if rng.random() < 0.5 and not dep:
            check_linear(h, spec, b, g, mind, rng)
