"""C19 -- production weights are normalised per non-terminal, stable under re-extraction, and
respected by the weight-aware choosers.

Implementation side: `extract_grammar` (1-3 times on the SAME freshly generated classes -- the
extraction rewrites the classes' `__gengy__` dicts), observed through `Grammar.get_weights()`;
`ProgressivelyTerminalDecider.choose_production_alternatives` and the symbol chooser at the top
of `create_tree_using_stacks`, both driven with scripted random sources.
Model side: lean/GEVerif/Model/Weights.lean; theorems: lean/GEVerif/Props/C19.lean.
"""
from __future__ import annotations

import dataclasses
from abc import ABC
from fractions import Fraction
from math import lcm

from core import Harness, InfraError, ScriptedSource, enumerate_scripts
from core import sx as core_sx

from geneticengine.exceptions import GeneticEngineError
from geneticengine.grammar.decorators import abstract, get_gengy, weight
from geneticengine.grammar.grammar import INF_VALUE, extract_grammar
from geneticengine.representations.stackgggp import create_tree_using_stacks
from geneticengine.representations.tree.initializations import ProgressivelyTerminalDecider
from geneticengine.solutions.tree import LocalSynthesisContext

RULE = ("corpus of boundary hierarchies first (flat rule with a zero weight, nested abstract class listed / NOT listed in "
        "considered_subtypes, all-zero rule, weighted start symbol, unreachable and builtin considered subtypes), then hierarchies drawn "
        "from VERIF_SEED: 1-3 levels of abstract classes, 1-4 productions per rule, any subset weighted (zeros frequent), abstract "
        "intermediates listed or not, recursive fields; fresh classes per case; 1-3 extractions. Stream D: dyadic weights whose rule "
        "totals are powers of two (float arithmetic exact: compared exactly with the rational model); stream F: arbitrary float weights "
        "(compared with tolerance 2^-50 = 4 ulp of 1.0). Choosers: every rule with <= 4 alternatives x depths {0,1,target-1,target,target+1}, "
        "draws at every slice boundary (+ random), and ALL draws (enumerate_scripts) for a few rules per run. A case is non-trivial "
        "when some rule has >= 2 productions and a declared weight; distinct = distinct protocol lines")
ASSUMPTIONS = [
    "weights are exact rationals (core Lean Rat) in the model; IEEE-754 float arithmetic is modelled, not verified: stream D uses dyadic "
    "weights where every float operation of update_weights is exact, stream F is compared with an absolute tolerance of 2^-50 per weight "
    "(2^-50 x #alternatives per rule sum), and float idempotence (a second/third extraction) with the same tolerance",
    "domain of the property: declared weights are >= 0 and every rule has a positive declared total (an all-zero rule makes the "
    "conclusion unsatisfiable: the code raises ZeroDivisionError, modelled as an error); a weight declared on a class that is not a "
    "production (start symbol, stand-alone field type) must lie in [0,1] (update_weights asserts 0 <= w <= 1 for every registered class)",
    "the class structure handed to the model (who is an alternative of whom) comes from the harness's own generator, and is compared "
    "with Grammar.alternatives / all_nodes on every case",
    "choosers: production weights below 1/100000 are below the resolution of choice_weighted (int(acc*100000)); the theorem assumes "
    "non-zero production weights are >= 1e-5; the harness uses dyadic weights >= 1/64",
    "ProgressivelyTerminalDecider's heuristic is modelled for grammars whose maximum node depth is finite (no unproductive symbol); "
    "the INF_VALUE replacement branch (target = min_depth * #recursive, possibly negative factors) is not modelled and skipped",
    "distance_to_terminal, recursive_prods and get_max_node_depth are inputs of the chooser model (they are C05's outputs)",
]
TRUSTED_EXTRA = ["IEEE-754 double arithmetic in update_weights / choice_weighted is outside the model (see assumptions)"]

TOL = [1, 2**50]


# ----------------------------------------------------------------------------------------
# generated hierarchies
# ----------------------------------------------------------------------------------------

@dataclasses.dataclass
class Node:
    name: str
    is_abstract: bool
    parent: "Node | None"
    children: list
    weight: object = None          # declared weight (int/float) or None
    listed: bool = True
    cls: type | None = None
    rec_field: "Node | None" = None  # concrete classes may have a field of an (ancestor) abstract type
    index: int = -1


_counter = [0]


def fresh(prefix: str) -> str:
    _counter[0] += 1
    return f"{prefix}{_counter[0]}"


def gen_tree(rng, max_levels: int) -> list[Node]:
    """A random hierarchy; returns the nodes in creation order (root first)."""
    root = Node(fresh("R"), True, None, [])
    nodes = [root]

    def grow(node: Node, level: int):
        k = rng.choice([1, 2, 2, 3, 3, 4])
        for _ in range(k):
            make_abs = level < max_levels and rng.random() < 0.3
            child = Node(fresh("A" if make_abs else "C"), make_abs, node, [])
            node.children.append(child)
            nodes.append(child)
            if make_abs:
                grow(child, level + 1)
            elif rng.random() < 0.3:
                anc = []
                a = node
                while a is not None:
                    anc.append(a)
                    a = a.parent
                child.rec_field = rng.choice(anc)

    grow(root, 1)
    for i, n in enumerate(nodes):
        n.index = i
    return nodes


def build_classes(nodes: list[Node]):
    for n in nodes:
        if n.parent is None:
            n.cls = type(n.name, (ABC,), {})
        elif n.is_abstract:
            n.cls = type(n.name, (n.parent.cls,), {})
            if n.weight is not None and n.index % 2 == 0:
                # `@abstract` written ABOVE `@weight`: the weight is declared first
                weight(n.weight)(n.cls)
                abstract(n.cls)
                continue
            abstract(n.cls)
        else:
            fields = [("x", int)]
            if n.rec_field is not None:
                fields.append(("r", n.rec_field.cls))
            n.cls = dataclasses.make_dataclass(n.name, fields, bases=(n.parent.cls,))
        if n.weight is not None:
            weight(n.weight)(n.cls)


def as_number(fr: Fraction, rng):
    if fr.denominator == 1 and rng.random() < 0.5:
        return int(fr)
    return float(fr)


def assign_dyadic(rng, nodes: list[Node], zero_rule: bool):
    """Per rule: any subset weighted; totals are powers of two so that normalisation is exact."""
    rules = [n for n in nodes if n.is_abstract and n.children]
    zr = rng.choice(rules) if zero_rule else None
    for r in rules:
        kids = r.children
        if r is zr:
            for k in kids:
                k.weight = rng.choice([0, 0.0])
            continue
        e = rng.choice([0, 0, 1, 2])
        unit = Fraction(1, 2**e)
        weighted = [k for k in kids if rng.random() < 0.5]
        m = len(kids)
        if not weighted and (m & (m - 1)) != 0:
            weighted = [rng.choice(kids)]
        if not weighted:
            continue
        nums = {id(k): rng.choice([0, 0, 1, 1, 2, 3, 5]) for k in weighted}
        last = weighted[-1]
        base = sum(v for kid, v in nums.items() if kid != id(last)) + (m - len(weighted)) * 2**e
        target = 1
        while target < max(base, 1):
            target *= 2
        if rng.random() < 0.3 or target == base == 0:
            target *= 2
        nums[id(last)] = target - base
        if all(v == 0 for v in nums.values()) and m == len(weighted):
            nums[id(last)] = 1  # keep the rule's total positive (zero rules are generated separately)
        for k in weighted:
            k.weight = as_number(nums[id(k)] * unit, rng)


def assign_floats(rng, nodes: list[Node]):
    pool = [0, 0.0, 0.1, 0.3, 1 / 3, 0.7, 1, 1.5, 2.5, 3, 7, 10, 99, 1e-3, 0.125]
    rules = [n for n in nodes if n.is_abstract and n.children]
    for r in rules:
        for k in r.children:
            if rng.random() < 0.6:
                k.weight = rng.choice(pool)
        if all((k.weight is not None and k.weight == 0) for k in r.children):
            r.children[0].weight = rng.choice([0.3, 2, 7])


def model_classes(nodes: list[Node], extra_builtins: int):
    out = []
    for n in nodes:
        w = "none" if n.weight is None else frac_sx(Fraction(n.weight))
        out.append(["none" if n.parent is None else n.parent.index, w, False])
    for _ in range(extra_builtins):
        out.append(["none", "none", True])
    return out


def frac_sx(fr: Fraction):
    return [fr.numerator, fr.denominator]


def describe(nodes: list[Node], considered) -> str:
    parts = []
    for n in nodes:
        if n.is_abstract and n.children:
            alts = " | ".join(f"{k.name}{'' if k.weight is None else '<%r>' % (k.weight,)}" for k in n.children)
            parts.append(f"{n.name}{'' if n.weight is None else '<%r>' % (n.weight,)} -> {alts}")
    names = [getattr(c, "__name__", str(c)) for c in considered]
    return "; ".join(parts) + f"  [considered_subtypes={names}]"


# ----------------------------------------------------------------------------------------
# extraction
# ----------------------------------------------------------------------------------------

def snapshot_dicts(nodes):
    return [dict(get_gengy(n.cls)) for n in nodes]


def run_extraction(h: Harness, nodes: list[Node], stream: str, n_extract: int, extra_considered=(), tag=""):
    """Extract n times; returns the last grammar (or None) for the chooser checks."""
    rng = h.rng
    root = nodes[0]
    considered = [n.cls for n in nodes[1:] if n.listed] + list(extra_considered)
    rng.shuffle(considered)
    desc = describe(nodes, considered)
    site = "extract_grammar"
    classes_sx = model_classes(nodes, 1)   # one builtin: int
    any_weighted = any(n.weight is not None for n in nodes)
    nontrivial = any(n.is_abstract and len(n.children) >= 2 and any(k.weight is not None for k in n.children) for n in nodes)
    results, g_last, prev = [], None, None
    for step in range(1, n_extract + 1):
        before = snapshot_dicts(nodes)
        try:
            g = extract_grammar(list(considered), root.cls)
        except ZeroDivisionError:
            results.append("zerodiv")
            if snapshot_dicts(nodes) != before:
                h.fail(site, "error-mutates-classes", f"extraction #{step} of {desc} raised ZeroDivisionError after rewriting class weights", desc)
            break
        except AssertionError:
            results.append("assert")
            break
        except Exception as e:  # noqa: BLE001
            h.fail(site, "raises", f"extraction #{step} of {desc} raised {type(e).__name__}: {e}", desc)
            return None
        # the structure handed to the model must be the one the library sees
        expected_nodes = {n.cls for n in nodes} | {int}
        if set(g.all_nodes) != expected_nodes:
            raise InfraError(f"C19 generator assumption broken: all_nodes={g.all_nodes} for {desc}")
        for n in nodes:
            if n.is_abstract and n.children:
                if set(g.alternatives.get(n.cls, [])) != {k.cls for k in n.children}:
                    raise InfraError(f"C19 generator assumption broken: alternatives of {n.name} for {desc}")
        gw = g.get_weights()
        # (the start symbol and the base types are members of no rule: a table that leaves them out says the same as one that lists them
        # with the default weight; every member of a rule must be listed)
        in_rules = {p_ for ps in g.alternatives.values() for p_ in ps}
        missing = [n.name for n in nodes if n.cls in in_rules and n.cls not in gw]
        if missing:
            h.fail("Grammar.get_weights", "weights-not-normalised", f"get_weights() lists no weight for the production(s) {missing} of {desc}", [desc, "missing"])
            return None
        from geneticengine.grammar.decorators import get_gengy
        gw = {**{n.cls: get_gengy(n.cls).get("weight", 1.0) for n in nodes if n.cls not in gw}, **({int: 1.0} if int not in gw else {}), **gw}
        ws = [Fraction(gw[n.cls]) for n in nodes] + [Fraction(gw[int])]
        ws_sx = [frac_sx(w) for w in ws]
        results.append(["ok", ws_sx])
        g_last = g
        shown = {n.name: gw[n.cls] for n in nodes}
        if any_weighted:
            struct_sx = [[c[0], "none", c[2]] for c in classes_sx]
            if stream == "D":
                h.holds(site, "weights-not-normalised", ["prop_normalised", struct_sx, ws_sx],
                        f"after extraction #{step} of {desc}: get_weights() = {shown}", desc, nontrivial=nontrivial)
                h.holds(site, "ratios-not-preserved", ["prop_ratios", classes_sx, ws_sx],
                        f"after extraction #{step} of {desc}: get_weights() = {shown}", desc, nontrivial=nontrivial)
            else:
                h.holds(site, "weights-not-normalised", ["prop_close", classes_sx, ws_sx, TOL],
                        f"after extraction #{step} of {desc}: get_weights() = {shown} (tolerance 2^-50)", desc, nontrivial=nontrivial)
            if prev is not None:
                h.holds(site, "re-extraction-changes-weights", ["prop_same", prev, ws_sx, [0, 1] if stream == "D" else TOL],
                        f"extraction #{step} of {desc} changed the weights: {shown}", desc, nontrivial=nontrivial)
        prev = ws_sx
    if stream == "D":
        h.agree(site, ["extract", len(results), classes_sx], results, nontrivial=nontrivial, replay=desc)
    else:
        h.seen(f"F:{desc}:{results}", nontrivial)
    h.count(f"stream={stream}{tag}")
    h.count(f"extractions={n_extract}")
    h.count(f"classes={len(nodes) if len(nodes) < 10 else '10+'}")
    h.count(f"outcome={results[-1] if isinstance(results[-1], str) else 'ok'}")
    if any(n.is_abstract and n.parent is not None and not n.listed for n in nodes):
        h.count("has-unlisted-abstract-intermediate")
    if any(n.weight is not None and n.weight == 0 for n in nodes):
        h.count("has-zero-weight")
    return g_last if results and results[-1] != "zerodiv" and results[-1] != "assert" else None


# ----------------------------------------------------------------------------------------
# choosers
# ----------------------------------------------------------------------------------------

def scaled_acc(nums, den):
    acc, run = [], 0
    for n in nums:
        run += n
        acc.append(run * 100000 // den)
    return acc


def boundary_draws(rng, acc, n_alts, extra=3):
    total = acc[-1] if acc else 0
    if total <= 0:
        return list(range(n_alts + 1))
    ds = {0, 1, total - 1, total, total // 2}
    for a in acc:
        ds.update({a - 1, a, a + 1})
    ds.update(rng.randrange(0, total + 1) for _ in range(extra))
    return sorted(d for d in ds if d >= 0)


def check_ptd(h: Harness, g, nodes: list[Node], budget: dict):
    rng = h.rng
    site = "ProgressivelyTerminalDecider.choose_production_alternatives"
    target = g.get_max_node_depth()
    if target >= INF_VALUE:
        h.count("ptd-skipped-unproductive-grammar")
        return
    gw = g.get_weights()
    for rule in nodes:
        if not (rule.is_abstract and rule.children):
            continue
        alts = list(g.alternatives[rule.cls])
        if len(alts) > 4:
            continue
        fr = [Fraction(gw[a]) for a in alts]
        den = lcm(*[f.denominator for f in fr])
        if den & (den - 1):
            continue  # not dyadic: exact comparison impossible
        gnums = [int(f * den) for f in fr]
        rec = [a in g.recursive_prods for a in alts]
        dist = [g.get_distance_to_terminal(a) for a in alts]
        alts_sx = [[bool(r), d, n] for r, d, n in zip(rec, dist, gnums)]
        names = [f"{a.__name__}<{gw[a]}>" for a in alts]
        for depth in sorted({0, 1, max(target - 1, 0), target, target + 1}):
            hs = [(target // (depth + 1)) if r else (target - d) for r, d in zip(rec, dist)]
            comb = [x * n for x, n in zip(hs, gnums)]
            acc = scaled_acc(comb if any(c > 0 for c in comb) else gnums, den)
            ctx = LocalSynthesisContext(depth, 0, 0, {})

            def choose(src):
                dec = ProgressivelyTerminalDecider(src, g)
                return alts.index(dec.choose_production_alternatives(rule.cls, list(alts), ctx))

            what = (f"alternatives {names} of {rule.name} at depth {depth} (max node depth {target}, heuristic factors {hs})")
            for d in boundary_draws(rng, acc, len(alts)):
                try:
                    idx = choose(ScriptedSource([d]))
                except Exception as e:  # noqa: BLE001
                    h.fail(site, "raises", f"{what}: raised {type(e).__name__}: {e}", [names, depth, d])
                    continue
                h.agree(site, ["ptd_choose", target, depth, alts_sx, den, [d]], idx, nontrivial=len(alts) > 1)
                h.holds(site, "zero-weight-production-chosen", ["prop_respects", gnums, idx],
                        f"{what}: draw {d} returned {names[idx]}", [names, depth, d], nontrivial=len(alts) > 1)
            h.count(f"ptd-heuristic-{'all-zero' if not any(hs) else 'mixed' if 0 in hs else 'positive'}")
            # ALL draws for a few (rule, depth) pairs
            total = acc[-1]
            if budget["all_draws"] > 0 and total <= 150000 and (total == 0 or rng.random() < 0.5):
                budget["all_draws"] -= 1
                counts = [0] * len(alts)
                for script, idx in enumerate_scripts(choose, limit=200000):
                    counts[idx] += 1
                    if gnums[idx] == 0 and any(gnums):
                        h.fail(site, "zero-weight-production-chosen", f"{what}: draw {script} returned {names[idx]}", [names, depth, script])
                h.agree(site, ["ptd_slices", target, depth, alts_sx, den], counts, nontrivial=len(alts) > 1)
                h.count("ptd-all-draws-enumerated")


class _Stop(Exception):
    pass


class FirstWeightedChoice(ScriptedSource):
    """Records the first `choice_weighted` call made by the code under test, then stops it."""
    dna = [0] * 64      # (create_tree_using_stacks is written for a genotype-backed ListWrapper: it sizes its operation budget by the genome)

    def choice_weighted(self, choices, weights):
        res = super().choice_weighted(choices, weights)
        self.record = (list(choices), list(weights), res)
        raise _Stop()


def check_stack(h: Harness, g, desc: str):
    rng = h.rng
    site = "create_tree_using_stacks"
    probe = FirstWeightedChoice([0])
    try:
        create_tree_using_stacks(g, probe, failures_limit=2)
    except _Stop:
        pass
    except GeneticEngineError:
        return
    choices, weights, _ = probe.record
    # the weight the chooser gives a symbol is the grammar's (normalised, level-A checked) production weight -- zero included --
    # and 1 for stack types that are not grammar nodes
    gw = g.get_weights()
    expected = [gw.get(c, 1) for c in choices]
    if [float(w) for w in weights] != [float(w) for w in expected]:
        k = next(i for i, (a, b_) in enumerate(zip(weights, expected)) if float(a) != float(b_))
        h.fail(site, "zero-weight-production-chosen" if float(expected[k]) == 0 else "chooser-ignores-production-weight",
               f"the stack symbol chooser draws {getattr(choices[k], '__name__', str(choices[k]))} with weight {weights[k]}, "
               f"the grammar gives it weight {expected[k]} ({desc})", [desc, k])
        return
    fr = [Fraction(w) for w in weights]
    den = lcm(*[f.denominator for f in fr])
    if den & (den - 1):
        return
    nums = [int(f * den) for f in fr]
    acc = scaled_acc(nums, den)
    names = [f"{getattr(c, '__name__', str(c))}<{w}>" for c, w in zip(choices, weights)]
    for d in boundary_draws(rng, acc, len(nums), extra=2):
        src = FirstWeightedChoice([d])
        try:
            create_tree_using_stacks(g, src, failures_limit=2)
        except _Stop:
            pass
        ch, _, res = src.record
        idx = next(i for i, c in enumerate(ch) if c is res)
        h.agree(site, ["stack_choose", den, nums, [d]], idx)
        h.holds(site, "zero-weight-production-chosen", ["prop_respects", nums, idx],
                f"stack symbol chooser over {names}: draw {d} selected {names[idx]} ({desc})", [names, d])
    h.count("stack-chooser-grammars")


# ----------------------------------------------------------------------------------------
# whole programs: what the weight-aware choosers BUILD
# ----------------------------------------------------------------------------------------

def check_programs(h: Harness):
    """programs created with the weight-aware decider (ProgressivelyTerminalDecider) and mapped by the stack representation
    (whose symbol draw is weighted) on grammars with a switched-off production -- weight 0 -- beside positive-weight siblings
    that can always be built: no program contains the switched-off production, also when a sibling production fails and
    creation retries, and also when the switched-off production is a nested abstract type with buildable children"""
    import gram
    import synth
    from linear import Stack, safe
    from geneticengine.random.sources import NativeRandomSource
    from geneticengine.representations.tree.treebased import TreeBasedRepresentation
    C = gram.ClassSpec
    r03 = ("ann", "int", ("intRange", 0, 3))
    failing = [("vars", ("ann", ("list", ("ann", "str", ("varRange", ["x", "y"]))), ("listSize", 0, 0))), ("x", ("ann", "str", ("depVarFrom", "vars")))]
    sometimes = [("vars", ("ann", ("list", ("ann", "str", ("varRange", ["x", "y"]))), ("listSize", 0, 1))), ("x", ("ann", "str", ("depVarFrom", "vars")))]
    grammars = [
        # (spec, indices of the switched-off classes, representations)
        (gram.Spec([C("A0", True, None), C("Hole", False, 0, [], weight=0), C("Lit", False, 0, [("k", r03)], weight=2),
                    C("Let", False, 0, [("e", ("cls", 0)), ("b", ("cls", 0))], weight=3), C("Var", False, 0, failing, weight=5)], 0, [1, 2, 3, 4]), {1}, ("progressive",)),
        (gram.Spec([C("A0", True, None), C("Var", False, 0, sometimes, weight=6), C("Hole", False, 0, [("k", r03)], weight=0.0), C("Lit", False, 0, [], weight=1),
                    C("Neg", False, 0, [("e", ("cls", 0))], weight=1)], 0, [1, 2, 3, 4]), {2}, ("progressive",)),
        (gram.Spec([C("Shape", True, None), C("Curved", True, 0, weight=0), C("Circle", False, 1, [("r", r03)], weight=3), C("Ellipse", False, 1, [("a", r03), ("b", r03)], weight=1),
                    C("Square", False, 0, [("s", r03)], weight=2), C("Pair", False, 0, [("a", ("cls", 0)), ("b", ("cls", 0))], weight=1)], 0, [1, 2, 3, 4, 5]), {2, 3}, ("progressive", "stack")),
        (gram.Spec([C("Shape", True, None), C("Curved", True, 0, weight=0), C("Circle", False, 1, [], weight=1), C("Square", False, 0, [], weight=2),
                    C("Frame", False, 0, [("inner", ("cls", 0))], weight=1)], 0, [2, 3, 4, 1]), {2}, ("progressive", "stack")),
    ]
    # a Union field whose members include the switched-off production beside a positive-weight one
    grammars.append((gram.Spec([C("A0", True, None), C("Silent", False, 0, [("k", r03)], weight=0), C("Lit", False, 0, [("k", r03)], weight=2),
                                C("Use", False, 0, [("u", ("union", ("cls", 1), ("cls", 2))), ("e", ("cls", 0)), ("v", ("union", ("cls", 2), ("cls", 1)))], weight=3),
                                C("Neg", False, 0, [("e", ("cls", 0)), ("w", ("union", ("cls", 1), ("cls", 2)))], weight=1)], 0, [1, 2, 3, 4]), {1}, ("progressive",)))
    # a Union field over PARENTLESS concrete classes (members of no rule), one of them switched off; a deeper production keeps the holder
    # from being the last resort
    grammars.append((gram.Spec([C("A0", True, None), C("Silent", False, None, [("k", r03)], weight=0), C("Loud", False, None, [("k", r03)], weight=1),
                                C("Lit", False, 0, [("k", r03)]), C("Use", False, 0, [("u", ("union", ("cls", 1), ("cls", 2))), ("e", ("cls", 0))]),
                                C("Deep", False, 0, [("a", ("cls", 0)), ("b", ("cls", 0))])], 0, [3, 4, 5, 1, 2]), {1}, ("progressive", "stack")))
    # expansion depthing: a weighted NESTED abstract type whose only production is the deepest class of the grammar (the abstract type
    # is then deeper than every concrete class), beside a switched-off production; also with the deep class two levels down
    grammars.append((gram.Spec([C("Stmt", True, None), C("Halt", False, 0, [], weight=0), C("Skip", False, 0, [], weight=1),
                                C("Assign", True, 0, weight=6), C("SetVar", False, 3, [("value", "int")])], 0, [1, 2, 3, 4], True), {1}, ("progressive",)))
    grammars.append((gram.Spec([C("Stmt", True, None), C("Halt", False, 0, [("k", r03)], weight=0), C("Skip", False, 0, [], weight=1),
                                C("Assign", True, 0, weight=9), C("Place", True, 3, weight=2), C("SetVar", False, 4, [("value", r03), ("next", ("cls", 0))])],
                               0, [1, 2, 3, 4, 5], True), {1}, ("progressive",)))
    rng = h.rng
    for spec, off, kinds in grammars:
        b = gram.build(spec)
        g = b.extract()
        desc = core_sx(gram.spec_sx(spec))
        names = sorted(spec.classes[i].name for i in off)

        def uses_off(c):
            todo = [c]
            while todo:
                x = todo.pop()
                if isinstance(x, list):
                    if x and x[0] == "n" and x[1] in off:
                        return True
                    todo += [y for y in x if isinstance(y, list)]
            return False
        for kind in kinds:
            made = 0
            for trial in range(h.n(60, 400)):
                r = NativeRandomSource(rng.randrange(10**6))
                if kind == "progressive":
                    rep = TreeBasedRepresentation(g, synth.make_decider("progressive", 5, r, g))
                    site = "ProgressivelyTerminalDecider.choose_production_alternatives"
                else:
                    rep = Stack(g, gene_length=256)
                    site = "create_tree_using_stacks"
                st, geno = safe(lambda: rep.create_genotype(r))
                progs = []
                for step in range(3):
                    if st != "ok":
                        break
                    st2, p = safe(lambda: rep.genotype_to_phenotype(geno))
                    if st2 == "ok":
                        progs.append(p)
                    st, geno = safe(lambda: rep.mutate(r, geno))
                for p in progs:
                    made += 1
                    c = gram.canon(p, b, meta=False)
                    if uses_off(c):
                        h.fail(site, "zero-weight-production-chosen",
                               f"a program built with the {'weight-aware decider' if kind == 'progressive' else 'stack representation'} contains the switched-off "
                               f"(weight 0) production(s) {names} although positive-weight siblings can be built: {core_sx(c)[:200]}", [desc, kind, trial])
                        break
                else:
                    continue
                break
            h.count(f"programs-on-grammars-with-switched-off-productions:{kind}", made)
            # ... and the extracted grammar is still what extraction made it: every rule lists its productions, their weights sum to one
            # (creation retried failing productions many times on this very grammar object)
            wts = g.get_weights()
            for sym, prods in g.alternatives.items():
                tot = sum(float(wts[p_]) for p_ in prods)
                if abs(tot - 1.0) > 1e-9:
                    h.fail("extract_grammar", "weights-not-normalised",
                           f"after {made} programs were built from the extracted grammar with the {kind} chooser, the rule of {sym.__name__} lists "
                           f"{[p_.__name__ for p_ in prods]} and their weights sum to {tot!r} (grammar {desc[:160]})", [desc, kind, "after-use"])
                    break
            h.seen(f"programs:{desc}:{kind}", nontrivial=made > 20)


def check_weights_survive_derived_grammars(h: Harness):
    """deriving another grammar from an extracted one (`g.usable_grammar()`, the reachable and productive part) is a read: afterwards the
    weights `g` reports are the ones it reported before -- per rule non-negative, summing to one, in the declared ratios -- also when some
    weighted production can never be completed (an empty nested abstract type, a production that needs itself)"""
    import gram
    C = gram.ClassSpec
    specs = [
        gram.Spec([C("A0", True, None), C("Lit", False, 0, [("k", ("ann", "int", ("intRange", 0, 3)))], weight=5), C("Neg", False, 0, [("e", ("cls", 0))], weight=6),
                   C("Ext", True, 0, weight=1)], 0, [1, 2, 3]),
        gram.Spec([C("A0", True, None), C("Lit", False, 0, [], weight=0.5), C("Pair", False, 0, [("l", ("cls", 0)), ("r", ("cls", 0))], weight=0.25),
                   C("Stuck", False, 0, [("s", ("cls", 3))], weight=0.25)], 0, [1, 2, 3]),
        gram.Spec([C("A0", True, None), C("Lit", False, 0, [("k", "int")], weight=2), C("Neg", False, 0, [("e", ("cls", 0))], weight=1),
                   C("B", True, None), C("Only", False, 3, [("b", ("cls", 3))]), C("Loop", False, 0, [("b", ("cls", 3))], weight=1)], 0, [1, 2, 4, 5, 3]),
    ]
    for spec in specs:
        b = gram.build(spec)
        try:
            g = b.extract()
        except Exception as e:  # noqa: BLE001
            h.notes.append(f"derived-grammars witness not extractable: {type(e).__name__}")
            continue
        before = {k.__name__: float(v) for k, v in g.get_weights().items()}
        try:
            for _ in range(2):
                g.usable_grammar()
        except Exception as e:  # noqa: BLE001
            h.count(f"derived-grammars:usable_grammar-raised:{type(e).__name__}")
        after = {k.__name__: float(v) for k, v in g.get_weights().items()}
        h.count("weights-survive-derived-grammars")
        h.seen(f"derived:{core_sx(gram.spec_sx(spec))[:60]}", nontrivial=True)
        moved = [k for k in before if abs(before[k] - after.get(k, -1)) > 1e-9]
        sums = {sym.__name__: sum(float(g.get_weights()[p_]) for p_ in prods) for sym, prods in g.alternatives.items()}
        if moved or any(abs(t - 1.0) > 1e-9 for t in sums.values()):
            h.fail("extract_grammar", "weights-not-normalised",
                   f"after g.usable_grammar() the grammar's own weights moved: {dict((k, (before[k], after.get(k))) for k in moved)}; per rule they now sum to {sums} "
                   f"(grammar {core_sx(gram.spec_sx(spec))[:200]})", [core_sx(gram.spec_sx(spec)), "usable_grammar"])


def check_same_named_rules(h: Harness):
    """two DIFFERENT abstract types of one grammar that carry the same class name (sub-languages kept in separate modules or
    namespaces, e.g. numbers.Literal and strings.Literal): each rule is normalised on its own -- its productions sum to 1 in the
    declared ratios -- on the first extraction and on every later one"""
    from geneticengine.grammar.grammar import extract_grammar
    cases = [((1, 3), (2, 2, 4)), ((1, 1), (1, 3)), ((0, 2), (1, 1, 6)), ((4, 4), (1,))]
    for ci, (wa, wb) in enumerate(cases):
        root = type(f"SExpr{ci}", (ABC,), {})
        rules = []
        for tag, ws in (("numbers", wa), ("strings", wb)):
            rule = abstract(type("Literal", (root,), {"__module__": f"sublang.{tag}"}))
            weight(2 if tag == "numbers" else 6)(rule)
            kids = []
            for j, w_ in enumerate(ws):
                kid = dataclasses.make_dataclass(f"{tag.capitalize()}Lit{j}", [("x", int)], bases=(rule,))
                weight(w_)(kid)
                kids.append(kid)
            rules.append((rule, kids, ws))
        considered = [k for _, kids, _ in rules for k in kids] + [r for r, _, _ in rules]
        desc = f"a grammar with two abstract types both named Literal, productions weighted {wa} and {wb}"
        for n_ext in (1, 2, 3):
            try:
                g = extract_grammar(considered, root)
            except Exception as e:  # noqa: BLE001
                h.fail("extract_grammar", "raises", f"{desc}: extraction #{n_ext} raised {type(e).__name__}: {e}", [ci, n_ext])
                break
            w = g.get_weights()
            h.count("same-named-rules:extractions")
            h.seen(f"same-named:{ci}:{n_ext}", nontrivial=True)
            bad = None
            for rule, kids, ws in rules:
                got = [w[k] for k in kids]
                want = [x / sum(ws) for x in ws]
                if any(abs(a - b_) > 1e-9 for a, b_ in zip(got, want)):
                    bad = (rule, got, want)
                    break
            top = [w[r] for r, _, _ in rules]
            if bad is None and any(abs(a - b_) > 1e-9 for a, b_ in zip(top, [0.25, 0.75])):
                bad = (root, top, [0.25, 0.75])
            if bad:
                h.fail("extract_grammar", "weights-not-normalised",
                       f"{desc}: after extraction #{n_ext} the productions of {bad[0].__module__}.{bad[0].__name__} have the weights {bad[1]}, "
                       f"the declaration normalises to {bad[2]}", [ci, n_ext])
                break


def check_redeclaration(h: Harness):
    """weights are declared with a decorator on the class; a user who declares NEW weights on classes that a grammar was already
    extracted from (a sweep over one production's weight, switching a production off) and extracts again gets the grammar of
    the new declaration -- normalised, with the newly declared ratios"""
    # (totals are powers of two, unweighted = 1: normalisation is exact)
    cases = [([1, 2, None, 4], [5, 1, 2, 8]), ([0, None], [1, 1]), ([2, 2], [0, 4]), ([None, None, 1, None], [1, 2, 1, 4]), ([1, 1], [3, 1])]
    for first, second in cases:
        nodes = corpus_flat(first)
        build_classes(nodes)
        if run_extraction(h, nodes, "D", 2, tag=":before-redeclaration") is None:
            continue
        for n, w in zip(nodes[1:], second):
            n.weight = w
            weight(w)(n.cls)
        run_extraction(h, nodes, "D", 2, tag=":weights-declared-again")
    nodes = corpus_nested(True, [1, 3], 3)
    build_classes(nodes)
    if run_extraction(h, nodes, "D", 1, tag=":before-redeclaration") is not None:
        for n, w in zip(nodes[1:], [2, 0, 4, 6]):
            n.weight = w
            weight(w)(n.cls)
        run_extraction(h, nodes, "D", 2, tag=":weights-declared-again")


def check_nested_start(h: Harness):
    """a grammar rooted at a NESTED abstract type whose productions refer back to the enclosing abstract type: the enclosing
    type's rule is part of the grammar (it is expanded when programs are built), and like every rule its weights are
    non-negative, sum to one and keep the declared ratios; extracting again changes nothing"""
    Expr = type(fresh("Expr"), (ABC,), {})
    Term = weight(2)(abstract(type(fresh("Term"), (Expr,), {})))
    Const = weight(6)(dataclasses.make_dataclass(fresh("Const"), [("x", int)], bases=(Expr,)))
    Neg = dataclasses.make_dataclass(fresh("Neg"), [("inner", Expr)], bases=(Expr,))
    Var = weight(3)(dataclasses.make_dataclass(fresh("Var"), [("x", int)], bases=(Term,)))
    Paren = dataclasses.make_dataclass(fresh("Paren"), [("inner", Expr)], bases=(Term,))
    declared = {Term: 2, Const: 6, Neg: 1, Var: 3, Paren: 1}
    prev = None
    for step in range(1, 4):
        try:
            g = extract_grammar([Const, Neg, Var, Paren], Term)
        except Exception as e:  # noqa: BLE001
            h.fail("extract_grammar", "raises", f"extraction #{step} of a grammar rooted at a nested abstract type: {type(e).__name__}: {e}", ["nested-start", step])
            return
        gw = g.get_weights()
        shown = {k.__name__: round(v, 6) for k, v in gw.items() if k in declared}
        h.count("nested-start-extractions")
        h.seen(f"nested-start:{step}", nontrivial=True)
        for rule, alts in g.alternatives.items():
            prods = [a for a in alts if a in declared]
            if len(prods) < 2:
                continue
            total = sum(gw[a] for a in alts)
            if abs(total - 1) > 1e-9 or any(gw[a] < 0 for a in alts):
                h.fail("extract_grammar", "weights-not-normalised", f"extraction #{step} (start symbol {Term.__name__}, nested under {Expr.__name__}): the weights of rule "
                       f"{rule.__name__} -> {[a.__name__ for a in alts]} sum to {total}: {shown}", ["nested-start", step])
                return
            for a in prods:
                for b_ in prods:
                    if abs(gw[a] * declared[b_] - gw[b_] * declared[a]) > 1e-9:
                        h.fail("extract_grammar", "ratios-not-preserved", f"extraction #{step}: rule {rule.__name__}: {a.__name__}:{b_.__name__} declared "
                               f"{declared[a]}:{declared[b_]}, extracted {gw[a]}:{gw[b_]} ({shown})", ["nested-start", step])
                        return
        if prev is not None and any(abs(prev[k] - shown[k]) > 1e-9 for k in shown):
            h.fail("extract_grammar", "re-extraction-changes-weights", f"extraction #{step} changed the weights: {prev} -> {shown}", ["nested-start", step])
            return
        prev = shown


def check_multiple_inheritance(h: Harness):
    """a production that derives from TWO abstract types of the grammar (`class Call(Expr, Stmt)`): whichever rules the library
    lists it under, the weights of every rule are non-negative, sum to one, keep the declared ratios, and extracting again changes
    nothing"""
    Root = type(fresh("Root"), (ABC,), {})
    Expr = abstract(type(fresh("Expr"), (Root,), {}))
    Stmt = abstract(type(fresh("Stmt"), (Root,), {}))
    Lit = weight(3)(dataclasses.make_dataclass(fresh("Lit"), [("x", int)], bases=(Expr,)))
    Call = weight(1)(dataclasses.make_dataclass(fresh("Call"), [("x", int)], bases=(Expr, Stmt)))
    Skip = weight(2)(dataclasses.make_dataclass(fresh("Skip"), [("x", int)], bases=(Stmt,)))
    Seq = dataclasses.make_dataclass(fresh("Seq"), [("a", Stmt)], bases=(Stmt,))
    declared = {Lit: 3, Call: 1, Skip: 2, Seq: 1}
    prev = None
    for step in range(1, 4):
        try:
            g = extract_grammar([Lit, Call, Skip, Seq, Expr, Stmt], Root)
        except Exception as e:  # noqa: BLE001
            h.fail("extract_grammar", "raises", f"extraction #{step} of a grammar with a production of two abstract bases: {type(e).__name__}: {e}", ["multi", step])
            return
        gw = g.get_weights()
        shown = {k.__name__: round(v, 6) for k, v in gw.items() if k in declared}
        h.count("multiple-inheritance-extractions")
        h.seen(f"multi-inheritance:{step}", nontrivial=True)
        for rule, alts in g.alternatives.items():
            prods = [a for a in alts if a in declared]
            if len(prods) < 2 or rule is Root:
                continue
            total = sum(gw[a] for a in alts)
            if abs(total - 1) > 1e-9 or any(gw[a] < 0 for a in alts):
                h.fail("extract_grammar", "weights-not-normalised", f"extraction #{step}: the weights of rule {rule.__name__} -> {[a.__name__ for a in alts]} sum to "
                       f"{total}: {shown}", ["multi", step])
                return
            for a in prods:
                for b_ in prods:
                    if abs(gw[a] * declared[b_] - gw[b_] * declared[a]) > 1e-9:
                        h.fail("extract_grammar", "ratios-not-preserved", f"extraction #{step}: rule {rule.__name__}: {a.__name__}:{b_.__name__} declared "
                               f"{declared[a]}:{declared[b_]}, extracted {gw[a]}:{gw[b_]} ({shown})", ["multi", step])
                        return
        if prev is not None and any(abs(prev[k] - shown[k]) > 1e-9 for k in shown):
            h.fail("extract_grammar", "re-extraction-changes-weights", f"extraction #{step} changed the weights: {prev} -> {shown}", ["multi", step])
            return
        prev = shown


# ----------------------------------------------------------------------------------------
# corpus
# ----------------------------------------------------------------------------------------

def corpus_flat(weights):
    root = Node(fresh("R"), True, None, [])
    nodes = [root]
    for w in weights:
        c = Node(fresh("C"), False, root, [], weight=w)
        root.children.append(c)
        nodes.append(c)
    for i, n in enumerate(nodes):
        n.index = i
    return nodes


def corpus_nested(listed: bool, inner, outer_e, mid_weight=None):
    """R -> B | E ; B -> C | D (B an abstract intermediate)."""
    root = Node(fresh("R"), True, None, [])
    b = Node(fresh("A"), True, root, [], weight=mid_weight, listed=listed)
    e = Node(fresh("C"), False, root, [], weight=outer_e)
    c = Node(fresh("C"), False, b, [], weight=inner[0])
    d = Node(fresh("C"), False, b, [], weight=inner[1])
    root.children = [b, e]
    b.children = [c, d]
    nodes = [root, b, c, d, e]
    for i, n in enumerate(nodes):
        n.index = i
    return nodes


def run(h: Harness):
    check_weights_survive_derived_grammars(h)
    rng = h.rng
    budget = {"all_draws": h.n(6, 60)}

    def full(nodes, stream, n_extract, extra=(), tag="", choosers=True):
        build_classes(nodes)
        g = run_extraction(h, nodes, stream, n_extract, extra, tag)
        if g is not None and stream == "D" and choosers:
            check_ptd(h, g, nodes, budget)
            check_stack(h, g, describe(nodes, []))

    check_programs(h)
    check_redeclaration(h)
    check_same_named_rules(h)
    check_multiple_inheritance(h)
    check_nested_start(h)
    # -- corpus
    full(corpus_flat([0, 1]), "D", 3)
    full(corpus_flat([0, None]), "D", 2)
    full(corpus_flat([0.0, 2, None, None]), "D", 3)
    full(corpus_flat([1, 99]), "F", 3)
    full(corpus_flat([None, None, None]), "D", 2)                 # nothing weighted: nothing is normalised
    full(corpus_nested(True, [0, None], 3), "D", 3)
    full(corpus_nested(False, [0, None], 3), "D", 3)                # abstract intermediate NOT in considered_subtypes
    full(corpus_nested(False, [None, None], None, mid_weight=3), "D", 2)   # only the unlisted intermediate is weighted
    full(corpus_nested(True, [0, 0.0], 3), "D", 2)                  # all-zero rule
    nodes = corpus_flat([1, 3])
    nodes[0].weight = 0.5                                           # weighted start symbol (not a production)
    full(nodes, "D", 2)
    nodes = corpus_flat([1, 3])
    nodes[0].weight = 2                                             # ... above 1: the library's own assert rejects it
    full(nodes, "D", 1)
    stray = dataclasses.make_dataclass(fresh("Z"), [("x", int)])
    full(corpus_flat([1, 0, 3]), "D", 2, extra=[stray], tag="+unreachable-considered")
    full(corpus_flat([1, 0, 3]), "D", 2, extra=[int], tag="+builtin-considered")

    # -- generated
    for _ in range(h.n(150, 3000)):
        nodes = gen_tree(rng, rng.choice([1, 2, 2, 3]))
        for n in nodes[1:]:
            if n.is_abstract:
                n.listed = rng.random() < 0.5
        if rng.random() < 0.06:
            # no production weighted; a weight on the start symbol alone still triggers the normalisation, which is
            # exact only when every rule has a power-of-two number of productions
            pow2 = all((len(n.children) & (len(n.children) - 1)) == 0 for n in nodes if n.children)
            if pow2 and rng.random() < 0.5:
                nodes[0].weight = rng.choice([0, 0.5, 1, 0.25])
        else:
            assign_dyadic(rng, nodes, zero_rule=rng.random() < 0.08)
            if rng.random() < 0.12:
                nodes[0].weight = rng.choice([0, 0.5, 1, 0.25])
        extra, tag = (), ""
        r = rng.random()
        if r < 0.08:
            extra, tag = [dataclasses.make_dataclass(fresh("Z"), [("x", int)])], "+unreachable-considered"
        elif r < 0.16:
            extra, tag = [int], "+builtin-considered"
        full(nodes, "D", rng.choice([1, 2, 3]), extra, tag)
    for _ in range(h.n(60, 1200)):
        nodes = gen_tree(rng, rng.choice([1, 2, 3]))
        for n in nodes[1:]:
            if n.is_abstract:
                n.listed = rng.random() < 0.5
        assign_floats(rng, nodes)
        full(nodes, "F", rng.choice([2, 3]))
